(* Props/C01.v — rawdb: every region reads back exactly its own bytes, across any history.
   Statements only.  FULL statement (target; proved parts are listed as theorems below): *)
From Anydb Require Import Common.Base Gen.Consts Rawdb.AMap Rawdb.Alloc Rawdb.AllocSpec Rawdb.AllocInv Rawdb.AllocFacts.

From Anydb Require Import Gen.Exprs Rawdb.ExprFacts.

(* every step of the allocator model refines the per-name byte-vector reference, with the same
   result, from every state satisfying the extent invariant *)
Definition C01_refines_step_full : Prop :=
  forall s o, Inv s -> op_fits s o -> op_defined s o ->
    spec_eq (abs (fst (step_total s o))) (fst (spec_step (abs s) o))
    /\ res_agree (snd (step_total s o)) (snd (spec_step (abs s) o)).

(* the byte pattern the differential engine writes is the one the model is fed *)
Theorem C01_gen_byte_is_a_byte : forall w k, gen_byte w k < 256.
Proof. exact gen_byte_lt. Qed.
Print Assumptions C01_gen_byte_is_a_byte.

(* memory writes land where they are aimed and nowhere else (the frame lemma every path of
   write_with rests on) *)
Theorem C01_mem_write_frame :
  forall m off f n a, mem_write m off f n a = if (off <=? a) && (a <? off + n) then f (a - off) else m a.
Proof. exact mem_write_spec. Qed.
Print Assumptions C01_mem_write_frame.

Theorem C01_mem_copy_frame :
  forall m src dst n a, mem_copy m src dst n a = if (dst <=? a) && (a <? dst + n) then m (a - dst + src) else m a.
Proof. exact mem_copy_spec. Qed.
Print Assumptions C01_mem_copy_frame.

From Anydb Require Import Rawdb.AllocNoPanic Rawdb.AllocRefine Rawdb.AllocRefineAll Rawdb.SpecCongr Rawdb.InvStep Rawdb.InvFinal.

(* REFUTED: the full one-step statement.  Witness: AllocNoPanic.big_state (one region with
   len = reserved = MAX_RESERVED_SIZE = 1 TiB) and Write 1 _ 1: op_fits holds (1 <= MAX/4) but the
   reserve doubles to 2 TiB and the assert `reserved <= MAX_RESERVED_SIZE` of
   region_metadata.rs:92 panics, while the reference answers Ok. *)
Theorem C01_refines_step_refuted : ~ C01_refines_step_full.
Proof. exact c01_full_refuted. Qed.
Print Assumptions C01_refines_step_refuted.

(* PARTIAL: the full statement with op_fits strengthened to op_fits_strong (for the three write
   operations additionally: current length + n <= MAX_RESERVED_SIZE / 2); op_defined is no longer
   needed.  Nothing else is missing: all 15 operations (Retain: refused and successful branch),
   all four placement paths, errors, persistence flag, handles. *)
Theorem C01_refines_step_partial :
  forall s o, Inv s -> op_fits_strong s o ->
    spec_eq (abs (fst (step_total s o))) (fst (spec_step (abs s) o))
    /\ res_agree (snd (step_total s o)) (snd (spec_step (abs s) o)).
Proof. exact c01_refines_step_partial. Qed.
Print Assumptions C01_refines_step_partial.

(* the same with the weakest side conditions: no panic and no RegionSizeOverflow refusal *)
Theorem C01_refines_step_cond :
  forall s o, Inv s -> step s o <> APanic -> no_overflow s o -> refines_step s o.
Proof. exact c01_refines_step. Qed.
Print Assumptions C01_refines_step_cond.

(* over histories, trace form: every step refines the reference applied to the abstraction of
   the state it starts from *)
Theorem C01_refines_trace :
  forall ops s, Inv s -> ops_ok s ops ->
  forall pre o post, ops = pre ++ o :: post -> refines_step (run s pre) o.
Proof. exact refines_run. Qed.
Print Assumptions C01_refines_trace.

(* over histories, single-run form: ONE run of the reference from the abstraction of the start
   state simulates the whole history (spec_step is a congruence for spec_eq on states with unique
   names: SpecCongr.spec_step_congr), with stepwise agreeing results *)
Theorem C01_refines :
  forall ops s, Inv s -> ops_ok s ops ->
  spec_eq (abs (run s ops)) (spec_run (abs s) ops) /\
  Forall2 res_agree (run_results s ops) (spec_results (abs s) ops).
Proof. exact refines_run_single. Qed.
Print Assumptions C01_refines.

(* a step addressed at some region names leaves every other name's reference entry alone *)
Theorem C01_isolation : forall s o ids id',
  Inv s -> op_fits_strong s o -> op_ids o = Some ids -> ~ In id' ids ->
  same_region (sget id' (sp_regions (abs (fst (step_total s o))))) (sget id' (sp_regions (abs s))).
Proof. exact c01_isolation_strong. Qed.
Print Assumptions C01_isolation.

(* reopen keeps exactly the persisted regions, with their bytes, and drops all handles *)
Theorem C01_reopen : forall s, Inv s ->
  spec_eq (abs (fst (step_total s Reopen)))
          (mkSpec (filter (fun kv => s_persisted (snd kv)) (sp_regions (abs s))) []).
Proof. exact refines_reopen. Qed.
Print Assumptions C01_reopen.

Definition C01_never_panics_full : Prop := forall s o, Inv s -> op_fits s o -> step s o <> APanic.

(* REFUTED as stated (same witness as above); PARTIAL with op_fits_strong *)
Theorem C01_never_panics_refuted : exists s o, Inv s /\ op_fits s o /\ step s o = APanic.
Proof. exact never_panics_refuted. Qed.
Print Assumptions C01_never_panics_refuted.

Theorem C01_never_panics_partial : forall s o, Inv s -> op_fits_strong s o -> step s o <> APanic.
Proof. exact never_panics. Qed.
Print Assumptions C01_never_panics_partial.

(* the side conditions are satisfiable along a real history *)
Theorem C01_example : ops_ok (init 0) [Create 1 false; Write 1 (gen_byte 1) 5000; Flush; Reopen].
Proof. exact ex_ops_ok. Qed.
Print Assumptions C01_example.

(* ... including both branches of the repaired retain_regions *)
Theorem C01_example_retain :
  ops_ok (init 0) [Create 1 false; Create 2 true; Retain []; DropHandle 2; Retain [2]; Retain []]
  /\ run_results (init 0) [Create 1 false; Create 2 true; Retain []; DropHandle 2; Retain [2]; Retain []]
     = [Ok OUnit; Ok OUnit; Err RegionStillReferenced; Ok OUnit; Ok OUnit; Ok OUnit].
Proof. exact (conj ex_ops_ok_retain ex_retain_results). Qed.
Print Assumptions C01_example_retain.

(* the arithmetic of write_with / set_min_len / truncate in the model is the arithmetic of the
   source (Gen/Exprs.v is re-translated from /repo on every run) *)
Theorem C01_ceil_page_is_source : forall n, ceil_page n = x_ceil_page n.
Proof. exact ceil_page_is_source. Qed.
Print Assumptions C01_ceil_page_is_source.

Theorem C01_set_min_len_is_source :
  forall s n, file_len (set_min_len s n) =
    if ceil_page n <=? file_len s then file_len s else x_grow_target (ceil_page n) (file_len s).
Proof. exact set_min_len_is_source. Qed.
Print Assumptions C01_set_min_len_is_source.

Theorem C01_write_arith_is_source :
  (forall ln n, x_new_len_append ln n = ln + n)
  /\ (forall ln n a tr, x_new_len_at ln n a tr = if tr then a + n else N.max (a + n) ln)
  /\ (forall start off, x_write_start start off = start + off)
  /\ (forall nr r, x_added_reserve nr r = nr - r)
  /\ (forall off ln tr, x_copy_len off ln tr = if tr then off else ln)
  /\ (forall start nr, x_extend_target start nr = start + nr)
  /\ (forall start r, x_adjacent_hole_start start r = start + r)
  /\ (forall nl r, x_fits nl r = (nl <=? r))
  /\ (forall a ln, x_write_refused a ln = (ln <? a))
  /\ (forall f ln, x_truncate_noop f ln = (f =? ln))
  /\ (forall f ln, x_truncate_refused f ln = (ln <? f))
  /\ (forall e, x_create_min_len e = e + PAGE_SIZE)
  /\ (forall k, x_min_regions_data k = k * PAGE_SIZE)
  /\ (forall k, x_min_regions_meta k = k * SIZE_OF_REGION_METADATA).
Proof. exact write_arith_is_source. Qed.
Print Assumptions C01_write_arith_is_source.
