(* Props/C01.v — rawdb: every region reads back exactly its own bytes, across any history.
   Statements only.  FULL statement (target; proved parts are listed as theorems below): *)
From Anydb Require Import Common.Base Gen.Consts Rawdb.AMap Rawdb.Alloc Rawdb.AllocSpec Rawdb.AllocInv Rawdb.AllocFacts.

(* every step of the allocator model refines the per-name byte-vector reference, with the same
   result, from every state satisfying the extent invariant *)
Definition C01_refines_step_full : Prop :=
  forall s o, Inv s -> op_fits s o -> op_defined s o ->
    spec_eq (abs (fst (step_total s o))) (fst (spec_step (abs s) o))
    /\ res_agree (snd (step_total s o)) (snd (spec_step (abs s) o)).

(* the byte pattern the differential engine writes is the one the model is fed *)
Theorem C01_gen_byte_is_a_byte : forall w k, gen_byte w k < 256.
Proof. exact gen_byte_lt. Qed.
Print Assumptions C01_gen_byte_is_a_byte.

(* memory writes land where they are aimed and nowhere else (the frame lemma every path of
   write_with rests on) *)
Theorem C01_mem_write_frame :
  forall m off f n a, mem_write m off f n a = if (off <=? a) && (a <? off + n) then f (a - off) else m a.
Proof. exact mem_write_spec. Qed.
Print Assumptions C01_mem_write_frame.

Theorem C01_mem_copy_frame :
  forall m src dst n a, mem_copy m src dst n a = if (dst <=? a) && (a <? dst + n) then m (a - dst + src) else m a.
Proof. exact mem_copy_spec. Qed.
Print Assumptions C01_mem_copy_frame.
