(* Props/C01.v — rawdb: every region reads back exactly its own bytes, across any history.
   Statements only.  FULL statement (target; proved parts are listed as theorems below): *)
From Anydb Require Import Common.Base Gen.Consts Rawdb.AMap Rawdb.Alloc Rawdb.AllocSpec Rawdb.AllocInv Rawdb.AllocFacts Gen.Exprs Rawdb.ExprFacts.

(* every step of the allocator model refines the per-name byte-vector reference, with the same
   result, from every state satisfying the extent invariant *)
Definition C01_refines_step_full : Prop :=
  forall s o, Inv s -> op_fits s o -> op_defined s o ->
    spec_eq (abs (fst (step_total s o))) (fst (spec_step (abs s) o))
    /\ res_agree (snd (step_total s o)) (snd (spec_step (abs s) o)).

(* the byte pattern the differential engine writes is the one the model is fed *)
Theorem C01_gen_byte_is_a_byte : forall w k, gen_byte w k < 256.
Proof. exact gen_byte_lt. Qed.
Print Assumptions C01_gen_byte_is_a_byte.

(* memory writes land where they are aimed and nowhere else (the frame lemma every path of
   write_with rests on) *)
Theorem C01_mem_write_frame :
  forall m off f n a, mem_write m off f n a = if (off <=? a) && (a <? off + n) then f (a - off) else m a.
Proof. exact mem_write_spec. Qed.
Print Assumptions C01_mem_write_frame.

Theorem C01_mem_copy_frame :
  forall m src dst n a, mem_copy m src dst n a = if (dst <=? a) && (a <? dst + n) then m (a - dst + src) else m a.
Proof. exact mem_copy_spec. Qed.
Print Assumptions C01_mem_copy_frame.

(* the arithmetic of write_with / set_min_len / truncate in the model is the arithmetic of the
   source (Gen/Exprs.v is re-translated from /repo on every run) *)
Theorem C01_ceil_page_is_source : forall n, ceil_page n = x_ceil_page n.
Proof. exact ceil_page_is_source. Qed.
Print Assumptions C01_ceil_page_is_source.

Theorem C01_set_min_len_is_source :
  forall s n, file_len (set_min_len s n) =
    if ceil_page n <=? file_len s then file_len s else x_grow_target (ceil_page n) (file_len s).
Proof. exact set_min_len_is_source. Qed.
Print Assumptions C01_set_min_len_is_source.

Theorem C01_write_arith_is_source :
  (forall ln n, x_new_len_append ln n = ln + n)
  /\ (forall ln n a tr, x_new_len_at ln n a tr = if tr then a + n else N.max (a + n) ln)
  /\ (forall start off, x_write_start start off = start + off)
  /\ (forall nr r, x_added_reserve nr r = nr - r)
  /\ (forall off ln tr, x_copy_len off ln tr = if tr then off else ln)
  /\ (forall start nr, x_extend_target start nr = start + nr)
  /\ (forall start r, x_adjacent_hole_start start r = start + r)
  /\ (forall nl r, x_fits nl r = (nl <=? r))
  /\ (forall a ln, x_write_refused a ln = (ln <? a))
  /\ (forall f ln, x_truncate_noop f ln = (f =? ln))
  /\ (forall f ln, x_truncate_refused f ln = (ln <? f))
  /\ (forall e, x_create_min_len e = e + PAGE_SIZE)
  /\ (forall k, x_min_regions_data k = k * PAGE_SIZE)
  /\ (forall k, x_min_regions_meta k = k * SIZE_OF_REGION_METADATA).
Proof. exact write_arith_is_source. Qed.
Print Assumptions C01_write_arith_is_source.
