(* Props/C13.v — an operation that reports an error has no effect.  Statements only. *)
From Anydb Require Import Common.Base Gen.Consts Rawdb.AMap Rawdb.Alloc Rawdb.AllocSpec Rawdb.AllocInv Rawdb.AllocFacts.

(* FULL statement (rawdb part): from every state satisfying the extent invariant, a refused
   request returns the state unchanged — hence the outcome of every later operation *)
Definition C13_rawdb_full : Prop :=
  forall s o s' e, Inv s -> step s o = AErr s' e -> e <> RegionMetadataUnwritten -> s' = s.

Theorem C13_inv_init : forall min_len, Inv (init min_len).
Proof. exact inv_init. Qed.
Print Assumptions C13_inv_init.
