(* Props/C13.v — an operation that reports an error has no effect.  Statements only. *)
From Anydb Require Import Common.Base Gen.Consts Rawdb.AMap Rawdb.Alloc Rawdb.AllocSpec Rawdb.AllocInv Rawdb.AllocFacts.

(* FULL statement (rawdb part): from every state satisfying the extent invariant, a refused
   request returns the state unchanged — hence the outcome of every later operation *)
Definition C13_rawdb_full : Prop :=
  forall s o s' e, Inv s -> step s o = AErr s' e -> e <> RegionMetadataUnwritten -> s' = s.

Theorem C13_inv_init : forall min_len, Inv (init min_len).
Proof. exact inv_init. Qed.
Print Assumptions C13_inv_init.

From Anydb Require Import Rawdb.AllocErr Rawdb.InvStep Rawdb.InvFinal.

(* FULL: every operation, Retain included.  (History: the model of retain_regions before fix
   881ef86 removed regions one by one and stopped at the first held one; the statement was then
   refuted by `Retain []` after `Create 1 false; Create 2 true` — see C13_example_retain for the
   same input on the repaired code.) *)
Theorem C13_rawdb : C13_rawdb_full.
Proof. exact c13_rawdb. Qed.
Print Assumptions C13_rawdb.

(* old names, now corollaries of C13_rawdb *)
Theorem C13_rawdb_partial :
  forall s o s' e, Inv s -> op_defined s o -> step s o = AErr s' e -> e <> RegionMetadataUnwritten -> s' = s.
Proof. exact c13_rawdb_defined. Qed.
Print Assumptions C13_rawdb_partial.

Theorem C13_rawdb_nonretain :
  forall s o s' e, Inv s -> (forall keep, o <> Retain keep) ->
    step s o = AErr s' e -> e <> RegionMetadataUnwritten -> s' = s.
Proof. exact c13_rawdb_nonretain. Qed.
Print Assumptions C13_rawdb_nonretain.

(* the hypotheses are satisfiable: refused requests on reachable states *)
Theorem C13_example :
  let s := run (init 0) [Create 2 true] in
  Inv s /\ exists s', step s (Remove 2) = AErr s' RegionStillReferenced.
Proof. exact ex_c13. Qed.
Print Assumptions C13_example.

Theorem C13_example_retain :
  let s := run (init 0) [Create 1 false; Create 2 true] in
  Inv s /\ step s (Retain []) = AErr s RegionStillReferenced.
Proof. exact ex_c13_retain. Qed.
Print Assumptions C13_example_retain.
