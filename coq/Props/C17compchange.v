(* Props/C17compchange.v — C17 for the rollback change records of COMPRESSED vectors (the base record
   of base/rollback.rs without the raw tail, parsed by parse_change_data + expect_end): the codec
   round-trips, rejects every truncation and every extension of an accepted input and never panics.
   Statements only; proofs in Vec/CvFaultProofs.v. *)
From Anydb Require Import Common.Base Common.LE Gen.Consts Gen.Sizes Codec.Vecdb
  Vec.CvRegion Vec.CvPages Vec.CvModel Vec.CvInst Vec.CvFault Vec.CvFaultProofs.

(* decode o encode: a record laid out as serialize_changes writes it decodes to exactly the fields that
   were encoded (stamp, prev_stored_len, truncated values, prev_pushed) — or to Underflow when its
   prev_stored_len field is below its truncated count, which serialize_changes never writes *)
Theorem C17_comp_change_record_roundtrip :
  forall (T : Type) (size : N) (enc : T -> list N) (dec : list N -> T),
  0 < size ->
  (forall t : T, len (enc t) = size) ->
  (forall t : T, dec (enc t) = t) ->
  forall (stamp psl sl : N) (tv pp pu : list T),
  stamp < two64 ->
  psl < two64 ->
  sl < two64 ->
  48 + size * len tv + size * len pp + size * len pu < two64 ->
  parse_change T size dec (record_bytes T enc stamp psl sl tv pp pu) =
  (if psl <? len tv then Err EUnderflow
   else Ok (mkChange T stamp psl (psl - len tv) tv pp)).
Proof. exact comp_parse_record. Qed.
Print Assumptions C17_comp_change_record_roundtrip.

Theorem C17_comp_change_record_total :
  forall (T : Type) (size : N) (dec : list N -> T) (bs : list N), parse_change T size dec bs <> Panic.
Proof. exact comp_parse_never_panics. Qed.
Print Assumptions C17_comp_change_record_total.

Theorem C17_comp_change_record_truncation_rejected :
  forall (T : Type) (size : N) (dec : list N -> T) (bs : list N) (ch : change T) (m : N),
  parse_change T size dec bs = Ok ch ->
  m < len bs -> exists e : cverr, parse_change T size dec (take m bs) = Err e.
Proof. exact comp_accepted_prefix_rejected. Qed.
Print Assumptions C17_comp_change_record_truncation_rejected.

Theorem C17_comp_change_record_extension_rejected :
  forall (T : Type) (size : N) (dec : list N -> T) (bs : list N) (ch : change T) (extra : list N),
  parse_change T size dec bs = Ok ch ->
  extra <> [] -> exists e : cverr, parse_change T size dec (bs ++ extra) = Err e.
Proof. exact comp_trailing_bytes_rejected. Qed.
Print Assumptions C17_comp_change_record_extension_rejected.
