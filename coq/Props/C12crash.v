(* Props/C12crash.v — crash part of C12: compaction releases storage only from extents that no
   durable metadata references, so a crash during or after compaction still satisfies C05.
   Statements only. *)
From Anydb Require Import Common.Base Gen.Consts Rawdb.AMap Rawdb.Alloc Rawdb.Crash Rawdb.CrashFacts
  Rawdb.CrashInv Rawdb.CrashSound Rawdb.CrashCompact Rawdb.AllocEvents Rawdb.AllocDisciplinedAll Rawdb.AllocDisciplinedPunch.

(* in an accepted trace, a punch issued while no operation ids are current (compaction names no
   region) is disjoint from the content [start, start+len) of EVERY possibly-durable version of
   EVERY slot (corollary of M4 = data_ok) *)
Theorem C12_punch_safe :
  forall t1 off len t2, snd (mon_run mon_init (t1 ++ CPunch off len :: t2)) = true ->
    let m := fst (mon_run mon_init t1) in
    m_cur m = [] ->
    forall i v, In (Some v) (possible m i) -> disjoint off len (sr_start v) (sr_len v) = true.
Proof. exact C12_punch_safe_proof. Qed.
Print Assumptions C12_punch_safe.

(* ... so on every such content, an OS image taken after the punch is an OS image taken before it *)
Theorem C12_punch_keeps_contents :
  forall t1 off len t2, snd (mon_run mon_init (t1 ++ CPunch off len :: t2)) = true ->
    let m := fst (mon_run mon_init t1) in
    let m' := fst (mon_run mon_init (t1 ++ [CPunch off len])) in
    m_cur m = [] ->
    forall i v, In (Some v) (possible m i) ->
    forall img, os_data m' img -> forall a, sr_start v <= a < sr_start v + sr_len v ->
      img a = m_dmem m a \/
      exists off' len' f, In (off', len', f) (m_pdata m) /\ off' <= a < off' + len' /\ img a = f a.
Proof. exact C12_punch_keeps_contents_proof. Qed.
Print Assumptions C12_punch_keeps_contents.

(* every crash point at or after a punch satisfies the full OS-mode statement of C05 *)
Theorem C12_crash_os :
  forall t1 off len t2, snd (mon_run mon_init (t1 ++ CPunch off len :: t2)) = true ->
    let m := fst (mon_run mon_init (t1 ++ [CPunch off len])) in
    forall sigma img, os_slots m sigma -> os_data m img ->
      pairwise_disjoint (recovered m sigma) /\ inside_file m (recovered m sigma)
      /\ match m_flushed m with
         | Some (fl, fmem) =>
             forall i w, assoc_get i fl = Some w -> mem_in (sr_id w) (m_touched m) = false ->
               sigma i = Some w /\ forall a, sr_start w <= a < sr_start w + sr_len w -> img a = fmem a
         | None => True
         end.
Proof. exact C12_crash_os_proof. Qed.
Print Assumptions C12_crash_os.

(* punch_holes arithmetic: the punched tail [start + ceil_page len, start + reserved) of a region
   never meets its content *)
Theorem C12_tail_punch_misses_content :
  forall start ln reserved, disjoint (start + ceil_page ln) (reserved - ceil_page ln) start ln = true.
Proof. exact C12_tail_punch_disjoint. Qed.
Print Assumptions C12_tail_punch_misses_content.

(* every history of the allocator model: a punch of the model's trace never meets the content of a
   possibly-durable version.  PARTIAL in the hypothesis `m_cur m = []`: in the model's traces
   punches occur only inside compact, whose COp names no id, so it always holds, but that
   structural fact about trace_of_o is not proved. *)
Theorem C12_all_histories_partial :
  forall orcs min_len ops, forallb crash_op ops = true ->
  forall t1 off len t2, trace_of_o orcs min_len ops = t1 ++ CPunch off len :: t2 ->
    let m := fst (mon_run mon_init t1) in
    m_cur m = [] ->
    forall i v, In (Some v) (possible m i) -> disjoint off len (sr_start v) (sr_len v) = true.
Proof. exact C12_all_histories_partial_proof. Qed.
Print Assumptions C12_all_histories_partial.

(* FULL statement: compaction, in every history of the allocator model and for every outcome of
   approx_has_punchable_data, punches only bytes that no possibly-durable version of any slot
   references as content *)
Definition C12_all_histories_full : Prop :=
  forall orcs min_len ops, forallb crash_op ops = true ->
  forall t1 off len t2, trace_of_o orcs min_len ops = t1 ++ CPunch off len :: t2 ->
    let m := fst (mon_run mon_init t1) in
    forall i v, In (Some v) (possible m i) -> disjoint off len (sr_start v) (sr_len v) = true.

(* the structural fact (Rawdb/AllocDisciplinedPunch.v): in the model's traces punches occur only
   while no operation ids are current, and the monitor's m_cur follows the last COp / CEnd *)
Theorem C12_all_histories : C12_all_histories_full.
Proof. exact C12_all_histories_proof. Qed.
Print Assumptions C12_all_histories.
