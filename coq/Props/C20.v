(* Props/C20.v — reads on behalf of a vector never touch bytes outside its region's valid data.
   Statements only.  `accesses_ok c s`: every (off, len) the path fetches satisfies
   off + len <= region_len c. *)
From Anydb Require Import Common.Base Gen.Consts Gen.Sizes Vec.RdModel Vec.RdCursor Vec.RdComp Vec.RdProofs.

(* ---- full statements *)
Definition C20_read_into_at_full : Prop := forall c from to, wf c -> accesses_ok c (read_into_at c from to).
Definition C20_fold_range_at_full : Prop := forall c from to, wf c -> accesses_ok c (fold_range_at c from to).
Definition C20_try_fold_range_at_full : Prop := forall c from to, wf c -> accesses_ok c (try_fold_range_at c from to).
Definition C20_read_at_once_full : Prop := forall c i, wf c -> accesses_ok c (read_at_once c i).
Definition C20_vec_reader_full : Prop := forall c i, wf c -> accesses_ok c (vr_try_get c i).
Definition C20_clone_full : Prop := forall c from to, wf c -> accesses_ok c (ro_read_into c from to).
Definition C20_compressed_full : Prop :=
  forall c from to, cwf_b c = true ->
  Forall (fun a => fst a + snd a <= c_rlen c) (fetches (cread_into_at c from to)).

(* ---- proved for all well-formed states, including stored_len above the on-disk length *)
Theorem C20_get_any :
  forall c i, wf c ->
  yields (get_any c i) = opt_list (view c i) /\ clean (get_any c i) = true /\ accesses_ok c (get_any c i).
Proof. exact get_any_correct. Qed.
Print Assumptions C20_get_any.

Theorem C20_collect_one_at :
  forall c i, wf c ->
  yields (collect_one_at c i) = opt_list (expected_one c i)
  /\ clean (collect_one_at c i) = true /\ accesses_ok c (collect_one_at c i).
Proof. exact collect_one_correct. Qed.
Print Assumptions C20_collect_one_at.

Theorem C20_read_ref_at : forall c i, wf c -> clean (read_ref_at c i) = true /\ accesses_ok c (read_ref_at c i).
Proof. exact read_ref_at_ok. Qed.
Print Assumptions C20_read_ref_at.

(* an early-exiting closure (try_fold) never makes a path fetch more than its full run *)
Theorem C20_early_exit : forall c k s, accesses_ok c s -> accesses_ok c (cut k s).
Proof. exact cut_accesses_ok. Qed.
Print Assumptions C20_early_exit.

(* ---- proved for the states in which every stored index is on disk (no pending rollback overlay);
   missing: nothing can be added, the unrestricted statements are refuted below *)
Theorem C20_vec_reader_partial :
  forall c i, not_expanded c -> clean (vr_try_get c i) = true /\ accesses_ok c (vr_try_get c i).
Proof. exact vr_try_get_ok. Qed.
Print Assumptions C20_vec_reader_partial.

Theorem C20_vec_reader_get_partial :
  forall c i, not_expanded c -> i < r_stored c -> clean (vr_get c i) = true /\ accesses_ok c (vr_get c i).
Proof. exact vr_get_ok. Qed.
Print Assumptions C20_vec_reader_get_partial.

Theorem C20_clone_collect_one_partial :
  forall c i, not_expanded c -> clean (ro_collect_one c i) = true /\ accesses_ok c (ro_collect_one c i).
Proof. exact ro_collect_one_ok. Qed.
Print Assumptions C20_clone_collect_one_partial.

(* the pointer scan (RawMmapSource) over any range; missing for the range entry points: fold_dirty,
   the IO source's refill arithmetic, the memcpy path *)
Theorem C20_mmap_src_partial :
  forall c from to, not_expanded c ->
  yields (mmap_src c (r_stored c) from to) = slice (N.min from (r_stored c)) (N.min to (r_stored c)) (r_disk c)
  /\ clean (mmap_src c (r_stored c) from to) = true
  /\ accesses_ok c (mmap_src c (r_stored c) from to).
Proof. exact mmap_src_ok. Qed.
Print Assumptions C20_mmap_src_partial.

(* ---- refuted by the faithful model *)
Theorem C20_read_at_once_refuted :
  wf w_buffered /\ region_len w_buffered = 56 /\ run (read_at_once w_buffered 4) = (RGarbage, [(64, 8)]).
Proof. exact read_at_once_refuted. Qed.
Print Assumptions C20_read_at_once_refuted.

Theorem C20_clone_after_rollback_refuted :
  wf w_expanded /\ region_len w_expanded = 48
  /\ run (ro_read_into w_expanded 0 4) = (RGarbage, [(32, 32)])
  /\ run (vr_try_get w_expanded 3) = (RGarbage, [(56, 8)]).
Proof. exact clone_after_rollback_refuted. Qed.
Print Assumptions C20_clone_after_rollback_refuted.
