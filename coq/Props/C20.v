(* Props/C20.v — reads on behalf of a vector never touch bytes outside its region's valid data.
   Statements only.  `good c s ys` / `cgood c s ys` (RdProofs / RdCompProofs) contain
   `Forall (in_region c) (fetches s)`: every (off, len) the path fetches satisfies
   off + len <= region length — together with the result, so that the access claim is about the
   same run that returns the right elements. *)
From Anydb Require Import Common.Base Gen.Consts Gen.Sizes Vec.RdModel Vec.RdCursor Vec.RdComp Vec.RdProofs
  Vec.RdCursorProofs Vec.RdCompProofs Vec.RdRefuted.

(* ---- raw vector, ALL well-formed states — in particular stored_len above the on-disk length after a
   rollback (wf: every index in [|disk|, stored_len) is an `updated` key or a hole) *)
Theorem C20_read_into_at : forall c from to, wf c -> good c (read_into_at c from to) (expected c from to).
Proof. exact read_into_at_good. Qed.
Print Assumptions C20_read_into_at.

Theorem C20_fold_range_at : forall c from to, wf c -> good c (fold_range_at c from to) (expected c from to).
Proof. exact fold_range_at_good. Qed.
Print Assumptions C20_fold_range_at.

Theorem C20_try_fold_range_at : forall c from to, wf c -> good c (try_fold_range_at c from to) (expected c from to).
Proof. exact try_fold_range_at_good. Qed.
Print Assumptions C20_try_fold_range_at.

(* an early-exiting closure sees a prefix and never makes a path fetch more than its full run *)
Theorem C20_early_exit : forall (P : acc -> Prop) k s ys, goodP P s ys -> goodP P (cut k s) (firstn (S k) ys).
Proof. exact cut_good. Qed.
Print Assumptions C20_early_exit.

Theorem C20_collect_one_at : forall c i, wf c -> good c (collect_one_at c i) (opt_list (expected_one c i)).
Proof. exact collect_one_good. Qed.
Print Assumptions C20_collect_one_at.

Theorem C20_get_any : forall c i, wf c -> good c (get_any c i) (V c i).
Proof. exact get_any_good. Qed.
Print Assumptions C20_get_any.

Theorem C20_read_ref_at : forall c i, wf c ->
  good c (read_ref_at c i)
    (if is_hole c i then [] else if r_stored c <=? i then [] else
       match upd_get c i with Some _ => [] | None => V c i end).
Proof. exact read_ref_at_good. Qed.
Print Assumptions C20_read_ref_at.

(* read_at / read_at_once (repaired in 0cb3a2b): a buffered index never touches the map, in every state *)
Theorem C20_read_at_once_buffered : forall c i, r_stored c <= i -> i < rlen c ->
  good c (read_at_once c i) (opt_list (get (r_pushed c) (i - r_stored c))).
Proof. exact read_at_once_buffered. Qed.
Print Assumptions C20_read_at_once_buffered.

(* the file-IO back-end: seek and every refill lie inside the region *)
Theorem C20_io_source : forall c f t, wf c -> f <= t -> t <= r_stored c -> not_expanded c ->
  good c (io_src c (r_stored c) f t) (flat_map (D c) (seqN f (N.to_nat (t - f)))).
Proof. exact io_src_good. Qed.
Print Assumptions C20_io_source.

Theorem C20_mmap_source : forall c f t, f <= t -> t <= r_stored c -> not_expanded c ->
  good c (mmap_src c (r_stored c) f t) (flat_map (D c) (seqN f (N.to_nat (t - f)))).
Proof. exact mmap_src_good. Qed.
Print Assumptions C20_mmap_source.

(* cursor and sorted reads (states without deleted slots) fetch only what read_into_at fetches *)
Theorem C20_read_sorted : forall c, wf c -> hole_free c -> forall idx,
  exists a, read_sorted (raw_rvec c) idx = (ROk (flat_map (fun i => opt_list (expected_one c i)) idx), a)
            /\ Forall (in_region c) a.
Proof. exact raw_read_sorted. Qed.
Print Assumptions C20_read_sorted.

Theorem C20_cursor_fold : forall c, wf c -> hole_free c -> forall k, rlen c <= u64_max ->
  exists cu' a, cursor_fold (raw_rvec c) cursor_new k = (CList (expected c 0 k), cu', a)
    /\ cu_pos cu' = N.min k (rlen c) /\ Forall (in_region c) a.
Proof. exact raw_cursor_fold. Qed.
Print Assumptions C20_cursor_fold.

(* ---- paths that ignore the `updated` overlay by design (VecReader, get_pushed_or_read_at, the lean
   read-only clone): inside the region in the states where every stored index is on disk.  Nothing can
   be added: the unrestricted statements are refuted below (known rollback-of-truncation class). *)
Theorem C20_vec_reader_partial : forall c i, not_expanded c ->
  good c (vr_try_get c i) (if i <? r_stored c then D c i else []).
Proof. exact vr_try_get_good. Qed.
Print Assumptions C20_vec_reader_partial.

Theorem C20_vec_reader_get_partial : forall c i, not_expanded c -> i < r_stored c -> good c (vr_get c i) (D c i).
Proof. exact vr_get_good. Qed.
Print Assumptions C20_vec_reader_get_partial.

Theorem C20_get_pushed_or_read_partial : forall c i, not_expanded c -> i < rlen c ->
  good c (get_pushed_or_read c i) (if r_stored c <=? i then opt_list (get (r_pushed c) (i - r_stored c)) else D c i).
Proof. exact get_pushed_or_read_good. Qed.
Print Assumptions C20_get_pushed_or_read_partial.

Theorem C20_clone_collect_one_partial : forall c i, not_expanded c ->
  good c (ro_collect_one c i) (if r_stored c <=? i then [] else D c i).
Proof. exact ro_collect_one_good. Qed.
Print Assumptions C20_clone_collect_one_partial.

Theorem C20_clone_read_into_partial : forall c from to, wf c -> not_expanded c ->
  good c (ro_read_into c from to)
    (flat_map (D c) (seqN (N.min from (r_stored c)) (N.to_nat (N.min to (r_stored c) - N.min from (r_stored c))))).
Proof. exact ro_read_into_good. Qed.
Print Assumptions C20_clone_read_into_partial.

Theorem C20_fold_stored_partial : forall io c from to, wf c -> not_expanded c ->
  good c ((if io : bool then fold_stored_io else fold_stored_mmap) c from to)
    (flat_map (D c) (seqN (N.min from (r_stored c)) (N.to_nat (N.min to (r_stored c) - N.min from (r_stored c))))).
Proof. exact fold_stored_good. Qed.
Print Assumptions C20_fold_stored_partial.

Definition C20_vec_reader_full : Prop := forall c i, wf c -> accesses_ok c (vr_try_get c i).
Definition C20_clone_full : Prop := forall c from to, wf c -> accesses_ok c (ro_read_into c from to).

Theorem C20_clone_after_rollback_refuted :
  wf w_expanded /\ region_len w_expanded = 48
  /\ run (ro_read_into w_expanded 0 4) = (RGarbage, [(32, 32)])
  /\ run (vr_try_get w_expanded 3) = (RGarbage, [(56, 8)]).
Proof. exact clone_after_rollback_refuted. Qed.
Print Assumptions C20_clone_after_rollback_refuted.

(* ---- compressed vector: every fetch is a page's byte range (or a refill of consecutive pages), which
   the page index places inside the region *)
Theorem C20_comp_read_into_at : forall c, cwf c -> forall from to, cgood c (cread_into_at c from to) (cexpected c from to).
Proof. exact cread_into_at_good. Qed.
Print Assumptions C20_comp_read_into_at.

Theorem C20_comp_fold_range_at : forall c, cwf c -> forall strict from to, io_sized c ->
  cgood c (cfold_range_at strict c from to) (cexpected c from to).
Proof. exact cfold_range_at_good. Qed.
Print Assumptions C20_comp_fold_range_at.

Theorem C20_comp_io_source : forall c, cwf c -> forall strict f t, io_sized c -> f <= t -> t <= c_stored c ->
  cgood c (cio_src strict c (c_stored c) f t) (flat_map (G c) (seqN f (N.to_nat (t - f)))).
Proof. exact cio_src_good. Qed.
Print Assumptions C20_comp_io_source.

Theorem C20_comp_fold_stored : forall c, cwf c -> forall io from to, io_sized c ->
  cgood c (cfold_stored io c from to)
    (flat_map (G c) (seqN (N.min from (c_stored c)) (N.to_nat (N.min to (c_stored c) - N.min from (c_stored c))))).
Proof. exact cfold_stored_good. Qed.
Print Assumptions C20_comp_fold_stored.

Theorem C20_comp_clone : forall c, cwf c -> forall strict from to, io_sized c ->
  cgood c (cro_fold_range strict c from to)
    (flat_map (G c) (seqN (N.min from (c_stored c)) (N.to_nat (N.min to (c_stored c) - N.min from (c_stored c))))).
Proof. exact cro_fold_range_good. Qed.
Print Assumptions C20_comp_clone.
