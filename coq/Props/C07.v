(* Props/C07.v — compressed storage is lossless and its page index stays well-formed.
   Statements only; each is closed by `exact` of a lemma of Vec/CvInv.v / Vec/CvInstProofs.v.
   All theorems are about the branch-for-branch model Vec/CvModel.v of ReadWriteCompressedVec
   (as repaired by /repo commit "fix: a reset compressed vector is emptied on disk by the next
   write"), for every element type/width, every compressor satisfying the round-trip hypothesis
   and every list of compressed-size hints.  Panic is reachable only through the 1 TiB limit of a
   rawdb region; histories are followed while no step panicked (`no_panic`). *)
From Anydb Require Import Common.Base Common.LE Gen.Consts Gen.Sizes Codec.Vecdb
  Vec.CvRegion Vec.CvPages Vec.CvModel Vec.CvInv Vec.CvInst Vec.CvInstProofs.

(* the initial import establishes the refinement relation (hence the invariant) *)
Theorem C07_init :
  forall (T : Type) (size : N) (enc : T -> list N) (compress : N -> list T -> list cell)
         (decompress : list cell -> N -> option (list T)) (fmt vver : N),
       0 < size ->
       size <= MAX_UNCOMPRESSED_PAGE_SIZE ->
       (forall (k : N) (l : list T), decompress (compress k l) (len l) = Some l) ->
       (forall (k : N) (l : list T), len l <= MAX_UNCOMPRESSED_PAGE_SIZE / size -> len (compress k l) < two32) ->
       format_code_ok fmt = true ->
       vver < two32 ->
       forall s0 : cvs T,
       cv_import T size fmt vver [] [] = Ok s0 -> R T size enc compress fmt vver s0 (spec_init T).
Proof. exact init_R. Qed.
Print Assumptions C07_init.

(* the invariant is preserved by EVERY step of EVERY history, and every step returns Ok *)
Theorem C07_pages_inv :
  forall (T : Type) (size : N) (enc : T -> list N) (dec : list N -> T)
         (compress : N -> list T -> list cell) (decompress : list cell -> N -> option (list T))
         (fmt vver : N),
       0 < size ->
       size <= MAX_UNCOMPRESSED_PAGE_SIZE ->
       (forall t : T, len (enc t) = size) ->
       (forall t : T, dec (enc t) = t) ->
       (forall (k : N) (l : list T), decompress (compress k l) (len l) = Some l) ->
       (forall (k : N) (l : list T), len l <= MAX_UNCOMPRESSED_PAGE_SIZE / size -> len (compress k l) < two32) ->
       vver < two32 ->
       forall (h : list (op T)) (s : cvs T),
       Inv T size enc compress fmt vver s ->
       Forall (op_ok T) h ->
       no_panic T size enc dec compress decompress fmt vver s h ->
       Inv T size enc compress fmt vver (cv_run T size enc dec compress decompress fmt vver s h) /\
       steps_ok T size enc dec compress decompress fmt vver s h.
Proof. exact run_Inv. Qed.
Print Assumptions C07_pages_inv.

(* the invariant implies the page-index predicate of the property text (PagesInv) *)
Theorem C07_pages_inv_reading :
  forall (T : Type) (size : N) (enc : T -> list N) (dec : list N -> T)
         (compress : N -> list T -> list cell) (decompress : list cell -> N -> option (list T))
         (fmt vver : N),
       0 < size ->
       size <= MAX_UNCOMPRESSED_PAGE_SIZE ->
       (forall t : T, len (enc t) = size) ->
       (forall t : T, dec (enc t) = t) ->
       (forall (k : N) (l : list T), decompress (compress k l) (len l) = Some l) ->
       (forall (k : N) (l : list T), len l <= MAX_UNCOMPRESSED_PAGE_SIZE / size -> len (compress k l) < two32) ->
       vver < two32 -> forall s : cvs T, Inv T size enc compress fmt vver s -> PagesInv T size s.
Proof. exact Inv_PagesInv. Qed.
Print Assumptions C07_pages_inv_reading.

(* lossless: the values held by the pages (ghost `view`: decoded page contents up to stored_len,
   then the pushed buffer) are exactly the reference vector's, after every history.
   PARTIAL: the last link `cv_collect s = Ok (view s mem)` (transcription of read_into_at's page
   loop, CvModel.read_pages) is not proved; it is covered differentially (collect digest after
   every step).  Full statement: *)
Definition C07_lossless_full : Prop :=
  forall T size enc dec compress decompress fmt vver,
  0 < size -> size <= MAX_UNCOMPRESSED_PAGE_SIZE ->
  (forall t : T, len (enc t) = size) -> (forall t, dec (enc t) = t) ->
  (forall k l, decompress (compress k l) (len l) = Some l) ->
  (forall k l, len l <= MAX_UNCOMPRESSED_PAGE_SIZE / size -> len (compress k l) < two32) ->
  format_code_ok fmt = true -> vver < two32 ->
  forall h s0, cv_import T size fmt vver [] [] = Ok s0 -> Forall (op_ok T) h ->
  no_panic T size enc dec compress decompress fmt vver s0 h ->
  cv_collect T size dec decompress (cv_run T size enc dec compress decompress fmt vver s0 h)
  = Ok (a_cur T (spec_run T (spec_init T) h)).

Theorem C07_lossless_partial :
  forall (T : Type) (size : N) (enc : T -> list N) (dec : list N -> T)
         (compress : N -> list T -> list cell) (decompress : list cell -> N -> option (list T))
         (fmt vver : N),
       0 < size ->
       size <= MAX_UNCOMPRESSED_PAGE_SIZE ->
       (forall t : T, len (enc t) = size) ->
       (forall t : T, dec (enc t) = t) ->
       (forall (k : N) (l : list T), decompress (compress k l) (len l) = Some l) ->
       (forall (k : N) (l : list T), len l <= MAX_UNCOMPRESSED_PAGE_SIZE / size -> len (compress k l) < two32) ->
       vver < two32 ->
       forall (h : list (op T)) (s : cvs T) (a : spec T),
       R T size enc compress fmt vver s a ->
       Forall (op_ok T) h ->
       no_panic T size enc dec compress decompress fmt vver s h ->
       R T size enc compress fmt vver (cv_run T size enc dec compress decompress fmt vver s h)
         (spec_run T a h) /\ steps_ok T size enc dec compress decompress fmt vver s h.
Proof. exact run_R. Qed.
Print Assumptions C07_lossless_partial.

(* every well-formed entry decodes to its values (the codec hypothesis enters here) *)
Theorem C07_page_decodes :
  forall (T : Type) (size : N) (enc : T -> list N) (dec : list N -> T)
         (compress : N -> list T -> list cell) (decompress : list cell -> N -> option (list T)),
       N ->
       forall vver : N,
       0 < size ->
       size <= MAX_UNCOMPRESSED_PAGE_SIZE ->
       (forall t : T, len (enc t) = size) ->
       (forall t : T, dec (enc t) = t) ->
       (forall (k : N) (l : list T), decompress (compress k l) (len l) = Some l) ->
       (forall (k : N) (l : list T), len l <= MAX_UNCOMPRESSED_PAGE_SIZE / size -> len (compress k l) < two32) ->
       vver < two32 ->
       forall e : ent T,
       ent_ok T size enc compress e ->
       decode_page T size dec decompress (e_blob T e) (e_pg T e) = Ok (e_vals T e).
Proof. exact decode_ent. Qed.
Print Assumptions C07_page_decodes.

(* the regime selection covers every (page fill, push count, truncate point) *)
Theorem C07_regime_total :
  forall (T : Type) (size : N) (enc : T -> list N) (dec : list N -> T)
         (compress : N -> list T -> list cell) (decompress : list cell -> N -> option (list T))
         (fmt vver : N),
       0 < size ->
       size <= MAX_UNCOMPRESSED_PAGE_SIZE ->
       (forall t : T, len (enc t) = size) ->
       (forall t : T, dec (enc t) = t) ->
       (forall (k : N) (l : list T), decompress (compress k l) (len l) = Some l) ->
       (forall (k : N) (l : list T), len l <= MAX_UNCOMPRESSED_PAGE_SIZE / size -> len (compress k l) < two32) ->
       vver < two32 ->
       forall s : cvs T,
       Inv T size enc compress fmt vver s ->
       let sl := s_stored_len s in
       let pl := len (s_pushed s) in
       match write_regime T size s with
       | RNoop => pl = 0 /\ sl = real_stored_len T size s
       | RFast =>
           sl mod PER_PAGE size <> 0 /\
           sl = real_stored_len T size s /\ sl mod PER_PAGE size + pl < PER_PAGE size
       | RReencode =>
           sl mod PER_PAGE size <> 0 /\
           (sl < real_stored_len T size s \/ PER_PAGE size <= sl mod PER_PAGE size + pl)
       | RFresh => sl mod PER_PAGE size = 0 /\ pl <> 0
       | RTruncOnly =>
           sl mod PER_PAGE size = 0 /\
           pl = 0 /\ (sl < real_stored_len T size s \/ pages_has_changes (s_pg s) = true)
       | RError => False
       end.
Proof. exact regime_total. Qed.
Print Assumptions C07_regime_total.

(* the executable compressor stand-in satisfies the codec hypothesis (hypotheses satisfiable) *)
Theorem C07_instance_codec :
  forall (w : nat) (k : N) (l : list (xT w)), x_decompress w (x_compress w k l) (len l) = Some l.
Proof. exact x_codec_rt. Qed.
Print Assumptions C07_instance_codec.

