(* Props/C07.v — compressed storage is lossless and its page index stays well-formed.
   Statements only; each is closed by `exact` of a lemma of Vec/CvInv.v / Vec/CvInstProofs.v.
   All theorems are about the branch-for-branch model Vec/CvModel.v of ReadWriteCompressedVec (as of the
   current /repo, including the repaired early return of write()), for every element type/width, every
   compressor satisfying the round-trip hypothesis and every list of compressed-size hints.  Panic is
   reachable only through the 1 TiB limit of a rawdb region; histories are followed while no step
   panicked (`no_panic`).  `op_ok` = every operation but the rollbacks (those are Props/C04comp.v); a
   StampedWrite is stamped_write_with_changes at ANY retention (the record is written, see C04comp). *)
From Anydb Require Import Common.Base Common.LE Gen.Consts Gen.Sizes Codec.Vecdb
  Vec.CvRegion Vec.CvPages Vec.CvModel Vec.CvInv Vec.CvInst Vec.CvInstProofs.

(* the initial import establishes the refinement relation (hence the invariant) *)
Theorem C07_init :
  forall (T : Type) (size : N) (enc : T -> list N) (compress : N -> list T -> list cell)
         (decompress : list cell -> N -> option (list T)) (fmt vver : N),
       0 < size ->
       size <= MAX_UNCOMPRESSED_PAGE_SIZE ->
       (forall (k : N) (l : list T), decompress (compress k l) (len l) = Some l) ->
       (forall (k : N) (l : list T), len l <= MAX_UNCOMPRESSED_PAGE_SIZE / size -> len (compress k l) < two32) ->
       format_code_ok fmt = true ->
       vver < two32 ->
       forall s0 : cvs T,
       cv_import T size fmt vver [] [] = Ok s0 -> R T size enc compress fmt vver s0 (spec_init T).
Proof. exact init_R. Qed.
Print Assumptions C07_init.

(* the invariant is preserved by EVERY step of EVERY history, and every step returns Ok *)
Theorem C07_pages_inv :
  forall (T : Type) (size : N) (enc : T -> list N) (dec : list N -> T)
         (compress : N -> list T -> list cell) (decompress : list cell -> N -> option (list T))
         (fmt vver : N),
       0 < size ->
       size <= MAX_UNCOMPRESSED_PAGE_SIZE ->
       (forall t : T, len (enc t) = size) ->
       (forall t : T, dec (enc t) = t) ->
       (forall (k : N) (l : list T), decompress (compress k l) (len l) = Some l) ->
       (forall (k : N) (l : list T), len l <= MAX_UNCOMPRESSED_PAGE_SIZE / size -> len (compress k l) < two32) ->
       vver < two32 ->
       forall (h : list (op T)) (s : cvs T),
       Inv T size enc compress fmt vver s ->
       Forall (op_ok T) h ->
       no_panic T size enc dec compress decompress fmt vver s h ->
       Inv T size enc compress fmt vver (cv_run T size enc dec compress decompress fmt vver s h) /\
       steps_ok T size enc dec compress decompress fmt vver s h.
Proof. exact run_Inv. Qed.
Print Assumptions C07_pages_inv.

(* the invariant implies the page-index predicate of the property text (PagesInv) *)
Theorem C07_pages_inv_reading :
  forall (T : Type) (size : N) (enc : T -> list N) (dec : list N -> T)
         (compress : N -> list T -> list cell) (decompress : list cell -> N -> option (list T))
         (fmt vver : N),
       0 < size ->
       size <= MAX_UNCOMPRESSED_PAGE_SIZE ->
       (forall t : T, len (enc t) = size) ->
       (forall t : T, dec (enc t) = t) ->
       (forall (k : N) (l : list T), decompress (compress k l) (len l) = Some l) ->
       (forall (k : N) (l : list T), len l <= MAX_UNCOMPRESSED_PAGE_SIZE / size -> len (compress k l) < two32) ->
       vver < two32 -> forall s : cvs T, Inv T size enc compress fmt vver s -> PagesInv T size s.
Proof. exact Inv_PagesInv. Qed.
Print Assumptions C07_pages_inv_reading.

(* LOSSLESS, full strength: after every history, what collect() = read_into_at(0, len) RETURNS is exactly the reference contents (bit patterns).  Other read entry points (fold/iterators, read-only clones, cursor) are C08's agreement theorem *)
Theorem C07_lossless :
  forall (T : Type) (size : N) (enc : T -> list N) (dec : list N -> T)
         (compress : N -> list T -> list cell) (decompress : list cell -> N -> option (list T))
         (fmt vver : N),
       0 < size ->
       size <= MAX_UNCOMPRESSED_PAGE_SIZE ->
       (forall t : T, len (enc t) = size) ->
       (forall t : T, dec (enc t) = t) ->
       (forall (k : N) (l : list T), decompress (compress k l) (len l) = Some l) ->
       (forall (k : N) (l : list T), len l <= MAX_UNCOMPRESSED_PAGE_SIZE / size -> len (compress k l) < two32) ->
       format_code_ok fmt = true ->
       vver < two32 ->
       forall (h : list (op T)) (s0 : cvs T),
       cv_import T size fmt vver [] [] = Ok s0 ->
       Forall (op_ok T) h ->
       no_panic T size enc dec compress decompress fmt vver s0 h ->
       cv_collect T size dec decompress (cv_run T size enc dec compress decompress fmt vver s0 h) =
       Ok (a_cur T (spec_run T (spec_init T) h)).
Proof. exact lossless. Qed.
Print Assumptions C07_lossless.

(* the read path on any well-formed state: cv_collect transcribes read_into_at + read_stored_pages_into *)
Theorem C07_read_returns_view :
  forall (T : Type) (size : N) (enc : T -> list N) (dec : list N -> T)
         (compress : N -> list T -> list cell) (decompress : list cell -> N -> option (list T))
         (fmt vver : N),
       0 < size ->
       size <= MAX_UNCOMPRESSED_PAGE_SIZE ->
       (forall t : T, len (enc t) = size) ->
       (forall t : T, dec (enc t) = t) ->
       (forall (k : N) (l : list T), decompress (compress k l) (len l) = Some l) ->
       (forall (k : N) (l : list T), len l <= MAX_UNCOMPRESSED_PAGE_SIZE / size -> len (compress k l) < two32) ->
       vver < two32 ->
       forall (s : cvs T) (hd : header) (ents mem : list (ent T)),
       InvG T size enc compress fmt vver s hd ents mem ->
       cv_collect T size dec decompress s = Ok (view T s mem).
Proof. exact collect_view. Qed.
Print Assumptions C07_read_returns_view.

(* every well-formed entry decodes to its values (the codec hypothesis enters here) *)
Theorem C07_page_decodes :
  forall (T : Type) (size : N) (enc : T -> list N) (dec : list N -> T)
         (compress : N -> list T -> list cell) (decompress : list cell -> N -> option (list T)),
       N ->
       forall vver : N,
       0 < size ->
       size <= MAX_UNCOMPRESSED_PAGE_SIZE ->
       (forall t : T, len (enc t) = size) ->
       (forall t : T, dec (enc t) = t) ->
       (forall (k : N) (l : list T), decompress (compress k l) (len l) = Some l) ->
       (forall (k : N) (l : list T), len l <= MAX_UNCOMPRESSED_PAGE_SIZE / size -> len (compress k l) < two32) ->
       vver < two32 ->
       forall e : ent T,
       ent_ok T size enc compress e ->
       decode_page T size dec decompress (e_blob T e) (e_pg T e) = Ok (e_vals T e).
Proof. exact decode_ent. Qed.
Print Assumptions C07_page_decodes.

(* the regime selection covers every (page fill, push count, truncate point) *)
Theorem C07_regime_total :
  forall (T : Type) (size : N) (enc : T -> list N) (dec : list N -> T)
         (compress : N -> list T -> list cell) (decompress : list cell -> N -> option (list T))
         (fmt vver : N),
       0 < size ->
       size <= MAX_UNCOMPRESSED_PAGE_SIZE ->
       (forall t : T, len (enc t) = size) ->
       (forall t : T, dec (enc t) = t) ->
       (forall (k : N) (l : list T), decompress (compress k l) (len l) = Some l) ->
       (forall (k : N) (l : list T), len l <= MAX_UNCOMPRESSED_PAGE_SIZE / size -> len (compress k l) < two32) ->
       vver < two32 ->
       forall s : cvs T,
       Inv T size enc compress fmt vver s ->
       let sl := s_stored_len s in
       let pl := len (s_pushed s) in
       match write_regime T size s with
       | RNoop => pl = 0 /\ sl = real_stored_len T size s
       | RFast =>
           sl mod PER_PAGE size <> 0 /\
           sl = real_stored_len T size s /\ sl mod PER_PAGE size + pl < PER_PAGE size
       | RReencode =>
           sl mod PER_PAGE size <> 0 /\
           (sl < real_stored_len T size s \/ PER_PAGE size <= sl mod PER_PAGE size + pl)
       | RFresh => sl mod PER_PAGE size = 0 /\ pl <> 0
       | RTruncOnly =>
           sl mod PER_PAGE size = 0 /\
           pl = 0 /\ (sl < real_stored_len T size s \/ pages_has_changes (s_pg s) = true)
       | RError => False
       end.
Proof. exact regime_total. Qed.
Print Assumptions C07_regime_total.

(* the executable compressor stand-in satisfies the codec hypothesis (hypotheses satisfiable) *)
Theorem C07_instance_codec :
  forall (w : nat) (k : N) (l : list (xT w)), x_decompress w (x_compress w k l) (len l) = Some l.
Proof. exact x_codec_rt. Qed.
Print Assumptions C07_instance_codec.

