(* Props/C03raw.v — raw-vector half of C03 ("every storage format behaves like one reference vector at
   every step"): BytesVec / ZeroCopyVec and EagerVec wrappers of them.  Statements only.
   Model: Vec/RvModel.v + RvRollback.v (code as of 533ea26 + the repair of write() for stored_len above the
   on-disk length); reference vector: Vec/RvSpec.v; relation and
   invariant: Vec/RvRefine.v (R = R1 of DESIGN.md B.1 pointwise + equal stamps; Inv = R2, R3, R4, R7 + what
   batch_write_each needs; R2 in the form "every stored slot is backed by the region, by the `updated` overlay, or
   is deleted" (RvRefine.Cov), which also holds after a rollback made the vector longer than the region).  ALL histories of the non-rollback operations (push, truncate, write, flush,
   reset, re-import, update, delete, take, fill, stamped writes with and without change records, faults on the
   change directory), ALL element types (tsize, enc, dec arbitrary), ALL retention settings.
   Rollback steps are C04's (Props/C04.v); reset_unsaved is outside C03's operation list. *)
From Anydb Require Import Common.Base Vec.RvBase Vec.RvModel Vec.RvRollback Vec.RvSpec Vec.RvRefine Vec.RvChain.

(* after EVERY step (the last step of every history h1 ++ [o]): equal results, view = reference contents (hence
   same length, same deleted slots), equal stamps, invariant *)
Theorem C03_refines_raw :
  forall (T : Type) (tsize : N) (enc : T -> list N) (dec : list N -> T) (k0 : N) (h1 : list op) (o : op),
  Forall plain_op (h1 ++ [o]) ->
  let s := run tsize enc dec (rv_init k0) h1 in
  let a := srun (sv_init k0) h1 in
  res_rel o (snd (step tsize enc dec s o)) (snd (sstep a o)) /\
  view tsize dec (fst (step tsize enc dec s o)) = contents (fst (sstep a o)) /\
  rlen (fst (step tsize enc dec s o)) = slen (fst (sstep a o)) /\
  stamp (fst (step tsize enc dec s o)) = sstamp (fst (sstep a o)) /\
  Inv (fst (step tsize enc dec s o)).
Proof. exact @refines_raw. Qed.
Print Assumptions C03_refines_raw.

(* the step theorem the induction rests on (usable from any state satisfying the invariant) *)
Theorem C03_step_refines :
  forall (T : Type) (tsize : N) (enc : T -> list N) (dec : list N -> T) (s : rv) (a : sv T) (o : op),
  Inv s -> R tsize dec s a -> plain_op o ->
  Inv (fst (step tsize enc dec s o)) /\
  R tsize dec (fst (step tsize enc dec s o)) (fst (sstep a o)) /\
  res_rel o (snd (step tsize enc dec s o)) (snd (sstep a o)).
Proof. exact @step_refines. Qed.
Print Assumptions C03_step_refines.

Theorem C03_reachable_invariant :
  forall (T : Type) (tsize : N) (enc : T -> list N) (dec : list N -> T) (k0 : N) (h : list op),
  Forall plain_op h -> Inv (run tsize enc dec (rv_init k0) h).
Proof. exact @reachable_Inv. Qed.
Print Assumptions C03_reachable_invariant.

(* R2 in its original form: Inv admits stored_len above the on-disk length (only a rollback of a truncating commit
   produces that state, C04); the histories of C03 never reach it: the region backs every stored slot *)
Theorem C03_reachable_not_expanded :
  forall (T : Type) (tsize : N) (enc : T -> list N) (dec : list N -> T) (k0 : N) (h : list op),
  Forall plain_op h ->
  stored_len (run tsize enc dec (rv_init k0) h) <= real_stored_len (run tsize enc dec (rv_init k0) h).
Proof. exact @reachable_not_expanded. Qed.
Print Assumptions C03_reachable_not_expanded.

(* flush + database flush + drop + import returns exactly the flushed contents and stamp *)
Theorem C03_reimport :
  forall (T : Type) (tsize : N) (enc : T -> list N) (dec : list N -> T) (s : rv),
  Inv s ->
  snd (step tsize enc dec s Reimport) = RUnit /\
  view tsize dec (fst (step tsize enc dec s Reimport)) = view tsize dec s /\
  stamp (fst (step tsize enc dec s Reimport)) = stamp s /\
  Inv (fst (step tsize enc dec s Reimport)).
Proof. exact @reimport_preserves. Qed.
Print Assumptions C03_reimport.

(* R3, no garbage: no slot of the view is read from behind the valid region length *)
Theorem C03_no_garbage :
  forall (T : Type) (tsize : N) (dec : list N -> T) (s : rv) (i : N),
  Inv s -> i < rlen s -> snd (get_any_or_read_at tsize dec s i) = 0.
Proof. exact @Inv_no_stale. Qed.
Print Assumptions C03_no_garbage.

(* write() never fails on such a state, leaves nothing buffered and preserves the view *)
Theorem C03_write_ok :
  forall (T : Type) (tsize : N), (T -> list N) -> forall (dec : list N -> T) (s : rv),
  Inv s ->
  exists (b : bool) (s' : rv),
    rv_write tsize dec s = (s', Ok b) /\ Inv s' /\ Normal s' /\ rlen s' = rlen s /\ holes s' = holes s /\
    stamp s' = stamp s /\ prevf s' = prevf s /\
    (forall i : N, i < rlen s -> view_at tsize dec s' i = view_at tsize dec s i).
Proof. exact @write_ok. Qed.
Print Assumptions C03_write_ok.
