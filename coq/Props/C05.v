(* Props/C05.v — rawdb: a crash never damages untouched flushed regions or the file layout.
   Statements only. *)
From Anydb Require Import Common.Base Gen.Consts Rawdb.AMap Rawdb.Alloc Rawdb.Crash Rawdb.CrashFacts.

(* FULL statement (target): a trace accepted by the monitor is safe at every crash point (= every
   prefix) for every choice of page versions: the recovered regions are valid, pairwise disjoint
   and inside the file, and every region untouched since the last completed flush has exactly
   its flushed metadata and bytes. *)
Definition C05_os_full : Prop :=
  forall t1 t2, snd (mon_run mon_init (t1 ++ t2)) = true ->
    let m := fst (mon_run mon_init t1) in
    forall sigma img, os_slots m sigma -> os_data m img ->
      pairwise_disjoint (recovered m sigma) /\ inside_file m (recovered m sigma)
      /\ match m_flushed m with
         | Some (fl, fmem) =>
             forall i w, assoc_get i fl = Some w -> mem_in (sr_id w) (m_touched m) = false ->
               sigma i = Some w /\ forall a, sr_start w <= a < sr_start w + sr_len w -> img a = fmem a
         | None => True
         end.

Theorem C05_every_crash_point_is_monitored :
  forall m t1 t2, snd (mon_run m (t1 ++ t2)) = true ->
    snd (mon_run m t1) = true /\ snd (mon_run (fst (mon_run m t1)) t2) = true.
Proof. exact mon_run_app. Qed.
Print Assumptions C05_every_crash_point_is_monitored.

Theorem C05_metasync_collapses_versions :
  forall m i, possible (fst (mon_step m CMetaSync)) i = [dur_of (fst (mon_step m CMetaSync)) i].
Proof. exact possible_after_metasync. Qed.
Print Assumptions C05_metasync_collapses_versions.
