(* Props/C05.v — rawdb: a crash never damages untouched flushed regions or the file layout.
   Statements only. *)
From Anydb Require Import Common.Base Gen.Consts Rawdb.AMap Rawdb.Alloc Rawdb.Crash Rawdb.CrashFacts
  Rawdb.CrashInv Rawdb.CrashSound Rawdb.CrashReopen Rawdb.CrashLibDefs Rawdb.CrashLib Rawdb.CrashExamples
  Rawdb.AllocEvents Rawdb.AllocDisciplinedAll Rawdb.AllocDisciplinedPunch.

(* FULL statement (target): a trace accepted by the monitor is safe at every crash point (= every
   prefix) for every choice of page versions: the recovered regions are valid, pairwise disjoint
   and inside the file, and every region untouched since the last completed flush has exactly
   its flushed metadata and bytes. *)
Definition C05_os_full : Prop :=
  forall t1 t2, snd (mon_run mon_init (t1 ++ t2)) = true ->
    let m := fst (mon_run mon_init t1) in
    forall sigma img, os_slots m sigma -> os_data m img ->
      pairwise_disjoint (recovered m sigma) /\ inside_file m (recovered m sigma)
      /\ match m_flushed m with
         | Some (fl, fmem) =>
             forall i w, assoc_get i fl = Some w -> mem_in (sr_id w) (m_touched m) = false ->
               sigma i = Some w /\ forall a, sr_start w <= a < sr_start w + sr_len w -> img a = fmem a
         | None => True
         end.

Theorem C05_every_crash_point_is_monitored :
  forall m t1 t2, snd (mon_run m (t1 ++ t2)) = true ->
    snd (mon_run m t1) = true /\ snd (mon_run (fst (mon_run m t1)) t2) = true.
Proof. exact mon_run_app. Qed.
Print Assumptions C05_every_crash_point_is_monitored.

Theorem C05_metasync_collapses_versions :
  forall m i, possible (fst (mon_step m CMetaSync)) i = [dur_of (fst (mon_step m CMetaSync)) i].
Proof. exact possible_after_metasync. Qed.
Print Assumptions C05_metasync_collapses_versions.

(* OS mode, layout (invariant K1/K5 of Rawdb/CrashInv.v): at every crash point of an accepted
   trace, for every choice of slot versions, the recovered regions are valid, pairwise disjoint
   and inside the data file *)
Theorem C05_os_layout :
  forall t1 t2, snd (mon_run mon_init (t1 ++ t2)) = true ->
    let m := fst (mon_run mon_init t1) in
    forall sigma, os_slots m sigma ->
      pairwise_disjoint (recovered m sigma) /\ inside_file m (recovered m sigma).
Proof. exact C05_os_layout_proof. Qed.
Print Assumptions C05_os_layout.

(* OS mode, contents: a slot that was live at the last completed flush and whose region nobody
   addressed since has exactly one possible version (the flushed one) and every possible data
   image holds the flushed bytes on its content *)
Theorem C05_os_untouched :
  forall t1 t2, snd (mon_run mon_init (t1 ++ t2)) = true ->
    let m := fst (mon_run mon_init t1) in
    forall fl fmem, m_flushed m = Some (fl, fmem) ->
    forall i w, assoc_get i fl = Some w -> mem_in (sr_id w) (m_touched m) = false ->
      possible m i = [Some w]
      /\ forall img, os_data m img -> forall a, sr_start w <= a < sr_start w + sr_len w -> img a = fmem a.
Proof. exact C05_os_untouched_proof. Qed.
Print Assumptions C05_os_untouched.

(* the FULL statement *)
Theorem C05_os : C05_os_full.
Proof. exact C05_os_proof. Qed.
Print Assumptions C05_os.

(* recovery: on every crash image of the regions file (first n slots under the version choice
   sigma) the live slots that Regions::fill keeps are pairwise disjoint, hence Layout::from
   (`gaps`) never underflows and Alloc.reopen does not panic, whatever the rest of the state *)
Theorem C05_os_reopen_no_panic :
  forall t1 t2, snd (mon_run mon_init (t1 ++ t2)) = true ->
    let m := fst (mon_run mon_init t1) in
    forall sigma, os_slots m sigma ->
    forall n, live_disjoint (fill_slots (rf_image n sigma))
              /\ forall s, rfile s = rf_image n sigma -> reopen s <> APanic.
Proof. exact C05_os_reopen_proof. Qed.
Print Assumptions C05_os_reopen_no_panic.

Theorem C05_layout_from_total :
  forall sl s0, live_disjoint sl -> exists s1, gaps sl (s2r_of sl 0 []) 0 s0 = Some s1.
Proof. exact gaps_total. Qed.
Print Assumptions C05_layout_from_total.

(* LIB mode (images: Rawdb/CrashLibDefs.v), FULL statement C05_lib_full, restated:
   tc ends with the last completed sync pair; no metadata sync completed since; the crash falls
   at point p (outside a sync / inside the data sync / inside the metadata sync) after t1.  For a
   slot whose durable content was not overwritten in place since the pair, every image holds
   (A) the metadata of the pair with the bytes of the pair, or (B) inside a metadata sync only, the
   volatile metadata with the volatile bytes at the start of that sync. *)
Theorem C05_lib :
  forall t0 t1 p,
    let tc := t0 ++ [CDataSync; CMetaSync] in
    snd (mon_run mon_init (tc ++ t1 ++ lib_next p)) = true ->
    no_metasync t1 = true ->
    let m0 := fst (mon_run mon_init tc) in
    let m := fst (mon_run mon_init (tc ++ t1)) in
    forall i sigma img, lib_slots p m sigma -> lib_data p m img ->
      not_overwritten (dur_of m0 i) t1 = true ->
      (sigma i = dur_of m0 i /\ agree_on (sigma i) img (m_vmem m0))
      \/ (p = LInMetaSync /\ sigma i = latest_of m i /\ agree_on (sigma i) img (m_vmem m)).
Proof. exact C05_lib_proof. Qed.
Print Assumptions C05_lib.

(* every LIB image is an OS image, so C05_os (layout, untouched regions) and
   C05_os_reopen_no_panic hold for LIB images too *)
Theorem C05_lib_images_are_os_images :
  forall t1 t2, snd (mon_run mon_init (t1 ++ t2)) = true ->
    let m := fst (mon_run mon_init t1) in
    forall p sigma img, lib_slots p m sigma -> lib_data p m img -> os_slots m sigma /\ os_data m img.
Proof. exact lib_image_is_os_image_proof. Qed.
Print Assumptions C05_lib_images_are_os_images.

(* the same for ANY checkpoint t0 after which no metadata sync completed (e.g. the lone metadata
   sync of a flush without dirty regions): the checkpoint pair is (durable metadata, durable
   bytes) provided no data range pending at the checkpoint hits the content either *)
Theorem C05_lib_general :
  forall t0 t1 p,
    snd (mon_run mon_init (t0 ++ t1 ++ lib_next p)) = true ->
    no_metasync t1 = true ->
    let m0 := fst (mon_run mon_init t0) in
    let m := fst (mon_run mon_init (t0 ++ t1)) in
    forall i sigma img, lib_slots p m sigma -> lib_data p m img ->
      pdata_misses (dur_of m0 i) m0 = true ->
      not_overwritten (dur_of m0 i) t1 = true ->
      (sigma i = dur_of m0 i /\ agree_on (sigma i) img (m_dmem m0))
      \/ (p = LInMetaSync /\ sigma i = latest_of m i /\ agree_on (sigma i) img (m_vmem m)).
Proof. exact C05_lib_general_proof. Qed.
Print Assumptions C05_lib_general.

(* M5: what a completed metadata sync makes durable for a rewritten slot is the volatile pair *)
Theorem C05_lib_commit_is_volatile_pair :
  forall t, snd (mon_run mon_init (t ++ [CMetaSync])) = true ->
    let m := fst (mon_run mon_init t) in
    let m' := fst (mon_run mon_init (t ++ [CMetaSync])) in
    forall i, In i (map fst (m_pend m)) ->
      dur_of m' i = latest_of m i /\ agree_on (dur_of m' i) (m_dmem m') (m_vmem m).
Proof. exact C05_lib_commit_proof. Qed.
Print Assumptions C05_lib_commit_is_volatile_pair.

Theorem C05_lib_commit_is_checkpoint :
  forall t, snd (mon_run mon_init (t ++ [CMetaSync])) = true ->
    let m := fst (mon_run mon_init t) in
    let m' := fst (mon_run mon_init (t ++ [CMetaSync])) in
    forall i, In i (map fst (m_pend m)) -> pdata_misses (dur_of m' i) m' = true.
Proof. exact C05_lib_commit_misses_proof. Qed.
Print Assumptions C05_lib_commit_is_checkpoint.

(* M3/M4: a region nobody addresses (no operation names its id, its slot is not rewritten) is
   never overwritten in place: the hypothesis `not_overwritten` of C05_lib is then automatic *)
Theorem C05_lib_unaddressed_not_overwritten :
  forall t0 t1, snd (mon_run mon_init (t0 ++ t1)) = true ->
    let m0 := fst (mon_run mon_init t0) in
    forall i w, possible m0 i = [Some w] -> mem_in (sr_id w) (m_cur m0) = false ->
      forallb (op_avoids (sr_id w)) t1 = true -> forallb (meta_avoids i) t1 = true ->
      not_overwritten (Some w) t1 = true.
Proof. exact lib_unaddressed_proof. Qed.
Print Assumptions C05_lib_unaddressed_not_overwritten.

(* non-vacuity (Rawdb/CrashExamples.v): a realistic trace is accepted and leaves untouched flushed
   regions; the behaviour before fix f53a575 is rejected *)
Theorem C05_monitor_accepts_example : snd (mon_run mon_init good_trace) = true.
Proof. exact good_trace_accepted. Qed.
Print Assumptions C05_monitor_accepts_example.

Theorem C05_monitor_rejects_prefix_behaviour :
  (exists k, mon_first_bad mon_init bad_trace 0 = Some k /\ nth_error bad_trace (N.to_nat k) = Some CFlushed)
  /\ (exists k, mon_first_bad mon_init bad_trace_data 0 = Some k
               /\ match nth_error bad_trace_data (N.to_nat k) with Some (CData 0 100 _) => True | _ => False end)
  /\ (exists k, mon_first_bad mon_init bad_trace_meta 0 = Some k
               /\ match nth_error bad_trace_meta (N.to_nat k) with Some (CMeta 1 (Some _)) => True | _ => False end).
Proof. exact (conj bad_trace_rejected_at_flush (conj bad_trace_rejected_at_data bad_trace_rejected_at_meta)). Qed.
Print Assumptions C05_monitor_rejects_prefix_behaviour.

(* ---- all histories of the allocator model (Rawdb/AllocEvents.v: the durability events each
   operation emits; engine `crash` compares them token for token with the implementation's) ---- *)

(* FULL statement (target): the monitor accepts the trace of EVERY history of crash operations
   (everything but Reopen / SetMinRegions), for every outcome of approx_has_punchable_data *)
Definition C05_model_disciplined_full : Prop :=
  forall orcs min_len ops, forallb crash_op ops = true ->
    snd (mon_run mon_init (trace_of_o orcs min_len ops)) = true.

(* the step lemma (monitor accepts the events of one operation and the coupling invariant between
   allocator state and monitor state is re-established) is proved for every crash operation in
   every outcome: `covered_run` holds for every history of crash operations
   (Rawdb/AllocDisciplinedAll.v, covered_of_crash_ops); the _partial forms are kept *)
Theorem C05_model_disciplined_partial :
  forall orcs min_len ops, covered_run (init min_len) ops ->
    snd (mon_run mon_init (trace_of_o orcs min_len ops)) = true.
Proof. exact C05_model_disciplined_partial_proof. Qed.
Print Assumptions C05_model_disciplined_partial.

(* with C05_os: every crash point of such a history, every choice of page versions *)
Theorem C05_all_histories_partial :
  forall orcs min_len ops, covered_run (init min_len) ops ->
  forall t1 t2, trace_of_o orcs min_len ops = t1 ++ t2 ->
    let m := fst (mon_run mon_init t1) in
    forall sigma img, os_slots m sigma -> os_data m img ->
      pairwise_disjoint (recovered m sigma) /\ inside_file m (recovered m sigma)
      /\ match m_flushed m with
         | Some (fl, fmem) =>
             forall i w, assoc_get i fl = Some w -> mem_in (sr_id w) (m_touched m) = false ->
               sigma i = Some w /\ forall a, sr_start w <= a < sr_start w + sr_len w -> img a = fmem a
         | None => True
         end.
Proof. exact C05_all_histories_partial_proof. Qed.
Print Assumptions C05_all_histories_partial.

Theorem C05_model_disciplined_example : covered_run (init 0) ex_history.
Proof. exact ex_history_covered. Qed.
Print Assumptions C05_model_disciplined_example.

(* the FULL statements *)
Theorem C05_model_disciplined : C05_model_disciplined_full.
Proof. exact C05_model_disciplined_proof. Qed.
Print Assumptions C05_model_disciplined.

(* every history of the model, every crash point, every choice of page versions *)
Theorem C05_all_histories :
  forall orcs min_len ops, forallb crash_op ops = true ->
  forall t1 t2, trace_of_o orcs min_len ops = t1 ++ t2 ->
    let m := fst (mon_run mon_init t1) in
    forall sigma img, os_slots m sigma -> os_data m img ->
      pairwise_disjoint (recovered m sigma) /\ inside_file m (recovered m sigma)
      /\ match m_flushed m with
         | Some (fl, fmem) =>
             forall i w, assoc_get i fl = Some w -> mem_in (sr_id w) (m_touched m) = false ->
               sigma i = Some w /\ forall a, sr_start w <= a < sr_start w + sr_len w -> img a = fmem a
         | None => True
         end.
Proof. exact C05_all_histories_proof. Qed.
Print Assumptions C05_all_histories.

Theorem C05_model_disciplined_example_crash_ops : forallb crash_op ex_history = true.
Proof. exact ex_history_crash_ops. Qed.
Print Assumptions C05_model_disciplined_example_crash_ops.

(* LIB mode on every history of the model: the trace is cut as tc ++ t1 ++ lib_next p ++ rest (tc
   ends with the last completed sync pair, no metadata sync in t1, the crash falls at point p);
   the "never a mixture" clause of C05_lib holds with no hypothesis about the monitor *)
Theorem C05_all_histories_lib :
  forall orcs min_len ops, forallb crash_op ops = true ->
  forall t0 t1 p rest,
    let tc := t0 ++ [CDataSync; CMetaSync] in
    trace_of_o orcs min_len ops = tc ++ t1 ++ lib_next p ++ rest ->
    no_metasync t1 = true ->
    let m0 := fst (mon_run mon_init tc) in
    let m := fst (mon_run mon_init (tc ++ t1)) in
    forall i sigma img, lib_slots p m sigma -> lib_data p m img ->
      not_overwritten (dur_of m0 i) t1 = true ->
      (sigma i = dur_of m0 i /\ agree_on (sigma i) img (m_vmem m0))
      \/ (p = LInMetaSync /\ sigma i = latest_of m i /\ agree_on (sigma i) img (m_vmem m)).
Proof. exact C05_all_histories_lib_proof. Qed.
Print Assumptions C05_all_histories_lib.

(* the same for any checkpoint t0 of the history after which no metadata sync completed *)
Theorem C05_all_histories_lib_general :
  forall orcs min_len ops, forallb crash_op ops = true ->
  forall t0 t1 p rest, trace_of_o orcs min_len ops = t0 ++ t1 ++ lib_next p ++ rest ->
    no_metasync t1 = true ->
    let m0 := fst (mon_run mon_init t0) in
    let m := fst (mon_run mon_init (t0 ++ t1)) in
    forall i sigma img, lib_slots p m sigma -> lib_data p m img ->
      pdata_misses (dur_of m0 i) m0 = true ->
      not_overwritten (dur_of m0 i) t1 = true ->
      (sigma i = dur_of m0 i /\ agree_on (sigma i) img (m_dmem m0))
      \/ (p = LInMetaSync /\ sigma i = latest_of m i /\ agree_on (sigma i) img (m_vmem m)).
Proof. exact C05_all_histories_lib_general_proof. Qed.
Print Assumptions C05_all_histories_lib_general.
