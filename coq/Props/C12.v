(* Props/C12.v — rawdb: compaction only ever discards bytes nobody can reach (sequential part).
   Statements only. *)
From Anydb Require Import Common.Base Gen.Consts Rawdb.AMap Rawdb.Alloc Rawdb.AllocSpec Rawdb.AllocInv Rawdb.AllocFacts.
From Anydb Require Import Rawdb.CompactFacts Rawdb.InvStep Rawdb.InvFinal.

(* compaction leaves the reference state (every region's length, bytes, persistence; handles)
   unchanged *)
Theorem C12_compact_abs : forall s, Inv s -> spec_eq (abs (fst (compact s))) (abs s).
Proof. exact compact_abs. Qed.
Print Assumptions C12_compact_abs.

(* placements and the file length are untouched by compact (no invariant needed) *)
Theorem C12_compact_placements : forall s i,
  (match slot s i, slot (fst (compact s)) i with
   | Some m, Some m' => r_start m' = r_start m /\ r_len m' = r_len m /\ r_reserved m' = r_reserved m /\ r_id m' = r_id m
   | None, None => True
   | _, _ => False
   end) /\ file_len (fst (compact s)) = file_len s.
Proof. exact compact_placements. Qed.
Print Assumptions C12_compact_placements.

(* every range handed to fallocate(PUNCH_HOLE) after the flush misses the data of every live
   region, and lies inside a hole or inside the unused tail [ceil_page len, reserved) of a region *)
Theorem C12_punch_disjoint : forall s, Inv s -> forall r, In r (punch_ranges (fst (flush s))) ->
  (forall i m, slot (fst (flush s)) i = Some m -> fst r + snd r <= r_start m \/ r_start m + r_len m <= fst r) /\
  ((exists a z, aget a (holes (fst (flush s))) = Some z /\ r = (a, z)) \/
   (exists i m, slot (fst (flush s)) i = Some m /\ r_start m + ceil_page (r_len m) <= fst r /\
                fst r + snd r <= r_start m + r_reserved m)).
Proof. exact punch_disjoint_flush. Qed.
Print Assumptions C12_punch_disjoint.

(* bytes of live data survive compaction; every other byte keeps its value or becomes zero *)
Theorem C12_compact_mem_cases : forall s a, mem (fst (compact s)) a = mem s a \/ mem (fst (compact s)) a = 0.
Proof. exact compact_mem_cases. Qed.
Print Assumptions C12_compact_mem_cases.

(* satisfiable: the example state of C02 went through Compact *)
Theorem C12_example : Inv ex_state.
Proof. exact ex_state_inv. Qed.
Print Assumptions C12_example.
