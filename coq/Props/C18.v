(* Props/C18.v — rawdb: at most one open Database per directory.
   Statements only: each is closed by `exact` of a lemma proved in Rawdb/OpenLockProofs.v.
   Level: proof on the step model (Rawdb/OpenLock.v, step order generated into Gen/OpenOrder.v);
   PARTIAL in this sense: the kernel's flock semantics are the assumed oracle — every theorem
   carries the premise `flock_rule tl` and is proved for every oracle `tl` satisfying it. *)
From Anydb Require Import Common.Base Gen.Consts Gen.OpenOrder Rawdb.OpenLock Rawdb.OpenLockProofs Rawdb.DropRace.

(* at most one DatabaseInner (live, or still closing its Files) per directory in every reachable
   state, for all histories of any number of openers *)
Theorem C18_exclusive :
  forall tl, flock_rule tl -> forall x h, unlocked x ->
  (length (insts (run tl (init x) h)) + length (closing (run tl (init x) h)) <= 1)%nat.
Proof. exact exclusive_thm. Qed.
Print Assumptions C18_exclusive.

(* while a holder is alive every open, for ALL min_len, is Err(TryLock) (refused at the data lock)
   and the complete file state — existence, lengths, contents, lock holders — is unchanged *)
Theorem C18_refused_no_effect :
  forall tl, flock_rule tl -> forall x h m, unlocked x ->
  holder_alive (run tl (init x) h) ->
  step tl (run tl (init x) h) (Open m) =
    (mkSt (files (run tl (init x) h)) (insts (run tl (init x) h)) (closing (run tl (init x) h)) (next (run tl (init x) h) + 1),
     O_open_err (next (run tl (init x) h)) FData
       (f_len (data (files (run tl (init x) h)))) (f_len (regs (files (run tl (init x) h))))).
Proof. exact refused_no_effect_thm. Qed.
Print Assumptions C18_refused_no_effect.

(* no reachable state lets an opener pass the data lock and fail the regions lock *)
Theorem C18_no_half_open :
  forall tl, flock_rule tl -> forall x h m, unlocked x ->
  match snd (open_files tl (Opener (next (run tl (init x) h))) m (files (run tl (init x) h))) with
  | RefusedAt FRegions => False
  | RefusedAt FData =>
      holder_alive (run tl (init x) h) /\
      fst (open_files tl (Opener (next (run tl (init x) h))) m (files (run tl (init x) h))) = files (run tl (init x) h)
  | Opened => ~ holder_alive (run tl (init x) h)
  end.
Proof. exact no_half_open_thm. Qed.
Print Assumptions C18_no_half_open.

(* what the code does IF the data lock is obtained and the regions lock is refused (any file
   state, e.g. a foreign process locking `regions` only): the growth to min_len is already applied
   and stays, the call returns Err(TryLock) *)
Theorem C18_half_open_would_grow_data :
  forall tl me m x,
  tl (f_lock (data x)) me = true -> tl (f_lock (regs x)) me = false -> f_len (data x) < m ->
  snd (open_files tl me m x) = RefusedAt FRegions /\
  f_len (data (fst (open_files tl me m x))) = m /\ f_len (data (fst (open_files tl me m x))) <> f_len (data x).
Proof. exact half_open_would_grow_data. Qed.
Print Assumptions C18_half_open_would_grow_data.

(* once every handle / reader / background task is gone and the Files are closed, an open succeeds
   and sees exactly the last flushed content *)
Theorem C18_after_release :
  forall tl, flock_rule tl -> forall x h k c h2 m, unlocked x ->
  (exists i, find_inst k (insts (run tl (init x) h)) = Some i /\ 0 < i_handles i) ->
  Forall not_flush h2 ->
  ~ holder_alive (run tl (init x) (h ++ Flush k c :: h2)) ->
  snd (step tl (run tl (init x) (h ++ Flush k c :: h2)) (Open m)) =
    O_open_ok (next (run tl (init x) (h ++ Flush k c :: h2)))
      (grown (f_len (data (files (run tl (init x) (h ++ Flush k c :: h2))))) m)
      (f_len (regs (files (run tl (init x) (h ++ Flush k c :: h2))))) (Some c) /\
  insts (fst (step tl (run tl (init x) (h ++ Flush k c :: h2)) (Open m))) =
    [mkInst (next (run tl (init x) (h ++ Flush k c :: h2))) 1 0 0 false].
Proof. exact after_release_thm. Qed.
Print Assumptions C18_after_release.

Theorem C18_open_when_free :
  forall tl, flock_rule tl -> forall x h m, unlocked x ->
  ~ holder_alive (run tl (init x) h) ->
  snd (step tl (run tl (init x) h) (Open m)) =
    O_open_ok (next (run tl (init x) h)) (grown (f_len (data (files (run tl (init x) h)))) m)
      (f_len (regs (files (run tl (init x) h)))) (f_content (data (files (run tl (init x) h)))) /\
  insts (fst (step tl (run tl (init x) h) (Open m))) = [mkInst (next (run tl (init x) h)) 1 0 0 false].
Proof. exact open_when_free_thm. Qed.
Print Assumptions C18_open_when_free.

(* the premise is satisfiable: the executable oracle used by the extracted model obeys the rule *)
Theorem C18_flock_rule_satisfiable : flock_rule flock_impl.
Proof. exact flock_rule_satisfiable. Qed.
Print Assumptions C18_flock_rule_satisfiable.

(* ---- background tasks and the non-atomic `strong_count == 1` test of Drop for Database ----
   The theorems above treat one Drop::drop (read strong_count, join if 1, decrement) as one step.
   Rawdb/DropRace.v splits it.  FULL statement: a running background task keeps the locks held. *)
Definition C18_bg_extends_lifetime_full : Prop :=
  forall handles bg h, 0 < handles ->
  0 < d_bg (drun (dinit handles bg) h) -> d_locked (drun (dinit handles bg) h) = true.

(* REFUTED by the faithful model: two handles dropped concurrently both read strong_count == 2,
   nobody joins, the count reaches 0 and the Files are closed while the task still runs
   (witness READ READ DEC DEC; found on the real code by the `race` probe of engine openlock,
   V key racing-drops-release-lock-while-bg-task-alive) *)
Theorem C18_bg_extends_lifetime_refuted :
  exists handles bg h, 0 < handles /\ 0 < d_bg (drun (dinit handles bg) h) /\ d_locked (drun (dinit handles bg) h) = false.
Proof. exact bg_extends_lifetime_refuted. Qed.
Print Assumptions C18_bg_extends_lifetime_refuted.

(* PARTIAL: proved for histories in which every drop is atomic (its READ immediately followed by
   its DEC).  Missing for the full statement: concurrent drops of the last two handles. *)
Theorem C18_bg_extends_lifetime_partial :
  forall handles bg h, 0 < handles ->
  0 < d_bg (arun (dinit handles bg) h) -> d_locked (arun (dinit handles bg) h) = true.
Proof. exact bg_extends_lifetime_atomic. Qed.
Print Assumptions C18_bg_extends_lifetime_partial.
