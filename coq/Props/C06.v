(* Props/C06.v — incrementally maintained computed columns equal a from-scratch run.
   Statements only: each is closed by `exact` of a lemma proved in Eager/*Proofs.v. *)
From Anydb Require Import Common.Base Eager.EDriver Eager.EDriverProofs Eager.EFamilies Eager.EFamiliesProofs
  Eager.EDequeProofs Eager.ERollingProofs Eager.EGroupsProofs.

(* The generic theorem, raw and compressed storage formats.  For every method with resume_ok and
   causal, every history of compute calls on arbitrary successive sources (appends, truncations +
   regrowth: each call's max_from is at most the first index at which the sources differ from those
   of the previous call), redundant calls, any batch cap >= 1 per call, write(), flush + re-import
   and own-version changes: after a call that returned Ok the stored result is the from-scratch
   result over that call's sources and is as long as the shortest governing source. *)
Theorem C06_driver :
  forall (Src St Out : Type) (m : method Src St Out) (agree : nat -> Src -> Src -> Prop),
  resume_ok m -> causal m agree ->
  forall compressed h own, valid m agree compressed (new_vec own, None) h ->
  match snd (run_hist m compressed h (new_vec own, None)) with
  | Some (src, Ok _) =>
      scratch m src = Ok (contents (fst (run_hist m compressed h (new_vec own, None)))) /\
      length (contents (fst (run_hist m compressed h (new_vec own, None)))) = target m src
  | _ => True
  end.
Proof. exact @C06_driver_all. Qed.
Print Assumptions C06_driver.

(* the same for methods with a documented precondition D on their sources *)
Theorem C06_driver_dom :
  forall (Src St Out : Type) (m : method Src St Out) (agree : nat -> Src -> Src -> Prop) (D : Src -> Prop),
  resume_ok_on m D -> causal_on m agree D ->
  forall compressed h own, valid m agree compressed (new_vec own, None) h -> in_dom D h ->
  C06_conclusion m (run_hist m compressed h (new_vec own, None)).
Proof. exact @C06_driver_on. Qed.
Print Assumptions C06_driver_dom.

(* independence of the batch split: two histories ending in a successful call on the same sources *)
Theorem C06_batch_split :
  forall (Src St Out : Type) (m : method Src St Out) (agree : nat -> Src -> Src -> Prop),
  resume_ok m -> causal m agree ->
  forall compressed h1 h2 own src,
  valid m agree compressed (new_vec own, None) h1 -> valid m agree compressed (new_vec own, None) h2 ->
  snd (run_hist m compressed h1 (new_vec own, None)) = Some (src, Ok tt) ->
  snd (run_hist m compressed h2 (new_vec own, None)) = Some (src, Ok tt) ->
  contents (fst (run_hist m compressed h1 (new_vec own, None))) =
  contents (fst (run_hist m compressed h2 (new_vec own, None))).
Proof. exact @C06_batch_split_all. Qed.
Print Assumptions C06_batch_split.

(* Families whose resume_ok and causality are closed, each with its instance of the generic theorem
   (both formats); the list is EFamiliesProofs.closed. *)
Theorem C06_closed_families : C06_closed_statement.
Proof. exact C06_closed_methods. Qed.
Print Assumptions C06_closed_families.

(* compute_lookback under its documented precondition (window starts never point forward) *)
Theorem C06_lookback :
  resume_ok_on m_lookback starts_ok /\ causal_on m_lookback agree_srcs starts_ok /\
  forall compressed h own, valid m_lookback agree_srcs compressed (new_vec own, None) h -> in_dom starts_ok h ->
    C06_conclusion m_lookback (run_hist m_lookback compressed h (new_vec own, None)).
Proof. exact lookback_closed. Qed.
Print Assumptions C06_lookback.

(* F4 compute_sum (leaving cursor carried across the batches of a call), all windows incl. 0 *)
Theorem C06_sum :
  resume_ok m_sum /\ causal m_sum agree_srcs /\
  forall compressed h own, valid m_sum agree_srcs compressed (new_vec own, None) h ->
    C06_conclusion m_sum (run_hist m_sum compressed h (new_vec own, None)).
Proof. exact sum_closed. Qed.
Print Assumptions C06_sum.

(* F5 compute_max / compute_min: the deque rebuilt over [skip - window, skip) equals the running
   deque; window >= 1 (window 0 behaves like window 1 but rebuilds an empty deque: validated
   differentially only) *)
Theorem C06_max : monotonic_statement (fun v value => v <? value).
Proof. exact max_closed. Qed.
Print Assumptions C06_max.
Theorem C06_min : monotonic_statement (fun v value => value <? v).
Proof. exact min_closed. Qed.
Print Assumptions C06_min.

(* F6 variable windows, under the documented precondition starts_mono (window starts
   non-decreasing and never pointing forward) *)
Theorem C06_rolling_sum :
  resume_ok_on m_rolling_sum starts_mono /\ causal_on m_rolling_sum agree_srcs starts_mono /\
  forall compressed h own, valid m_rolling_sum agree_srcs compressed (new_vec own, None) h -> in_dom starts_mono h ->
    C06_conclusion m_rolling_sum (run_hist m_rolling_sum compressed h (new_vec own, None)).
Proof. exact rolling_sum_closed. Qed.
Print Assumptions C06_rolling_sum.
Theorem C06_rolling_max_from_starts : monotonic_fs_statement (fun back new => back <=? new).
Proof. exact rolling_max_fs_closed. Qed.
Print Assumptions C06_rolling_max_from_starts.
Theorem C06_rolling_min_from_starts : monotonic_fs_statement (fun back new => new <=? back).
Proof. exact rolling_min_fs_closed. Qed.
Print Assumptions C06_rolling_min_from_starts.

(* F7 index-group aggregates; "sources agree below d" = their from-scratch outputs agree below d *)
Theorem C06_count_from_indexes : f7_statement m_count_fi (fun _ => True).
Proof. exact count_fi_closed. Qed.
Print Assumptions C06_count_from_indexes.
Theorem C06_filtered_count_from_indexes : f7_statement m_fcount_fi (fun _ => True).
Proof. exact fcount_fi_closed. Qed.
Print Assumptions C06_filtered_count_from_indexes.
Theorem C06_indirect_sequential : f7_statement m_indirect (fun _ => True).
Proof. exact indirect_closed. Qed.
Print Assumptions C06_indirect_sequential.
Theorem C06_sum_from_indexes : f7_statement m_sum_fi groups_ok.
Proof. exact sum_fi_closed. Qed.
Print Assumptions C06_sum_from_indexes.
Theorem C06_filtered_sum_from_indexes : f7_statement m_fsum_fi groups_ok.
Proof. exact fsum_fi_closed. Qed.
Print Assumptions C06_filtered_sum_from_indexes.

(* compute_first_per_index (own resume logic, not compute_init): both clauses of the property are
   refuted by the faithful model (and reproduced on the real code): the batch split can make the
   call loop forever, and truncation + regrowth into a higher group leaves entries of vanished groups *)
Theorem C06_first_per_index_batch_limit_refuted :
  snd (fpi_call false fpi_other1 1 0 1 (new_vec 0)) = Err OutOfFuel /\
  snd (fpi_call false fpi_other1 1 0 100 (new_vec 0)) = Ok tt.
Proof. exact fpi_batch_limit_refuted. Qed.
Print Assumptions C06_first_per_index_batch_limit_refuted.
Theorem C06_first_per_index_regrowth_refuted :
  let v1 := fst (fpi_call false [0; 1; 2] 1 0 100 (new_vec 0)) in
  let v2 := fst (fpi_call false [0; 3] 1 1 100 v1) in
  contents v1 = [0; 1; 2] /\ contents v2 = [0; 1; 2; 1] /\ fpi_scratch [0; 3] = [0; 1; 1; 1].
Proof. exact fpi_regrowth_refuted. Qed.
Print Assumptions C06_first_per_index_regrowth_refuted.

(* compute_all_time_low_(exclude_default = true) — KNOWN FINDING c06-atl_ex-differs-from-scratch.
   Full statement: C06_driver's conclusion for m_atl_ex on all valid histories.  It is refuted
   (resume_ok cannot hold; concrete history below).  KnownClass h := some call of h is made on a
   source that contains a default (zero) value, i.e. ~ in_dom nozero h; outside it the property holds. *)
Definition C06_atl_exclude_default_full : Prop :=
  forall compressed h own, valid m_atl_ex agree_srcs compressed (new_vec own, None) h ->
    C06_conclusion m_atl_ex (run_hist m_atl_ex compressed h (new_vec own, None)).

Theorem C06_atl_exclude_default_resume_refuted : ~ resume_ok m_atl_ex.
Proof. exact atl_ex_resume_refuted. Qed.
Print Assumptions C06_atl_exclude_default_resume_refuted.

Theorem C06_atl_exclude_default_refuted :
  exists h, valid m_atl_ex agree_srcs false (new_vec 0, None) h /\
    let s := run_hist m_atl_ex false h (new_vec 0, None) in
    snd s = Some (atl_src, Ok tt) /\ contents (fst s) = [5; 0; 0] /\ scratch m_atl_ex atl_src = Ok [5; 0; 3].
Proof. exact atl_ex_refuted. Qed.
Print Assumptions C06_atl_exclude_default_refuted.

Theorem C06_atl_exclude_default_outside_known_class :
  forall compressed h own, valid m_atl_ex agree_srcs compressed (new_vec own, None) h -> in_dom nozero h ->
    C06_conclusion m_atl_ex (run_hist m_atl_ex compressed h (new_vec own, None)).
Proof. exact atl_ex_outside_known_class. Qed.
Print Assumptions C06_atl_exclude_default_outside_known_class.
