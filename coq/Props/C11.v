(* Props/C11.v — no interleaving of library calls from different threads can deadlock.
   Statements only: each is closed by `exact` of a lemma proved in Conc/, followed by Print
   Assumptions.  P (the lock programs of the public operations, recorded through the lock tap)
   and rank come from Gen/LockSeqs.v, regenerated on every run; that P is COMPLETE is validated
   (tap coverage), not proved. *)
From Coq Require Import List.
From Anydb Require Import Conc.RwLock Conc.RwLockProofs Gen.LockSeqs Conc.LockInstance.

(* the theory: rank-monotone programs never deadlock — any number of threads, any mix of
   programs from P, any schedule; writer-preferring RW locks, FIFO writer queue (parking_lot) *)
Theorem C11_rank_theorem :
  forall (rank : nat -> nat) (B : nat), (forall c, rank c < B) ->
  forall P : list prog, (forall p, In p P -> rank_monotone rank p) ->
  forall progs, incl progs P ->
  forall st, freach (fstart progs) st -> unfinished (fst st) -> exists st', fstep st st'.
Proof. exact RankTheoremFifo. Qed.
Print Assumptions C11_rank_theorem.

(* the same with an unordered writer queue (any registered writer may take a free lock) *)
Theorem C11_rank_theorem_unordered :
  forall (rank : nat -> nat) (B : nat), (forall c, rank c < B) ->
  forall P : list prog, (forall p, In p P -> rank_monotone rank p) ->
  forall progs, incl progs P ->
  forall s, reach (start progs) s -> unfinished s -> exists s', step s s'.
Proof. exact RankTheorem. Qed.
Print Assumptions C11_rank_theorem_unordered.

Theorem C11_rank_monotone_b_sound :
  forall rank p, rank_monotone_b rank p = true -> rank_monotone rank p.
Proof. exact rank_monotone_b_sound. Qed.
Print Assumptions C11_rank_monotone_b_sound.

(* a FIFO-deadlocked reachable state is deadlocked with the unordered queue too *)
Theorem C11_fifo_transfer :
  forall progs st, freach (fstart progs) st -> fdeadlocked st -> deadlocked (fst st).
Proof. exact fifo_dead_unordered_dead. Qed.
Print Assumptions C11_fifo_transfer.

(* the instance: the full statement … *)
Definition C11_full : Prop :=
  forall progs, incl progs P ->
  forall st, freach (fstart progs) st -> unfinished (fst st) -> exists st', fstep st st'.

(* … is refuted on the current tree by reachable deadlocked states of the model, each replayed
   on real threads by engine `locks`: compressed write() takes rawdb locks under the pages lock
   (b: reader + writer + a file growth; c: IO reader + writer + Region::rename; d: reader + writer
   whose page-index write grows the file — two threads) … *)
Theorem C11_full_refuted : ~ C11_full.
Proof. exact C11_full_refuted_thm. Qed.
Print Assumptions C11_full_refuted.

Theorem C11_known_b_refuted :
  exists progs, incl progs P /\ existsb K_rawdb_under_pages progs = true /\
  exists st, freach (fstart progs) st /\ fdeadlocked st.
Proof. exact C11_known_refuted_b_thm. Qed.
Print Assumptions C11_known_b_refuted.

Theorem C11_known_c_refuted :
  exists progs, incl progs P /\ existsb K_rawdb_under_pages progs = true /\
  exists st, freach (fstart progs) st /\ fdeadlocked st.
Proof. exact C11_known_refuted_c_thm. Qed.
Print Assumptions C11_known_c_refuted.

Theorem C11_known_d_refuted :
  exists progs, incl progs P /\ existsb K_rawdb_under_pages progs = true /\ length progs = 2 /\
  exists st, freach (fstart progs) st /\ fdeadlocked st.
Proof. exact C11_known_refuted_d_thm. Qed.
Print Assumptions C11_known_d_refuted.

(* … and what holds: all programs outside the known class, any number of threads, any
   schedule.  Missing for the full statement: the programs of the known class
   (rawdb locks acquired under pages). *)
Theorem C11_partial :
  forall progs, (forall p, In p progs -> In p P /\ KnownClass_b p = false) ->
  forall st, freach (fstart progs) st -> unfinished (fst st) -> exists st', fstep st st'.
Proof. exact C11_partial_thm. Qed.
Print Assumptions C11_partial.
