(* Props/C17.v — on-disk codecs round-trip every valid value and reject garbage without
   panicking.  This file holds statements only: each is closed by `exact` of a lemma proved
   elsewhere, followed by Print Assumptions. *)
From Anydb Require Import Common.Base Common.LE Codec.Utf8 Gen.Consts Gen.Sizes
  Codec.Meta Codec.MetaProofs Codec.Vecdb Codec.VecdbProofs.

(* region metadata entries *)
Theorem C17_meta_roundtrip :
  forall m, valid_new m = true -> meta_from_bytes (meta_to_bytes m) = Ok m.
Proof. exact meta_roundtrip. Qed.
Print Assumptions C17_meta_roundtrip.

Theorem C17_meta_total :
  forall bs, match meta_from_bytes bs with
             | Ok m => valid_dec m = true | Err _ => True | Panic => False end.
Proof. exact meta_total. Qed.
Print Assumptions C17_meta_total.

Theorem C17_meta_alloc : forall bs, meta_alloc bs <= len bs.
Proof. exact meta_alloc_bounded. Qed.
Print Assumptions C17_meta_alloc.

Theorem C17_fill_frame :
  forall bs bs' i, len bs = len bs' -> slot_of bs i = slot_of bs' i -> fill_get bs i = fill_get bs' i.
Proof. exact fill_frame. Qed.
Print Assumptions C17_fill_frame.

Theorem C17_fill_skips_invalid :
  forall bs i, i < len bs / SIZE_OF_REGION_METADATA -> len bs mod SIZE_OF_REGION_METADATA = 0 ->
  fill_get bs i = match meta_from_bytes (slot_of bs i) with Ok m => Some m | _ => None end.
Proof. exact fill_skips_invalid. Qed.
Print Assumptions C17_fill_skips_invalid.

(* vector headers *)
Theorem C17_header_roundtrip :
  forall h, valid_header h = true -> header_from_bytes (header_to_bytes h) = Ok h.
Proof. exact header_roundtrip. Qed.
Print Assumptions C17_header_roundtrip.

Theorem C17_header_total :
  forall bs, match header_from_bytes bs with
             | Ok h => bytes_ok bs = true -> valid_header h = true | Err _ => True | Panic => False end.
Proof. exact header_total. Qed.
Print Assumptions C17_header_total.

Theorem C17_format_roundtrip :
  forall c, format_code_ok c = true -> format_from_bytes (format_to_bytes c) = Ok c.
Proof. exact format_roundtrip. Qed.
Print Assumptions C17_format_roundtrip.

Theorem C17_format_total :
  forall bs, match format_from_bytes bs with
             | Ok c => format_code_ok c = true | Err _ => True | Panic => False end.
Proof. exact format_total. Qed.
Print Assumptions C17_format_total.

(* page-index entries *)
Theorem C17_page_roundtrip :
  forall p, valid_page p = true -> page_from_bytes (page_to_bytes p) = Ok p.
Proof. exact page_roundtrip. Qed.
Print Assumptions C17_page_roundtrip.

Theorem C17_page_total :
  forall bs, match page_from_bytes bs with
             | Ok p => bytes_ok bs = true -> valid_page p = true | Err e => e = WrongLength | Panic => False end.
Proof. exact page_total. Qed.
Print Assumptions C17_page_total.

(* value encodings: every numeric width (as bit patterns) and byte arrays *)
Theorem C17_num_roundtrip :
  forall w v, v < 256 ^ N.of_nat w -> num_from_bytes w (num_to_bytes w v) = Ok v.
Proof. exact num_roundtrip. Qed.
Print Assumptions C17_num_roundtrip.

Theorem C17_num_total :
  forall w bs, match num_from_bytes w bs with
               | Ok v => v < 256 ^ N.of_nat w \/ bytes_ok bs = false
               | Err e => e = WrongLength /\ len bs <> N.of_nat w
               | Panic => False end.
Proof. exact num_total. Qed.
Print Assumptions C17_num_total.

Theorem C17_num_decode_encode :
  forall w bs v, bytes_ok bs = true -> num_from_bytes w bs = Ok v -> num_to_bytes w v = bs.
Proof. exact num_decode_encode. Qed.
Print Assumptions C17_num_decode_encode.

Theorem C17_arr_roundtrip :
  forall n a, len a = N.of_nat n -> arr_from_bytes n (arr_to_bytes a) = Ok a.
Proof. exact arr_roundtrip. Qed.
Print Assumptions C17_arr_roundtrip.

Theorem C17_arr_total :
  forall n bs, match arr_from_bytes n bs with
               | Ok a => a = bs /\ len a = N.of_nat n | Err e => e = WrongLength | Panic => False end.
Proof. exact arr_total. Qed.
Print Assumptions C17_arr_total.
