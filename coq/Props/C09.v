(* Props/C09.v — vecdb: a concurrent reader never sees a length whose elements are not there yet.
   Statements only; every theorem is closed by `exact` of a lemma of Conc/SvProofs.v about the step
   models of Conc/SvSteps.v (one appending writer at pause-point granularity, any number of readers).
   Level: proof on the step model; partial: hardware/compiler reorderings within a step and the
   kernel's mmap coherence are assumed, not exhibited. *)
From Anydb Require Import Common.Base Gen.Consts Gen.Sizes Conc.SvSteps Conc.SvProofs.

(* raw format: full property — every completed read returned the value pushed at that index, lengths seen by
   one reader never decrease, no read panics, and write() never fails; any number of readers, any batch
   sizes, any number of write() calls, any fresh answers of the allocator, any number of interleaved writes of the
   same thread to other regions placed in fresh extents (LWOther) *)
Theorem C09_raw_prefix :
  SHARED_LEN_LOAD_ACQUIRE = true -> SHARED_LEN_STORE_RELEASE = true ->
  forall st0 rv fl s, rs_init_ok st0 rv fl -> rs_reach (rs_init st0 rv fl) s ->
  c09_good (rs_hist s) (rs_log s) /\ rs_w s <> WFailed.
Proof. exact raw_prefix. Qed.
Print Assumptions C09_raw_prefix.

(* frame: the writer thread may write to OTHER vectors of the database between two write() calls of this one
   (steps LWOther / KOther, part of rs_reach / cs_reach above); a placement that passes the freshness guard
   changes no byte of this vector's current extent nor of any extent it vacated, and nothing but the memory map *)
Theorem C09_raw_other_write_frame :
  forall s ns nr s', rs_step s (LWOther ns nr) = Some s' ->
  (forall a, own_bytes s a -> rs_mem s' a = rs_mem s a) /\
  rs_reg s' = rs_reg s /\ rs_retired s' = rs_retired s /\ rs_slen s' = rs_slen s /\ rs_hist s' = rs_hist s /\
  rs_log s' = rs_log s /\ rs_flen s' = rs_flen s /\ (forall r, rs_rd s' r = rs_rd s r).
Proof. exact other_write_frame. Qed.
Print Assumptions C09_raw_other_write_frame.

Theorem C09_comp_other_write_frame :
  forall s ns nr s', cs_step s (KOther ns nr) = Some s' ->
  (forall a, cs_own_bytes s a -> cs_mem s' a = cs_mem s a) /\
  cs_reg s' = cs_reg s /\ cs_retired s' = cs_retired s /\ cs_slen s' = cs_slen s /\ cs_hist s' = cs_hist s /\
  cs_pages s' = cs_pages s /\ cs_blobs s' = cs_blobs s /\ cs_log s' = cs_log s /\ cs_flen s' = cs_flen s /\
  (forall r, cs_rd s' r = cs_rd s r).
Proof. exact cs_other_write_frame. Qed.
Print Assumptions C09_comp_other_write_frame.

(* compressed format: the full statement is REFUTED by the faithful model (in-place rewrite of the partial
   last page before the pages lock is taken) *)
Definition C09_comp_prefix_full : Prop :=
  SHARED_LEN_LOAD_ACQUIRE = true -> SHARED_LEN_STORE_RELEASE = true ->
  forall st0 rv fl pp s, HDR <= rv -> st0 + rv <= fl -> 0 < pp ->
  cs_reach (cs_init st0 rv fl pp) s -> c09_good (cs_hist s) (cs_log s).

Theorem C09_comp_prefix_refuted :
  exists st0 rv fl pp s, (HDR <= rv) /\ (st0 + rv <= fl) /\ (0 < pp) /\
    (cs_reach (cs_init st0 rv fl pp) s) /\ (~ c09_good (cs_hist s) (cs_log s)).
Proof. exact comp_prefix_refuted. Qed.
Print Assumptions C09_comp_prefix_refuted.

(* what is proved of the compressed format for every schedule: the lengths part of the property.
   Missing for the full statement: value correctness of reads, which fails for writes that re-encode a
   partial page (see C09_comp_prefix_refuted); it is not proved here for the remaining writes either. *)
Theorem C09_comp_lens_partial :
  SHARED_LEN_LOAD_ACQUIRE = true -> SHARED_LEN_STORE_RELEASE = true ->
  forall st0 rv fl pp s, cs_reach (cs_init st0 rv fl pp) s ->
  lens_mono (cs_log s) /\ forall r b, In (EvLen r b) (cs_log s) -> b <= cs_slen s.
Proof. exact comp_lens_partial. Qed.
Print Assumptions C09_comp_lens_partial.
