(* Props/C09.v — vecdb: a concurrent reader never sees a length whose elements are not there yet.
   Statements only; every theorem is closed by `exact` of a lemma of Conc/SvProofs.v about the step
   models of Conc/SvSteps.v (one appending writer at pause-point granularity, any number of readers).
   Level: proof on the step model; partial: hardware/compiler reorderings within a step and the
   kernel's mmap coherence are assumed, not exhibited. *)
From Anydb Require Import Common.Base Gen.Consts Gen.Sizes Conc.SvSteps Conc.SvProofs.

(* raw format: full property — every completed read returned the value pushed at that index, lengths seen by
   one reader never decrease, no read panics, and write() never fails; any number of readers, any batch
   sizes, any number of write() calls, any fresh answers of the allocator *)
Theorem C09_raw_prefix :
  SHARED_LEN_LOAD_ACQUIRE = true -> SHARED_LEN_STORE_RELEASE = true ->
  forall st0 rv fl s, rs_init_ok st0 rv fl -> rs_reach (rs_init st0 rv fl) s ->
  c09_good (rs_hist s) (rs_log s) /\ rs_w s <> WFailed.
Proof. exact raw_prefix. Qed.
Print Assumptions C09_raw_prefix.

(* compressed format: the full statement is REFUTED by the faithful model (in-place rewrite of the partial
   last page before the pages lock is taken) *)
Definition C09_comp_prefix_full : Prop :=
  SHARED_LEN_LOAD_ACQUIRE = true -> SHARED_LEN_STORE_RELEASE = true ->
  forall st0 rv fl pp s, HDR <= rv -> st0 + rv <= fl -> 0 < pp ->
  cs_reach (cs_init st0 rv fl pp) s -> c09_good (cs_hist s) (cs_log s).

Theorem C09_comp_prefix_refuted :
  exists st0 rv fl pp s, (HDR <= rv) /\ (st0 + rv <= fl) /\ (0 < pp) /\
    (cs_reach (cs_init st0 rv fl pp) s) /\ (~ c09_good (cs_hist s) (cs_log s)).
Proof. exact comp_prefix_refuted. Qed.
Print Assumptions C09_comp_prefix_refuted.

(* what is proved of the compressed format for every schedule: the lengths part of the property.
   Missing for the full statement: value correctness of reads, which fails for writes that re-encode a
   partial page (see C09_comp_prefix_refuted); it is not proved here for the remaining writes either. *)
Theorem C09_comp_lens_partial :
  SHARED_LEN_LOAD_ACQUIRE = true -> SHARED_LEN_STORE_RELEASE = true ->
  forall st0 rv fl pp s, cs_reach (cs_init st0 rv fl pp) s ->
  lens_mono (cs_log s) /\ forall r b, In (EvLen r b) (cs_log s) -> b <= cs_slen s.
Proof. exact comp_lens_partial. Qed.
Print Assumptions C09_comp_lens_partial.
