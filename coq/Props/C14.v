(* Props/C14.v — vecdb: import keeps matching data; discards only on a real version/format change.
   Statements only: each is closed by `exact` of a lemma of Vec/ImportProofs.v.

   Vocabulary (Vec/ImportModel.v): a request `q` = (entry point, USER version, format); `created … q1 d h`
   is the store after creating through q1, filling with data d (and deleted slots h) and writing;
   `run_entry … q2 s` reopens it.  `eff_req oc q` is the EFFECTIVE version
       user_version + adds(entry) * VERSION(layer)        (u32; `oc` = overflow checks of the build)
   with adds and VERSION from Gen/Consts.v.  KnownClass = created through one entry point, reopened
   through the other (`SameEntry q1 q2` is its negation).

   Each of the four parts of the property appears (a) at full strength in the user's terms as
   `…_full` with its refutation inside the class, (b) proved for every request outside the class,
   (c) as the exact statement in terms of the effective version, valid for ALL requests. *)
From Anydb Require Import Common.Base Gen.Consts Gen.Sizes Gen.ImportFacts Vec.ImportModel Vec.ImportProofs.

(* ---- 1. matching version and format: the stored contents come back *)
Definition C14_match_keeps_full : Prop :=
  forall oc size clen q1 q2 d h s,
    0 < size -> created oc size clen q1 d h = Some s ->
    q_ver q2 = q_ver q1 -> q_fmt q2 = q_fmt q1 -> eff_req oc q2 <> Panic ->
    run_entry oc size None q2 s = (s, Ok (expected_view q1 d h)).

Theorem C14_match_keeps_refuted : ~ C14_match_keeps_full.
Proof. exact match_keeps_full_refuted. Qed.
Print Assumptions C14_match_keeps_refuted.

Theorem C14_match_keeps :
  forall oc size clen q1 q2 d h s,
    SameEntry q1 q2 ->
    0 < size -> created oc size clen q1 d h = Some s ->
    q_ver q2 = q_ver q1 -> q_fmt q2 = q_fmt q1 ->
    run_entry oc size None q2 s = (s, Ok (expected_view q1 d h)).
Proof. exact match_keeps_same_entry. Qed.
Print Assumptions C14_match_keeps.

Theorem C14_match_keeps_effective :
  forall oc size clen q1 q2 d h s sv,
    0 < size -> created oc size clen q1 d h = Some s ->
    eff_req oc q1 = Ok sv -> eff_req oc q2 = Ok sv -> q_fmt q2 = q_fmt q1 ->
    run_entry oc size None q2 s = (s, Ok (expected_view q1 d h)).
Proof. exact match_keeps_effective. Qed.
Print Assumptions C14_match_keeps_effective.

(* ---- 2. plain import on a mismatch: version/format error, every region as it was *)
Definition C14_plain_mismatch_full : Prop :=
  forall oc size clen q1 q2 d h s,
    u32 (q_ver q1) -> u32 (q_ver q2) -> created oc size clen q1 d h = Some s ->
    q_entry q2 = EImport -> (q_ver q2 <> q_ver q1 \/ q_fmt q2 <> q_fmt q1) -> eff_req oc q2 <> Panic ->
    run_entry oc size None q2 s = (s, Err DifferentVersion) \/
    run_entry oc size None q2 s = (s, Err DifferentFormat).

Theorem C14_plain_mismatch_refuted : ~ C14_plain_mismatch_full.
Proof. exact plain_mismatch_full_refuted. Qed.
Print Assumptions C14_plain_mismatch_refuted.

Theorem C14_plain_mismatch :
  forall oc size clen q1 q2 d h s,
    SameEntry q1 q2 ->
    u32 (q_ver q1) -> u32 (q_ver q2) -> created oc size clen q1 d h = Some s ->
    q_entry q2 = EImport -> (q_ver q2 <> q_ver q1 \/ q_fmt q2 <> q_fmt q1) -> eff_req oc q2 <> Panic ->
    run_entry oc size None q2 s = (s, Err DifferentVersion) \/
    run_entry oc size None q2 s = (s, Err DifferentFormat).
Proof. exact plain_mismatch_same_entry. Qed.
Print Assumptions C14_plain_mismatch.

Theorem C14_plain_mismatch_effective :
  forall oc size clen q1 q2 d h s sv rv,
    created oc size clen q1 d h = Some s -> q_entry q2 = EImport ->
    eff_req oc q1 = Ok sv -> eff_req oc q2 = Ok rv -> (rv <> sv \/ q_fmt q2 <> q_fmt q1) ->
    run_entry oc size None q2 s = (s, Err DifferentVersion) \/
    run_entry oc size None q2 s = (s, Err DifferentFormat).
Proof. exact plain_mismatch_effective. Qed.
Print Assumptions C14_plain_mismatch_effective.

(* the plain import never modifies an existing region — ANY store (damaged, orphan regions), any
   request, any outcome *)
Theorem C14_import_never_touches :
  forall oc fam size fault s v f s' r,
    import_with oc fam size fault s v f = (s', r) ->
    (forall m, s_main s = Some m -> m_len m <> 0 -> s_main s' = Some m) /\
    s_holes s' = s_holes s /\
    (forall a, s_pages s = Some a -> s_pages s' = Some a).
Proof. exact import_with_preserves. Qed.
Print Assumptions C14_import_never_touches.

(* ---- 3. forced import on a mismatch: Ok, empty (no values, no deleted slots), fresh header; holds for
   vectors with a holes region too: the reset arm removes it (Gen/ImportFacts.v, fix 5d157a9) *)
Definition C14_forced_mismatch_full : Prop :=
  forall oc size clen q1 q2 d h s,
    u32 (q_ver q1) -> u32 (q_ver q2) -> created oc size clen q1 d h = Some s ->
    q_entry q2 = EForced -> (q_ver q2 <> q_ver q1 \/ q_fmt q2 <> q_fmt q1) -> eff_req oc q2 <> Panic ->
    exists s' rv, run_entry oc size None q2 s = (s', Ok empty_view) /\
                  s_main s' = Some (fresh_main rv (q_fmt q2)).

Theorem C14_forced_mismatch_refuted : ~ C14_forced_mismatch_full.
Proof. exact forced_mismatch_full_refuted. Qed.
Print Assumptions C14_forced_mismatch_refuted.

Theorem C14_forced_mismatch :
  forall oc size clen q1 q2 d h s,
    SameEntry q1 q2 ->
    u32 (q_ver q1) -> u32 (q_ver q2) -> created oc size clen q1 d h = Some s ->
    q_entry q2 = EForced -> (q_ver q2 <> q_ver q1 \/ q_fmt q2 <> q_fmt q1) -> eff_req oc q2 <> Panic ->
    exists s' rv, run_entry oc size None q2 s = (s', Ok empty_view) /\
                  s_main s' = Some (fresh_main rv (q_fmt q2)).
Proof. exact forced_mismatch_same_entry. Qed.
Print Assumptions C14_forced_mismatch.

Theorem C14_forced_mismatch_effective :
  forall oc size clen q1 q2 d h s sv rv,
    created oc size clen q1 d h = Some s -> q_entry q2 = EForced ->
    eff_req oc q1 = Ok sv -> eff_req oc q2 = Ok rv -> (rv <> sv \/ q_fmt q2 <> q_fmt q1) ->
    exists s', run_entry oc size None q2 s = (s', Ok empty_view) /\
               s_main s' = Some (fresh_main rv (q_fmt q2)) /\
               (req_fam q2 = Raw -> s_holes s' = None).
Proof. exact forced_mismatch_effective. Qed.
Print Assumptions C14_forced_mismatch_effective.

(* ---- 3b. three steps: the vector re-created by the reset arm (and equally the one that was kept)
   is stored under the version the SAME request asks for: write any contents, repeat the request,
   and they come back with nothing touched — all versions, formats, data, holes, both overflow modes *)
Theorem C14_reset_then_same_request_keeps :
  forall oc size clen q1 q2 d h s sv rv,
    0 < size -> created oc size clen q1 d h = Some s -> q_entry q2 = EForced ->
    eff_req oc q1 = Ok sv -> eff_req oc q2 = Ok rv -> (rv <> sv \/ q_fmt q2 <> q_fmt q1) ->
    exists s', run_entry oc size None q2 s = (s', Ok empty_view) /\
      forall clen' d' h',
        run_entry oc size None q2 (fill (req_fam q2) size clen' d' (eff_holes q2 h') s') =
        (fill (req_fam q2) size clen' d' (eff_holes q2 h') s', Ok {| v_data := d'; v_holes := eff_holes q2 h' |}).
Proof. exact reset_then_same_request_keeps. Qed.
Print Assumptions C14_reset_then_same_request_keeps.

Theorem C14_extend_then_same_request_keeps :
  forall oc size clen clen' q1 q2 d h s sv d' h',
    0 < size -> created oc size clen q1 d h = Some s ->
    eff_req oc q1 = Ok sv -> eff_req oc q2 = Ok sv -> q_fmt q2 = q_fmt q1 ->
    (eff_holes q2 h' = [] -> eff_holes q1 h = []) ->
    (req_fam q2 = Comp -> d' = [] -> d = []) ->
    run_entry oc size None q2 (fill (req_fam q2) size clen' d' (eff_holes q2 h') s) =
    (fill (req_fam q2) size clen' d' (eff_holes q2 h') s, Ok {| v_data := d'; v_holes := eff_holes q2 h' |}).
Proof. exact extend_then_same_request_keeps. Qed.
Print Assumptions C14_extend_then_same_request_keeps.

(* ---- 4. the forced import replaces the data ONLY IF version or format differ *)
Definition C14_forced_only_if_full : Prop :=
  forall oc size clen q1 q2 d h s fault s' r,
    u32 (q_ver q1) -> u32 (q_ver q2) -> created oc size clen q1 d h = Some s ->
    q_entry q2 = EForced -> external fault ->
    run_entry oc size fault q2 s = (s', r) -> s_main s' <> s_main s ->
    q_ver q2 <> q_ver q1 \/ q_fmt q2 <> q_fmt q1.

Theorem C14_forced_only_if_refuted : ~ C14_forced_only_if_full.
Proof. exact forced_only_if_full_refuted. Qed.
Print Assumptions C14_forced_only_if_refuted.

Theorem C14_forced_only_if :
  forall oc size clen q1 q2 d h s fault s' r,
    SameEntry q1 q2 ->
    created oc size clen q1 d h = Some s ->
    q_entry q2 = EForced -> external fault ->
    run_entry oc size fault q2 s = (s', r) -> s_main s' <> s_main s ->
    q_ver q2 <> q_ver q1 \/ q_fmt q2 <> q_fmt q1.
Proof. exact forced_only_if_same_entry. Qed.
Print Assumptions C14_forced_only_if.

Theorem C14_forced_only_if_effective :
  forall oc size clen q1 q2 d h s fault s' r,
    created oc size clen q1 d h = Some s -> q_entry q2 = EForced -> external fault ->
    run_entry oc size fault q2 s = (s', r) -> s_main s' <> s_main s ->
    fault = None /\
    exists sv rv, eff_req oc q1 = Ok sv /\ eff_req oc q2 = Ok rv /\ (rv <> sv \/ q_fmt q2 <> q_fmt q1).
Proof. exact forced_only_if_effective. Qed.
Print Assumptions C14_forced_only_if_effective.

(* ANY store (damaged header, damaged or orphan auxiliary regions): a full main region is replaced
   only after an error of the generated reset list, and without an injected fault that error has
   exactly these causes: stored header differs from (HEADER_VERSION, effective version, format) —
   which includes an unreadable/damaged header_version — or a malformed auxiliary region *)
Theorem C14_forced_only_if_general :
  forall oc fam size fault s v f s' r m,
    forced_import_with oc fam size fault s v f = (s', r) ->
    s_main s = Some m -> HEADER_OFFSET <= m_len m -> s_main s' <> Some m ->
    (exists k, fault = Some k /\ resets fam k = true) \/
    (fault = None /\ exists rv, eff oc fam EForced v = Ok rv /\ (m_hdr m <> hdr_of rv f \/ ~ aux_wf fam s)).
Proof. exact forced_changes_only_if. Qed.
Print Assumptions C14_forced_only_if_general.

(* never on lock, I/O, rawdb, CorruptedRegion or InvalidFormat errors: store untouched, error passed on
   (Panic only from the version addition under overflow checks) *)
Theorem C14_forced_keeps_on_external_error :
  forall oc fam size s v f k,
    k = TryLock \/ k = IO \/ k = RawDB \/ k = CorruptedRegion \/ k = InvalidFormat ->
    forced_import_with oc fam size (Some k) s v f = (s, Err k) \/
    forced_import_with oc fam size (Some k) s v f = (s, Panic).
Proof. exact forced_keeps_on_external_error. Qed.
Print Assumptions C14_forced_keeps_on_external_error.

(* ---- the effective version *)
Theorem C14_effective_version :
  forall oc q,
    q_ver q + N.of_nat (adds (req_fam q) (q_entry q)) * layer_version (req_fam q) < two32 ->
    eff_req oc q = Ok (q_ver q + N.of_nat (adds (req_fam q) (q_entry q)) * layer_version (req_fam q)).
Proof. exact eff_in_range. Qed.
Print Assumptions C14_effective_version.

Theorem C14_effective_version_injective :
  forall oc fam e v v' r,
    v < two32 -> v' < two32 -> eff oc fam e v = Ok r -> eff oc fam e v' = Ok r -> v = v'.
Proof. exact eff_inj. Qed.
Print Assumptions C14_effective_version_injective.

Theorem C14_overflow_panics_leave_store :
  forall oc size fault q s, eff_req oc q = Panic -> run_entry oc size fault q s = (s, Panic).
Proof. exact run_entry_eff_panic. Qed.
Print Assumptions C14_overflow_panics_leave_store.

Theorem C14_no_panic_without_overflow_checks : forall q, eff_req false q <> Panic.
Proof. exact eff_panic_only_checked. Qed.
Print Assumptions C14_no_panic_without_overflow_checks.
