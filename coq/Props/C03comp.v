(* Props/C03comp.v — compressed-vector half of C03 (coordinator merges into Props/C03.v):
   every compressed format behaves like one reference vector at every step, and a re-import returns
   exactly the written contents.  Statements only. *)
From Anydb Require Import Common.Base Common.LE Gen.Consts Gen.Sizes Codec.Vecdb
  Vec.CvRegion Vec.CvPages Vec.CvModel Vec.CvInv Vec.CvInst Vec.CvInstProofs.

(* one step: the refinement relation R (concrete state vs reference vector {cur, stamp, saved, saved_stamp}) is preserved by every operation, which returns Ok (or panics on the 1 TiB region limit) *)
Theorem C03_refines_comp_step :
  forall (T : Type) (size : N) (enc : T -> list N) (dec : list N -> T)
         (compress : N -> list T -> list cell) (decompress : list cell -> N -> option (list T))
         (fmt vver : N),
       0 < size ->
       size <= MAX_UNCOMPRESSED_PAGE_SIZE ->
       (forall t : T, len (enc t) = size) ->
       (forall t : T, dec (enc t) = t) ->
       (forall (k : N) (l : list T), decompress (compress k l) (len l) = Some l) ->
       (forall (k : N) (l : list T), len l <= MAX_UNCOMPRESSED_PAGE_SIZE / size -> len (compress k l) < two32) ->
       vver < two32 ->
       forall (s : cvs T) (a : spec T) (o : op T) (s' : cvs T) (r : res cverr bool),
       R T size enc compress fmt vver s a ->
       op_ok T o ->
       cv_step T size enc dec compress decompress fmt vver s o = (s', r) ->
       r = Panic \/ (exists b : bool, r = Ok b /\ R T size enc compress fmt vver s' (spec_step T a o)).
Proof. exact step_R. Qed.
Print Assumptions C03_refines_comp_step.

(* all histories (push, truncate, write, flush, stamped write / commit at any retention, reset, re-import at any point) *)
Theorem C03_refines_comp :
  forall (T : Type) (size : N) (enc : T -> list N) (dec : list N -> T)
         (compress : N -> list T -> list cell) (decompress : list cell -> N -> option (list T))
         (fmt vver : N),
       0 < size ->
       size <= MAX_UNCOMPRESSED_PAGE_SIZE ->
       (forall t : T, len (enc t) = size) ->
       (forall t : T, dec (enc t) = t) ->
       (forall (k : N) (l : list T), decompress (compress k l) (len l) = Some l) ->
       (forall (k : N) (l : list T), len l <= MAX_UNCOMPRESSED_PAGE_SIZE / size -> len (compress k l) < two32) ->
       vver < two32 ->
       forall (h : list (op T)) (s : cvs T) (a : spec T),
       R T size enc compress fmt vver s a ->
       Forall (op_ok T) h ->
       no_panic T size enc dec compress decompress fmt vver s h ->
       R T size enc compress fmt vver (cv_run T size enc dec compress decompress fmt vver s h)
         (spec_run T a h) /\ steps_ok T size enc dec compress decompress fmt vver s h.
Proof. exact run_R. Qed.
Print Assumptions C03_refines_comp.

(* the refinement is about what a read returns *)
Theorem C03_comp_reads :
  forall (T : Type) (size : N) (enc : T -> list N) (dec : list N -> T)
         (compress : N -> list T -> list cell) (decompress : list cell -> N -> option (list T))
         (fmt vver : N),
       0 < size ->
       size <= MAX_UNCOMPRESSED_PAGE_SIZE ->
       (forall t : T, len (enc t) = size) ->
       (forall t : T, dec (enc t) = t) ->
       (forall (k : N) (l : list T), decompress (compress k l) (len l) = Some l) ->
       (forall (k : N) (l : list T), len l <= MAX_UNCOMPRESSED_PAGE_SIZE / size -> len (compress k l) < two32) ->
       vver < two32 ->
       forall (s : cvs T) (a : spec T),
       R T size enc compress fmt vver s a -> cv_collect T size dec decompress s = Ok (a_cur T a).
Proof. exact R_collect. Qed.
Print Assumptions C03_comp_reads.

