(* Props/C17change.v — C17 for rollback change records (raw vectors): the record codec round-trips,
   rejects every truncation and every extension of an accepted input, never panics, and its one
   count-sized read never asks for more memory than the input holds.  The order of steps inside
   ChangeCursor::read_values is NOT written here: it is regenerated from cursor.rs on every run
   (Gen/CursorOrder.v) and interpreted by Vec/RvCursorOrder.v.  Statements only. *)
From Anydb Require Import Common.Base Common.LE Vec.RegionSpec Vec.RvBase Vec.RvChange Vec.RvChangeProofs
  Gen.CursorOrder Vec.RvCursorOrder Vec.RvCursorOrderProofs.

(* the regenerated step order computes exactly the model all parser theorems are about *)
Theorem C17_change_values_is_source :
  forall (A : Type) (c : cursor) (count w : N) (rd : list N -> A),
  fst (read_values_src c count w rd) = cur_read_values c count w rd.
Proof. exact @read_values_src_is_model. Qed.
Print Assumptions C17_change_values_is_source.

(* for EVERY input, count and element width: the largest allocation request is at most the bytes
   that remain in the input *)
Theorem C17_change_values_alloc :
  forall (A : Type) (c : cursor) (count w : N) (rd : list N -> A),
  snd (read_values_src c count w rd) <= len (c_bytes c) - c_pos c.
Proof. exact @read_values_src_alloc_bounded. Qed.
Print Assumptions C17_change_values_alloc.

(* non-vacuity of the above: an order that sizes the buffer before the bounds check violates it *)
Theorem C17_change_values_alloc_order_matters :
  exists (c : cursor) (count w : N),
    len (c_bytes c) - c_pos c < snd (rv_interp [SMul; SAllocCount; SCheck; SCollect; SAdvance; SRet] count w
                                      (fun _ : list N => tt) (mkRvS None [] c 0)).
Proof. exact alloc_before_check_unbounded. Qed.
Print Assumptions C17_change_values_alloc_order_matters.

Theorem C17_change_record_roundtrip :
  forall (T : Type) (tsize : N) (enc : T -> list N) (dec : list N -> T),
  0 < tsize -> (forall v, len (enc v) = tsize) -> (forall v, dec (enc v) = v) ->
  forall r, valid_record enc r -> parse_raw_change_data tsize dec (serialize_record enc r) = Ok (project_record r).
Proof. exact @parse_serialize. Qed.
Print Assumptions C17_change_record_roundtrip.

Theorem C17_change_record_total :
  forall (T : Type) (tsize : N) (dec : list N -> T) bytes, parse_raw_change_data tsize dec bytes <> Panic.
Proof. exact @parse_never_panics. Qed.
Print Assumptions C17_change_record_total.

Theorem C17_change_record_truncation_rejected :
  forall (T : Type) (tsize : N) (dec : list N -> T) (bytes : list N) (x : raw_change_data) (m : N),
  parse_raw_change_data tsize dec bytes = Ok x -> m < len bytes ->
  exists e : verr, parse_raw_change_data tsize dec (take m bytes) = Err e.
Proof. exact @accepted_prefix_rejected. Qed.
Print Assumptions C17_change_record_truncation_rejected.

Theorem C17_change_record_extension_rejected :
  forall (T : Type) (tsize : N) (dec : list N -> T), 0 < tsize ->
  forall (bytes : list N) (x : raw_change_data) (extra : list N),
  parse_raw_change_data tsize dec bytes = Ok x -> extra <> [] ->
  exists e : verr, parse_raw_change_data tsize dec (bytes ++ extra) = Err e.
Proof. exact @trailing_bytes_rejected. Qed.
Print Assumptions C17_change_record_extension_rejected.
