(* Props/C04.v — rollback restores exactly the previously committed state, repeatedly (raw vectors; code as
   of 397122a + the repair of write() for stored_len above the on-disk length, findings 3/4).  Statements only.
   UNBOUNDED (all element types, all retention settings k > 0, all histories of the strict class), Vec/RvChain.v:
     C04_rollback_step    one rollback from a committed state lands on the previous committed snapshot (contents,
                          deleted slots, stamp) and re-establishes the whole invariant K (baseline, chain of records,
                          directory); with no retained snapshot it is refused with the vector unchanged
     C04_chain            n successive rollbacks, for every n up to the number of retained snapshots
     C04_rollback_before  ends exactly where the reference ends and returns that stamp
     C04_continuation     every strict history agrees with the reference after every step: results, contents incl.
                          deleted slots, stamps — edits, commits, rollbacks, rollback_before in any order
   K s a: R s a + a ghost level per retained snapshot (underlying values also under deleted slots, deleted set,
   stamp, lowest admissible stored length) + "prev_* over the disk describe the top level" + the change directory is
   the chain of valid records (RecOK: each carries exactly what separates two adjacent levels) followed by records
   above the current stamp + the part of the baseline behind the region's end is in prev_updated (RvChain.Over).
   Strict class (RvChain.strict): edits (push, truncate, update, delete, take, fill),
   commits with increasing stamps whose record satisfies valid_record (all lengths below 2^64), rollback /
   rollback_before from committed states — INCLUDING rollbacks that make the vector longer than the region (they undo
   a truncating commit; the former KnownClass_rollback_of_truncation of findings 3/4): since the repair write() first
   extends the region to stored_len, and the refinement invariant (RvRefine.Inv) no longer needs
   stored_len <= on-disk length.  The two `_refuted` witnesses of findings 3/4 no longer fail; they are part of
   C04_rollback_of_truncation_histories_agree.  NOT in the strict class,
   hence still only in the bounded C04_continuation_partial (and in C03 for their own effect): plain
   write/flush/re-import between commits when nothing was edited, reset, stamped_write without a record.
   C04_full (every disciplined history, unbounded) is therefore neither refuted nor proved in full: no counterexample
   is known; what is missing is exactly the induction over those plain operations between commits. *)
From Anydb Require Import Common.Base Common.LE Vec.RvBase Vec.RvChange Vec.RvChangeProofs Vec.RvModel Vec.RvRollback Vec.RvSpec
  Vec.RvRollbackProofs Vec.RvRefine Vec.RvChain Vec.RvInst Vec.RvFindings Vec.RvSmallScope Vec.RvStatements.

Definition C04_full : Prop := forall k0 h, disciplined k0 h = true -> agree k0 h = true.

(* the witnesses that refuted C04_full before the repair of write() (finding 3: rollback of a truncating commit, push,
   commit; finding 4: …, delete of a restored slot, commit), the variant with the LAST restored slot deleted (the region
   used to end one slot short) and a combined history with two more rollbacks: disciplined, in the class "a rollback makes
   the vector longer", and in agreement with the reference *)
Theorem C04_rollback_of_truncation_histories_agree :
  (disciplined 3 wit3 = true /\ Class_rollback_of_truncation 3 wit3 = true /\ agree 3 wit3 = true) /\
  (disciplined 3 wit4 = true /\ Class_rollback_of_truncation 3 wit4 = true /\ agree 3 wit4 = true) /\
  (disciplined 3 wit_last = true /\ Class_rollback_of_truncation 3 wit_last = true /\ agree 3 wit_last = true) /\
  (disciplined 3 wit34 = true /\ Class_rollback_of_truncation 3 wit34 = true /\ agree 3 wit34 = true).
Proof. exact wit34_agree. Qed.
Print Assumptions C04_rollback_of_truncation_histories_agree.

(* … and afterwards the region backs every stored slot: stored_len = on-disk length, nothing buffered *)
Theorem C04_rollback_of_truncation_histories_settled :
  settled (u64_run (w_init 3) wit3) = true /\ settled (u64_run (w_init 3) wit4) = true /\
  settled (u64_run (w_init 3) wit_last) = true /\ RvModel.stored_len (u64_run (w_init 3) wit_last) = 27.
Proof. exact wit34_settled. Qed.
Print Assumptions C04_rollback_of_truncation_histories_settled.

(* the histories of the repaired defects (7, A, B1, B2, C) and the chained rollback across a truncating commit
   agree with the reference on the model of the repaired code *)
Theorem C04_repaired_histories_agree :
  agree 3 fixed7 = true /\ agree 3 fixedA = true /\ agree 3 fixedB1 = true /\ agree 2 fixedB2 = true /\
  agree 3 fixedC = true /\ agree 5 chain_trunc = true.
Proof. exact repaired_agree. Qed.
Print Assumptions C04_repaired_histories_agree.

Theorem C04_continuation_partial :
  forall k0 h, (k0 = 1 \/ k0 = 2) -> In h (all_hist alpha_c04 5) ->
  disciplined k0 h = true -> agree k0 h = true.
Proof. exact C04_small_scope. Qed.
Print Assumptions C04_continuation_partial.

Theorem C04_rollback_step :
  forall (T : Type) (tsize : N) (enc : T -> list N) (dec : list N -> T),
  0 < tsize -> (forall v : T, len (enc v) = tsize) -> (forall v : T, dec (enc v) = v) ->
  forall (s : rv) (a : sv T), K tsize enc dec s a -> Clean s ->
  match committed a with
  | [] => rv_rollback tsize dec s = (s, Err EIO)
  | Sn :: _ =>
    exists s' : rv, rv_rollback tsize dec s = (s', Ok tt) /\ K tsize enc dec s' (fst (sv_rollback a)) /\ Clean s' /\
      view tsize dec s' = sn_contents Sn /\ stamp s' = sn_stamp Sn /\
      (Inv s -> Inv s')
  end.
Proof. exact @rollback_step. Qed.
Print Assumptions C04_rollback_step.

Theorem C04_chain :
  forall (T : Type) (tsize : N) (enc : T -> list N) (dec : list N -> T),
  0 < tsize -> (forall v : T, len (enc v) = tsize) -> (forall v : T, dec (enc v) = v) ->
  forall (n : nat) (s : rv) (a : sv T), K tsize enc dec s a -> Clean s -> (n <= length (committed a))%nat ->
  exists s' : rv, rollbacks_ok tsize dec n s s' /\ K tsize enc dec s' (rolln n a) /\ Clean s' /\
    view tsize dec s' = contents (rolln n a) /\ stamp s' = sstamp (rolln n a).
Proof. exact @rollback_chain. Qed.
Print Assumptions C04_chain.

Theorem C04_rollback_before :
  forall (T : Type) (tsize : N) (enc : T -> list N) (dec : list N -> T),
  0 < tsize -> (forall v : T, len (enc v) = tsize) -> (forall v : T, dec (enc v) = v) ->
  forall (s : rv) (a : sv T) (target : N), K tsize enc dec s a -> Clean s -> changes s <> None ->
  let a' := sv_rollback_before (S (length (committed a))) target a in
  exists s' : rv, rv_rollback_before tsize dec target s = (s', Ok (sstamp a')) /\ K tsize enc dec s' a' /\ Clean s' /\
    view tsize dec s' = contents a' /\ (Inv s -> Inv s').
Proof. exact @rollback_before_spec. Qed.
Print Assumptions C04_rollback_before.

Theorem C04_commit_step :
  forall (T : Type) (tsize : N) (enc : T -> list N) (dec : list N -> T), 0 < tsize ->
  forall (s : rv) (a : sv T) (st : N), K tsize enc dec s a -> Inv s -> sstamp a < st ->
  valid_record enc (fst (build_record tsize dec s)) ->
  let s' := fst (rv_commit tsize enc dec st s) in
  let a' := fst (sstep a (Commit st)) in
  snd (rv_commit tsize enc dec st s) = Ok tt /\ K tsize enc dec s' a' /\ Inv s' /\ Clean s'.
Proof. exact @commit_step. Qed.
Print Assumptions C04_commit_step.

Theorem C04_continuation_from_any_state :
  forall (T : Type) (tsize : N) (enc : T -> list N) (dec : list N -> T),
  0 < tsize -> (forall v : T, len (enc v) = tsize) -> (forall v : T, dec (enc v) = v) ->
  forall (h : list op) (edited : bool) (s : rv) (a : sv T),
  K tsize enc dec s a -> Inv s -> (edited = false -> Clean s) -> strict tsize enc dec edited s a h ->
  agrees tsize enc dec s a h /\ K tsize enc dec (run tsize enc dec s h) (srun a h) /\
  Inv (run tsize enc dec s h) /\ (final_ed edited h = false -> Clean (run tsize enc dec s h)).
Proof. exact @strict_agree. Qed.
Print Assumptions C04_continuation_from_any_state.

Theorem C04_continuation :
  forall (T : Type) (tsize : N) (enc : T -> list N) (dec : list N -> T),
  0 < tsize -> (forall v : T, len (enc v) = tsize) -> (forall v : T, dec (enc v) = v) ->
  forall (k0 : N) (h : list op), 0 < k0 ->
  strict tsize enc dec false (rv_init k0) (sv_init k0) h -> agrees tsize enc dec (rv_init k0) (sv_init k0) h.
Proof. exact @continuation. Qed.
Print Assumptions C04_continuation.
