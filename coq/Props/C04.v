(* Props/C04.v — rollback restores exactly the previously committed state, repeatedly (raw vectors; code as
   of 533ea26).  Statements only.
   `disciplined k h` (RvFindings.op_disciplined): edits between commits; plain write/flush/re-import only when
   no edit was issued since the last commit; increasing stamps; rollbacks start from a committed state.
   Status: the full statement is REFUTED by the one remaining known class (findings 3 and 4: rollback of a
   truncating commit, then push / delete of a restored slot, then write() -> WriteOutOfBounds with data loss).
   Proved: the bounded statement (all 177 156 histories up to length 5 over 11 operations, retention 1 and 2,
   outside that class).  NOT closed: the unbounded C04_rollback_step / C04_chain / C04_rollback_before /
   C04_continuation (= C04_outside_known_full).  What is missing is the induction with R5/R6 of DESIGN.md B.1:
   (a) a ghost "underlying value" per retained snapshot (the value under a deleted slot matters for older
   snapshots), (b) the baseline invariant `prev_* + disk describe the top snapshot` preserved by every edit
   (disk unchanged between commits under the discipline), (c) serialize -> parse instantiated through
   C16_record_roundtrip (needs lengths < 2^64), (d) the undo algebra (insert_run / apply_mods / all_keys).
   Already available for it: C03_step_refines applies unchanged to every state after a rollback that does
   not lengthen the vector (such states satisfy Inv), C16_fail_single, C16_rollback_before_*_reach. *)
From Anydb Require Import Common.Base Vec.RvModel Vec.RvRollback Vec.RvSpec Vec.RvInst Vec.RvFindings
  Vec.RvSmallScope Vec.RvStatements.

Definition C04_full : Prop := forall k0 h, disciplined k0 h = true -> agree k0 h = true.
Definition C04_outside_known_full : Prop :=
  forall k0 h, disciplined k0 h = true -> KnownClass_rollback_of_truncation k0 h = false -> agree k0 h = true.

Theorem C04_truncation_push_refuted :
  exists k0 h, disciplined k0 h = true /\ KnownClass_rollback_of_truncation k0 h = true /\ agree k0 h = false.
Proof. exact C04_refuted_truncation_push. Qed.
Print Assumptions C04_truncation_push_refuted.

Theorem C04_truncation_delete_refuted :
  exists k0 h, disciplined k0 h = true /\ KnownClass_rollback_of_truncation k0 h = true /\ agree k0 h = false.
Proof. exact C04_refuted_truncation_delete. Qed.
Print Assumptions C04_truncation_delete_refuted.

(* the histories of the repaired defects (7, A, B1, B2, C) and the chained rollback across a truncating commit
   agree with the reference on the model of the repaired code *)
Theorem C04_repaired_histories_agree :
  agree 3 fixed7 = true /\ agree 3 fixedA = true /\ agree 3 fixedB1 = true /\ agree 2 fixedB2 = true /\
  agree 3 fixedC = true /\ agree 5 chain_trunc = true.
Proof. exact repaired_agree. Qed.
Print Assumptions C04_repaired_histories_agree.

Theorem C04_continuation_partial :
  forall k0 h, (k0 = 1 \/ k0 = 2) -> In h (all_hist alpha_c04 5) ->
  disciplined k0 h = true -> KnownClass_rollback_of_truncation k0 h = false -> agree k0 h = true.
Proof. exact C04_small_scope. Qed.
Print Assumptions C04_continuation_partial.
