(* Props/C16compfault.v — C16 / C17 for the change records of COMPRESSED vectors under single-file
   faults (delete / truncate / overwrite a u64 field of the record rollback reads).  Statements only;
   proofs in Vec/CvFaultProofs.v.  The round trip of serialize_changes is C16_comp_record_roundtrip
   and "a failed single rollback changes nothing" is C16_comp_fail_single (both in Props/C16comp.v). *)
From Anydb Require Import Common.Base Common.LE Gen.Consts Gen.Sizes Codec.Vecdb
  Vec.CvRegion Vec.CvPages Vec.CvModel Vec.CvInst Vec.CvFault Vec.CvFaultProofs.

(* (a) every strict prefix of ANY accepted input is rejected with an error: a record truncated at any
   byte offset is refused (whatever bytes the record holds, any element type and width) *)
Theorem C16_comp_record_truncation_rejected :
  forall (T : Type) (size : N) (dec : list N -> T) (bs : list N) (ch : change T) (m : N),
  parse_change T size dec bs = Ok ch ->
  m < len bs -> exists e : cverr, parse_change T size dec (take m bs) = Err e.
Proof. exact comp_accepted_prefix_rejected. Qed.
Print Assumptions C16_comp_record_truncation_rejected.

(* (b) any accepted input followed by extra bytes is rejected (expect_end) *)
Theorem C16_comp_record_extension_rejected :
  forall (T : Type) (size : N) (dec : list N -> T) (bs : list N) (ch : change T) (extra : list N),
  parse_change T size dec bs = Ok ch ->
  extra <> [] -> exists e : cverr, parse_change T size dec (bs ++ extra) = Err e.
Proof. exact comp_trailing_bytes_rejected. Qed.
Print Assumptions C16_comp_record_extension_rejected.

(* (c) the parser never panics, on any byte string *)
Theorem C16_comp_record_parser_total :
  forall (T : Type) (size : N) (dec : list N -> T) (bs : list N), parse_change T size dec bs <> Panic.
Proof. exact comp_parse_never_panics. Qed.
Print Assumptions C16_comp_record_parser_total.

(* (e) THE VERDICT on a record laid out as serialize_changes writes it but with ANY value in its
   stamp, prev_stored_len and stored_len fields: deserialize_then_undo_changes
     refuses with Underflow     iff  prev_stored_len < truncated count,
     refuses with IndexTooHigh  iff  otherwise the vector's stored_len < prev_stored_len - truncated count,
     applies the record         in every other case (undo_applied: stamp := the stamp field, stored_len :=
                                prev_stored_len, or the clamped truncation start when values were truncated);
   a refusal leaves the state unchanged.  The stamp and stored_len fields never cause a refusal. *)
Theorem C16_comp_damaged_record_verdict :
  forall (T : Type) (size : N) (enc : T -> list N) (dec : list N -> T),
  0 < size ->
  (forall t : T, len (enc t) = size) ->
  (forall t : T, dec (enc t) = t) ->
  forall (s : cvs T) (stamp psl sl : N) (tv pp pu : list T),
  stamp < two64 ->
  psl < two64 ->
  sl < two64 ->
  48 + size * len tv + size * len pp + size * len pu < two64 ->
  cv_undo T size dec s (record_bytes T enc stamp psl sl tv pp pu) =
  (if psl <? len tv
   then (s, Err EUnderflow)
   else
    if s_stored_len s <? psl - len tv
    then (s, Err EIndexTooHigh)
    else (undo_applied T size s stamp psl tv pp, Ok tt)).
Proof. exact comp_record_verdict. Qed.
Print Assumptions C16_comp_damaged_record_verdict.

(* the record of an append-only commit (no truncated values): a prev_stored_len field above the vector's
   stored length is refused with IndexTooHigh, state unchanged — the only validation that field gets *)
Theorem C16_comp_append_only_prev_stored_len_refused :
  forall (T : Type) (size : N) (enc : T -> list N) (dec : list N -> T),
  0 < size ->
  (forall t : T, len (enc t) = size) ->
  (forall t : T, dec (enc t) = t) ->
  forall (s : cvs T) (stamp psl' sl : N) (pp pu : list T),
  stamp < two64 ->
  psl' < two64 ->
  sl < two64 ->
  48 + size * len pp + size * len pu < two64 ->
  s_stored_len s < psl' ->
  cv_undo T size dec s (record_bytes T enc stamp psl' sl [] pp pu) = (s, Err EIndexTooHigh).
Proof. exact comp_append_only_psl_refused. Qed.
Print Assumptions C16_comp_append_only_prev_stored_len_refused.

(* … and at or below it the altered record is applied and sets the stored length to the altered value *)
Theorem C16_comp_append_only_prev_stored_len_accepted :
  forall (T : Type) (size : N) (enc : T -> list N) (dec : list N -> T),
  0 < size ->
  (forall t : T, len (enc t) = size) ->
  (forall t : T, dec (enc t) = t) ->
  forall (s : cvs T) (stamp psl' sl : N) (pp pu : list T),
  stamp < two64 ->
  psl' < two64 ->
  sl < two64 ->
  48 + size * len pp + size * len pu < two64 ->
  psl' <= s_stored_len s ->
  cv_undo T size dec s (record_bytes T enc stamp psl' sl [] pp pu) =
  (undo_applied T size s stamp psl' [] pp, Ok tt) /\ s_stored_len (undo_applied T size s stamp psl' [] pp) = psl'.
Proof. exact comp_append_only_psl_accepted. Qed.
Print Assumptions C16_comp_append_only_prev_stored_len_accepted.

(* the fault case end to end on the model: the vector stands on the stamp whose record is the one of an
   append-only commit; FOverwrite at byte offset 8 (the prev_stored_len field) with a value above the stored
   length; rollback() returns IndexTooHigh and the state (the damaged directory included) is unchanged *)
Theorem C16_comp_rollback_of_overwritten_prev_stored_len_refused :
  forall (T : Type) (size : N) (enc : T -> list N) (dec : list N -> T),
  0 < size ->
  (forall t : T, len (enc t) = size) ->
  (forall t : T, dec (enc t) = t) ->
  forall (s : cvs T) (dir : list (N * list N)) (stamp psl sl : N) (pp pu : list T) (v : N),
  s_changes s = Some dir ->
  lookup_file dir (cv_stamp s) = Some (record_bytes T enc stamp psl sl [] pp pu) ->
  stamp < two64 ->
  v < two64 ->
  sl < two64 ->
  48 + size * len pp + size * len pu < two64 ->
  s_stored_len s < v ->
  let s' := cv_fault s (FOverwrite (cv_stamp s) 8 v) in
  cv_rollback T size dec s' = (s', Err EIndexTooHigh).
Proof. exact comp_rollback_overwritten_psl_refused. Qed.
Print Assumptions C16_comp_rollback_of_overwritten_prev_stored_len_refused.

(* "every record with an altered prev_stored_len is refused" is FALSE of the model (and of the code: the
   harness key rollback-of-damaged-record-accepted-comp): u64 elements, stored length 2, the record of an
   append-only commit made from length 2, the field overwritten with 1 *)
Theorem C16_comp_damaged_refused_refuted :
  ~ C16_comp_damaged_refused_full (xT 8) 8 (x_enc 8) (x_dec 8).
Proof. exact damaged_record_refuted. Qed.
Print Assumptions C16_comp_damaged_refused_refuted.

Theorem C16_comp_damaged_applied_witness :
  let r := cv_undo (xT 8) 8 (x_dec 8) wit_state (record_bytes (xT 8) (x_enc 8) 1 1 2 [] [] []) in
  snd r = Ok tt /\ s_stored_len (fst r) = 1 /\ cv_stamp (fst r) = 1.
Proof. exact damaged_record_applied_witness. Qed.
Print Assumptions C16_comp_damaged_applied_witness.
