(* Props/C19.v — computed columns are recomputed exactly when input versions change.
   Statements only.  Outputs carry two ghost tags (Eager/EVersion.v): the combined version under
   which an element was produced and the serial number of the call that evaluated it. *)
From Anydb Require Import Common.Base Eager.EDriver Eager.EDriverProofs Eager.EVersion Eager.EVersionProofs.

(* raw and compressed formats: after any history of compute calls (any sources, dependency versions,
   max_from, caps; user closures that fail part-way, leaving the values computed so far unwritten),
   values pushed by hand without a write (presented under the recorded version), writes, flush +
   re-imports and own-version changes, every element carries the header's computed version, in
   memory and on disk *)
Theorem C19_no_mix :
  forall (Src St Out : Type) (m : method Src St Out) compressed (h : list (vop (Src:=Src))) (own : N),
  let v := fst (vrun m compressed h (vinit own)) in
  Forall (fun x => tver x = cv v) (contents v) /\ Forall (fun x => tver x = disk_cv v) (disk v).
Proof. exact @no_mix. Qed.
Print Assumptions C19_no_mix.

(* version differs => nothing older survives: every element of the result was evaluated by this
   call under the presented version, which is the one recorded *)
Theorem C19_discard :
  forall (Src St Out : Type) (m : method Src St Out) compressed src dep mf cap serial (v : vec (@tout Out)),
  vv v + dep <> cv v ->
  let v' := fst (compute_tagged m compressed src dep mf cap serial v) in
  Forall (fun x => snd x = (vv v + dep, serial)) (contents v') /\ cv v' = vv v + dep.
Proof. exact @discard. Qed.
Print Assumptions C19_discard.

(* in particular for a state that holds results ONLY in the pushed buffer (hand-pushed values, or
   the prefix left by a call that failed before its write): nothing stored, something unwritten *)
Theorem C19_discard_unwritten :
  forall (Src St Out : Type) (m : method Src St Out) compressed src dep mf cap serial (v : vec (@tout Out)),
  stored v = [] -> pushed v <> [] -> vv v + dep <> cv v ->
  let v' := fst (compute_tagged m compressed src dep mf cap serial v) in
  Forall (fun x => snd x = (vv v + dep, serial)) (contents v') /\ cv v' = vv v + dep.
Proof. exact @discard_unwritten. Qed.
Print Assumptions C19_discard_unwritten.

(* version equal => the elements below min(max_from, stored length) are the same tagged elements:
   neither altered nor re-evaluated (a re-evaluated element would carry this call's serial) *)
Theorem C19_no_recompute :
  forall (Src St Out : Type) (m : method Src St Out) compressed src dep mf cap serial (v : vec (@tout Out)),
  vv v + dep = cv v ->
  let v' := fst (compute_tagged m compressed src dep mf cap serial v) in
  firstn (Nat.min mf (vlen v)) (contents v') = firstn (Nat.min mf (vlen v)) (contents v) /\ cv v' = cv v.
Proof. exact @no_recompute. Qed.
Print Assumptions C19_no_recompute.

(* the recorded version survives write() and flush + re-import, after any history, both formats *)
Theorem C19_persist :
  forall (Src St Out : Type) (m : method Src St Out) compressed (h : list (vop (Src:=Src))) (own : N),
  let v := fst (vrun m compressed h (vinit own)) in
  cv (write v) = cv v /\ cv (reimport (write v)) = cv v.
Proof. exact @persist. Qed.
Print Assumptions C19_persist.

