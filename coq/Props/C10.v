(* Props/C10.v — rawdb: concurrent work on distinct regions is isolated; no foreign bytes read.
   Statements only.  Step model: Conc/SrSteps.v (lock-acquisition granularity); scenarios and
   observers: Conc/SrScen.v; proofs: Conc/SrProofs.v.
   Level: proof on the step model; partial: hardware/compiler reorderings within a step and the
   kernel's mmap coherence are assumed. *)
From Anydb Require Import Common.Base Gen.Consts Rawdb.AMap Rawdb.Alloc Rawdb.AllocInv Conc.SrSteps Conc.SrScen Conc.SrProofs.

(* FULL statements (targets).  All three are REFUTED by the faithful model — and by the real
   code under the same schedules (harness keys in known_findings.txt). *)
Definition C10_isolation_full : Prop := isolation_stmt.
Definition C10_inv_quiescent_full : Prop := inv_quiescent_stmt.
Definition C10_reader_full : Prop := reader_stmt.

(* the mechanism every positive statement rests on: a step of any thread, in any state, changes
   the data map only inside the step's declared write footprint (the data copy of write_with,
   the relocation copy into the RESERVED target extent, the punches of compact) *)
Theorem C10_step_mem_frame :
  forall s oc t a, covers_any (wfoot s t) a = false -> mem (fst (tstep s oc t)) a = mem s a.
Proof. exact tstep_mem_frame. Qed.
Print Assumptions C10_step_mem_frame.

(* … lifted to any number of threads and any schedule *)
Theorem C10_schedule_mem_frame :
  forall sched g a, quiet_b g sched a = true -> mem (g_st (grun g sched)) a = mem (g_st g) a.
Proof. exact grun_mem_frame. Qed.
Print Assumptions C10_schedule_mem_frame.

(* the critical sections of the model are real ones: in every reachable state a thread that holds
   a database-level lock (layout, regions, mmap, file) exclusively excludes every other holder,
   for any number of threads and any schedule *)
Theorem C10_locks_exclusive : forall (c : cfg) g, reachable (ginit c) g -> excl (g_th g).
Proof. exact excl_all. Qed.
Print Assumptions C10_locks_exclusive.

(* a step of any thread leaves start / len / reserve / id of every slot it does not target
   (the slot of its own current operation) unchanged: other threads never move, resize or
   rename a region *)
Theorem C10_step_place_frame :
  forall s oc t i, pc_target (t_pc t) <> Some i -> keeps s (fst (tstep s oc t)) i.
Proof. exact tstep_place_frame. Qed.
Print Assumptions C10_step_place_frame.

(* isolation, restricted: over ANY schedule (any number of threads) in which no step works on
   slot i and no step's write footprint meets the live bytes of region i, region i keeps its
   placement and every byte — the contents of a thread's region change only through that
   thread's own operations.  Missing for the full statement: that footprints of other threads
   always avoid region i (the extent-disjointness induction of C02 lifted to steps — false in
   general, see the refutations) and the agreement of a thread's own steps with AllocSpec. *)
Theorem C10_isolation_partial :
  forall sched g i m, slot (g_st g) i = Some m -> others_quiet_b g sched i = true ->
    (exists m', slot (g_st (grun g sched)) i = Some m' /\ place m' = place m)
    /\ forall k, region_byte (g_st (grun g sched)) i k = region_byte (g_st g) i k.
Proof. exact isolation_partial. Qed.
Print Assumptions C10_isolation_partial.

Theorem C10_isolation_partial_example : others_quiet_b (ginit beyond_cfg) beyond_sched 0 = true.
Proof. exact isolation_partial_applies. Qed.
Print Assumptions C10_isolation_partial_example.

(* isolation: refuted.  A region created after a racing relocation to the end of the file
   starts AT the end of the file, the first write to it panics (in isolation: ok, ok) *)
Theorem C10_isolation_refuted : ~ C10_isolation_full.
Proof. exact isolation_refuted. Qed.
Print Assumptions C10_isolation_refuted.

(* second witness: the owner's remove() is refused (RegionStillReferenced) while a concurrent
   flush() holds a clone of the dirty region *)
Theorem C10_isolation_remove_refuted :
  exists (c : cfg) sched t th tha,
    wf_cfg c = true /\ all_finished (grun (ginit c) sched) = true /\
    nth_error (g_th (grun (ginit c) sched)) t = Some th /\
    nth_error (g_th (grun (thread_alone c t) (repeat O 100))) O = Some tha /\ t_finished tha = true /\
    all2 res_agree (t_results th) (t_results tha) = false.
Proof. exact isolation_refuted_remove. Qed.
Print Assumptions C10_isolation_remove_refuted.

(* quiescent extent invariant: refuted by the same schedule (layout_len > file_len) *)
Theorem C10_inv_quiescent_refuted : ~ C10_inv_quiescent_full.
Proof. exact inv_quiescent_refuted. Qed.
Print Assumptions C10_inv_quiescent_refuted.

(* readers: refuted.  A Reader holds the mmap read guard and Arc clones only: relocation of its
   region, flush (promotion of the old extent) and creation of another region there go through;
   it then yields the other region's bytes *)
Theorem C10_reader_refuted : ~ C10_reader_full.
Proof. exact reader_refuted. Qed.
Print Assumptions C10_reader_refuted.

(* the restricted reader theorem: as long as no step of the schedule writes into the reader's
   byte (in particular: as long as the old extent is not promoted and re-allocated, or punched),
   the reader yields exactly the byte the region held when its snapshot was current.  What is
   missing for the full statement is precisely what the code does not guarantee. *)
Theorem C10_reader_partial :
  forall g1 sched2 i start ln k,
    snapshot_current g1 i start ln = true -> (k <? ln) = true ->
    quiet_b g1 sched2 (start + k) = true ->
    held_along g1 sched2 i k (mem (g_st (grun g1 sched2)) (start + k)) = true.
Proof. exact reader_partial_held. Qed.
Print Assumptions C10_reader_partial.

(* the side condition is satisfiable on a schedule that contains a relocation *)
Theorem C10_reader_partial_example :
  let g1 := grun (ginit reader_cfg_noflush) reader_sched1 in
  snapshot_current g1 0 0 100 = true /\ quiet_b g1 reader_sched2 (0 + 99) = true
  /\ reader_of (grun g1 reader_sched2) 0 = Some (0, 0, 100).
Proof. exact reader_partial_applies. Qed.
Print Assumptions C10_reader_partial_example.
