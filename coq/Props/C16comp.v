(* Props/C16comp.v — C16 for the compressed format.  Statements only. *)
From Anydb Require Import Common.Base Common.LE Gen.Consts Gen.Sizes Codec.Vecdb
  Vec.CvRegion Vec.CvPages Vec.CvModel Vec.CvInv Vec.CvInst Vec.CvInstProofs.

(* COUNT: after any push/commit history from the initial import (n commits with increasing stamps, retention k > 0, no truncating commits) exactly min(k, n) consecutive rollbacks succeed, their results follow the snapshot stack (RC + C04_comp_chain_reads), and the next rollback is refused leaving the vector unchanged *)
Theorem C16_comp_count :
  forall (T : Type) (size : N) (enc : T -> list N) (dec : list N -> T)
         (compress : N -> list T -> list cell) (decompress : list cell -> N -> option (list T))
         (fmt vver : N),
       0 < size ->
       size <= MAX_UNCOMPRESSED_PAGE_SIZE ->
       (forall t : T, len (enc t) = size) ->
       (forall t : T, dec (enc t) = t) ->
       (forall (k : N) (l : list T), decompress (compress k l) (len l) = Some l) ->
       (forall (k : N) (l : list T), len l <= MAX_UNCOMPRESSED_PAGE_SIZE / size -> len (compress k l) < two32) ->
       format_code_ok fmt = true ->
       vver < two32 ->
       forall (k : N) (s0 : cvs T) (h : list (op T)),
       cv_import_k T size fmt vver k None [] [] = Ok s0 ->
       k <> 0 ->
       Forall (is_pc T) h ->
       chain_hist T size enc dec compress decompress fmt vver s0 h ->
       no_panic T size enc dec compress decompress fmt vver s0 h ->
       let s := cv_run T size enc dec compress decompress fmt vver s0 h in
       let a := ss_run T k {| ss_cur := []; ss_stamp := 0; ss_base := []; ss_undo := [] |} h in
       let m := Nat.min (N.to_nat k) (commits T h) in
       rollbacks_ok T size enc dec compress decompress fmt vver s m /\
       RC T size enc dec compress fmt vver
         (cv_run T size enc dec compress decompress fmt vver s (repeat Rollback m))
         (ss_run T k a (repeat Rollback m)) /\
       cv_step T size enc dec compress decompress fmt vver
         (cv_run T size enc dec compress decompress fmt vver s (repeat Rollback m)) Rollback =
       (cv_run T size enc dec compress decompress fmt vver s (repeat Rollback m), Err EIo).
Proof. exact comp_count. Qed.
Print Assumptions C16_comp_count.

(* the same from any state refining the reference (histories with truncations outside the known class included): as many consecutive rollbacks succeed as the reference has snapshots *)
Theorem C16_comp_count_general :
  forall (T : Type) (size : N) (enc : T -> list N) (dec : list N -> T)
         (compress : N -> list T -> list cell) (decompress : list cell -> N -> option (list T))
         (fmt vver : N),
       0 < size ->
       size <= MAX_UNCOMPRESSED_PAGE_SIZE ->
       (forall t : T, len (enc t) = size) ->
       (forall t : T, dec (enc t) = t) ->
       (forall (k : N) (l : list T), decompress (compress k l) (len l) = Some l) ->
       (forall (k : N) (l : list T), len l <= MAX_UNCOMPRESSED_PAGE_SIZE / size -> len (compress k l) < two32) ->
       vver < two32 ->
       forall (n : nat) (s : cvs T) (a : sspec T),
       RC T size enc dec compress fmt vver s a ->
       length (ss_undo T a) = n ->
       rollbacks_ok T size enc dec compress decompress fmt vver s n /\
       RC T size enc dec compress fmt vver
         (cv_run T size enc dec compress decompress fmt vver s (repeat Rollback n))
         (ss_run T (s_ssc s) a (repeat Rollback n)) /\
       ss_undo T (ss_run T (s_ssc s) a (repeat Rollback n)) = [] /\
       cv_step T size enc dec compress decompress fmt vver
         (cv_run T size enc dec compress decompress fmt vver s (repeat Rollback n)) Rollback =
       (cv_run T size enc dec compress decompress fmt vver s (repeat Rollback n), Err EIo).
Proof. exact count_rollbacks. Qed.
Print Assumptions C16_comp_count_general.

(* the reference holds min(k, n) snapshots after n commits *)
Theorem C16_comp_count_spec :
  forall (T : Type) (size : N) (compress : N -> list T -> list cell)
         (decompress : list cell -> N -> option (list T)),
       N ->
       forall vver : N,
       0 < size ->
       size <= MAX_UNCOMPRESSED_PAGE_SIZE ->
       (forall (k : N) (l : list T), decompress (compress k l) (len l) = Some l) ->
       (forall (k : N) (l : list T), len l <= MAX_UNCOMPRESSED_PAGE_SIZE / size -> len (compress k l) < two32) ->
       vver < two32 ->
       forall (k : N) (h : list (op T)) (a : sspec T),
       Forall (is_pc T) h ->
       (length (ss_undo T a) <= N.to_nat k)%nat ->
       length (ss_undo T (ss_run T k a h)) = Nat.min (N.to_nat k) (length (ss_undo T a) + commits T h).
Proof. exact ss_count. Qed.
Print Assumptions C16_comp_count_spec.

(* with no retained record for the current stamp the rollback is refused and nothing changes *)
Theorem C16_comp_beyond_retention :
  forall (T : Type) (size : N) (dec : list N -> T) (s : cvs T) (mem : list (ent T)),
       Chain T size dec s mem [] -> cv_rollback T size dec s = (s, Err EIo).
Proof. exact chain_empty. Qed.
Print Assumptions C16_comp_beyond_retention.

(* a failed single rollback leaves the vector unchanged (whatever the record bytes are) *)
Theorem C16_comp_fail_single :
  forall (T : Type) (size : N) (dec : list N -> T) (s s' : cvs T) (e : cverr),
       cv_rollback T size dec s = (s', Err e) -> s' = s.
Proof. exact rollback_fail_unchanged. Qed.
Print Assumptions C16_comp_fail_single.

(* save_change_file: at most k records, the new one present, every other one older than the new stamp and not newer than the current stamp (records of an abandoned future are dropped) *)
Theorem C16_comp_dir :
  forall (T : Type) (size : N) (compress : N -> list T -> list cell)
         (decompress : list cell -> N -> option (list T)),
       N ->
       forall vver : N,
       0 < size ->
       size <= MAX_UNCOMPRESSED_PAGE_SIZE ->
       (forall (k : N) (l : list T), decompress (compress k l) (len l) = Some l) ->
       (forall (k : N) (l : list T), len l <= MAX_UNCOMPRESSED_PAGE_SIZE / size -> len (compress k l) < two32) ->
       vver < two32 ->
       forall (s : cvs T) (stamp : N) (data : list N),
       s_ssc s <> 0 ->
       exists d : list (N * list N),
         save_change_file T s stamp data = Some d /\
         len d <= s_ssc s /\
         lookup_file d stamp = Some data /\
         Forall (fun f : N * list N => f = (stamp, data) \/ fst f < stamp /\ fst f <= cv_stamp s) d.
Proof. exact save_change_file_spec. Qed.
Print Assumptions C16_comp_dir.

(* parse_change_data o serialize_changes returns the recorded fields and consumes the record exactly (expect_end, 397122a) *)
Theorem C16_comp_record_roundtrip :
  forall (T : Type) (size : N) (enc : T -> list N) (dec : list N -> T)
         (compress : N -> list T -> list cell) (decompress : list cell -> N -> option (list T)),
       N ->
       forall vver : N,
       0 < size ->
       size <= MAX_UNCOMPRESSED_PAGE_SIZE ->
       (forall t : T, len (enc t) = size) ->
       (forall t : T, dec (enc t) = t) ->
       (forall (k : N) (l : list T), decompress (compress k l) (len l) = Some l) ->
       (forall (k : N) (l : list T), len l <= MAX_UNCOMPRESSED_PAGE_SIZE / size -> len (compress k l) < two32) ->
       vver < two32 ->
       forall (a b c : N) (tv pp pu : list T),
       a < two64 ->
       b < two64 ->
       c < two64 ->
       len tv <= b ->
       48 + size * len tv + size * len pp + size * len pu < two64 ->
       parse_change T size dec
         (u64b a ++
          u64b b ++
          u64b c ++
          u64b (len tv) ++
          values_to_bytes T enc tv ++
          u64b (len pp) ++ values_to_bytes T enc pp ++ u64b (len pu) ++ values_to_bytes T enc pu) =
       Ok
         {|
           ch_prev_stamp := a;
           ch_prev_stored_len := b;
           ch_truncated_start := b - len tv;
           ch_truncated_values := tv;
           ch_prev_pushed := pp
         |}.
Proof. exact parse_ser. Qed.
Print Assumptions C16_comp_record_roundtrip.

