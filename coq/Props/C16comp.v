(* Props/C16comp.v — C16 for the compressed format: what is proved.  Statements only.
   NOT proved: C16_comp_count (exactly min(k, n) consecutive rollbacks succeed) — false across truncating
   commits (known finding of C04) and not attempted for push-only histories. *)
From Anydb Require Import Common.Base Common.LE Gen.Consts Gen.Sizes Codec.Vecdb
  Vec.CvRegion Vec.CvPages Vec.CvModel Vec.CvInv Vec.CvInst Vec.CvInstProofs.

(* a failed single rollback leaves the vector unchanged (whatever the record bytes are) *)
Theorem C16_comp_fail_single :
  forall (T : Type) (size : N) (dec : list N -> T) (s s' : cvs T) (e : cverr),
       cv_rollback T size dec s = (s', Err e) -> s' = s.
Proof. exact rollback_fail_unchanged. Qed.
Print Assumptions C16_comp_fail_single.

(* save_change_file: at most k records, the new one present, every other one older than the new stamp and not newer than the current stamp (records of an abandoned future are dropped) *)
Theorem C16_comp_dir :
  forall (T : Type) (size : N) (compress : N -> list T -> list cell)
         (decompress : list cell -> N -> option (list T)),
       N ->
       forall vver : N,
       0 < size ->
       size <= MAX_UNCOMPRESSED_PAGE_SIZE ->
       (forall (k : N) (l : list T), decompress (compress k l) (len l) = Some l) ->
       (forall (k : N) (l : list T), len l <= MAX_UNCOMPRESSED_PAGE_SIZE / size -> len (compress k l) < two32) ->
       vver < two32 ->
       forall (s : cvs T) (stamp : N) (data : list N),
       s_ssc s <> 0 ->
       exists d : list (N * list N),
         save_change_file T s stamp data = Some d /\
         len d <= s_ssc s /\
         lookup_file d stamp = Some data /\
         Forall (fun f : N * list N => f = (stamp, data) \/ fst f < stamp /\ fst f <= cv_stamp s) d.
Proof. exact save_change_file_spec. Qed.
Print Assumptions C16_comp_dir.

(* parse_change_data o serialize_changes returns the recorded fields *)
Theorem C16_comp_record_roundtrip :
  forall (T : Type) (size : N) (enc : T -> list N) (dec : list N -> T)
         (compress : N -> list T -> list cell) (decompress : list cell -> N -> option (list T)),
       N ->
       forall vver : N,
       0 < size ->
       size <= MAX_UNCOMPRESSED_PAGE_SIZE ->
       (forall t : T, len (enc t) = size) ->
       (forall t : T, dec (enc t) = t) ->
       (forall (k : N) (l : list T), decompress (compress k l) (len l) = Some l) ->
       (forall (k : N) (l : list T), len l <= MAX_UNCOMPRESSED_PAGE_SIZE / size -> len (compress k l) < two32) ->
       vver < two32 ->
       forall (a b c : N) (tv pp pu : list T),
       a < two64 ->
       b < two64 ->
       c < two64 ->
       len tv <= b ->
       48 + size * len tv + size * len pp + size * len pu < two64 ->
       parse_change T size dec
         (u64b a ++
          u64b b ++
          u64b c ++
          u64b (len tv) ++
          values_to_bytes T enc tv ++
          u64b (len pp) ++ values_to_bytes T enc pp ++ u64b (len pu) ++ values_to_bytes T enc pu) =
       Ok
         {|
           ch_prev_stamp := a;
           ch_prev_stored_len := b;
           ch_truncated_start := b - len tv;
           ch_truncated_values := tv;
           ch_prev_pushed := pp
         |}.
Proof. exact parse_ser. Qed.
Print Assumptions C16_comp_record_roundtrip.

