(* Props/C16.v — rollback is bounded by retention and refuses rather than guesses (raw vectors; code as of
   533ea26).  Statements only.  Parser / directory / refusal theorems are for ALL byte strings, ALL records,
   ALL states and ALL element types.
   Proved at full strength: C16_record_roundtrip, C16_prefix, C16_truncation_of_any_accepted_input,
   C16_lenfields, C16_parser_total, C16_dir (whole commit; also C16_abandoned_future: nothing above the stamp
   committed from survives except the new record), C16_fail_single (EVERY refusal leaves the whole state
   unchanged), C16_missing_record_refused, C16_truncated_record_refused, C16_rollback_never_panics,
   C16_fail_before (a refused rollback_before stands exactly where n successful single rollbacks lead),
   C16_rollback_before_ok, C16_retention_zero_disables_recording.
   NOT closed unbounded: C16_count and C16_only_committed — both need "a successful rollback lands on the
   previous committed snapshot", i.e. C04_rollback_step (see Props/C04.v for what is missing); C16_count is
   proved bounded (retention 0..6 and 10, up to 8 commits), C16_only_committed follows from
   C16_fail_single + C16_fail_before + C04 where C04 holds (bounded: C04_continuation_partial). *)
From Anydb Require Import Common.Base Common.LE Vec.RegionSpec Vec.RvBase Vec.RvChange Vec.RvChangeProofs
  Vec.RvModel Vec.RvRollback Vec.RvRollbackProofs Vec.RvSpec Vec.RvInst Vec.RvFindings Vec.RvStatements.

Theorem C16_record_roundtrip :
  forall (T : Type) (tsize : N) (enc : T -> list N) (dec : list N -> T),
  0 < tsize -> (forall v, len (enc v) = tsize) -> (forall v, dec (enc v) = v) ->
  forall r, valid_record enc r -> parse_raw_change_data tsize dec (serialize_record enc r) = Ok (project_record r).
Proof. exact @parse_serialize. Qed.
Print Assumptions C16_record_roundtrip.

Theorem C16_prefix :
  forall (T : Type) (tsize : N) (enc : T -> list N) (dec : list N -> T),
  0 < tsize -> (forall v, len (enc v) = tsize) -> (forall v, dec (enc v) = v) ->
  forall r n, valid_record enc r -> n < len (serialize_record enc r) ->
  exists e, parse_raw_change_data tsize dec (take n (serialize_record enc r)) = Err e.
Proof. exact @prefix_rejected. Qed.
Print Assumptions C16_prefix.

Theorem C16_truncation_of_any_accepted_input :
  forall (T : Type) (tsize : N) (dec : list N -> T) bytes x c' m,
  parse_raw_change_cur tsize dec (mkCur bytes 0) = Ok (x, c') -> m < c_pos c' ->
  exists e, parse_raw_change_data tsize dec (take m bytes) = Err e.
Proof. exact @parse_truncated_fails. Qed.
Print Assumptions C16_truncation_of_any_accepted_input.

Theorem C16_lenfields :
  forall (T : Type) (tsize : N) (dec : list N -> T) bytes x c',
  parse_raw_change_cur tsize dec (mkCur bytes 0) = Ok (x, c') -> c_pos c' <= len bytes.
Proof. exact @parse_pos_bound. Qed.
Print Assumptions C16_lenfields.

Theorem C16_parser_total :
  forall (T : Type) (tsize : N) (dec : list N -> T) bytes, parse_raw_change_data tsize dec bytes <> Panic.
Proof. exact @parse_never_panics. Qed.
Print Assumptions C16_parser_total.

(* C16_dir and C16_abandoned_future for a whole stamped_write_with_changes *)
Theorem C16_dir :
  forall (T : Type) (tsize : N) (enc : T -> list N) (dec : list N -> T) (s : rv) (st : N),
  0 < k s ->
  exists l : list (N * list N),
    changes (fst (rv_commit tsize enc dec st s)) = Some l /\ len l <= k s /\
    nm_get st l = Some (fst (serialize_raw_changes tsize enc dec s)) /\
    (forall (x : N) (b : list N), In (x, b) l ->
       x = st \/ x < st /\ x <= stamp s /\ (exists l0 : list (N * list N), changes s = Some l0 /\ In (x, b) l0)).
Proof. exact @commit_directory. Qed.
Print Assumptions C16_dir.

(* every refused single rollback — missing, truncated, unparsable or inconsistent record — leaves the WHOLE
   state unchanged *)
Theorem C16_fail_single :
  forall (T : Type) (tsize : N), (T -> list N) -> forall (dec : list N -> T) (s s' : rv) (e : verr),
  rv_rollback tsize dec s = (s', Err e) -> s' = s.
Proof. exact @rollback_refused_unchanged. Qed.
Print Assumptions C16_fail_single.

Theorem C16_fail_before :
  forall (T : Type) (tsize : N), (T -> list N) -> forall (dec : list N -> T) (target : N) (s s' : rv) (e : verr),
  rv_rollback_before tsize dec target s = (s', Err e) -> exists n : nat, rollbacks_ok tsize dec n s s'.
Proof. exact @rollback_before_refused_reach. Qed.
Print Assumptions C16_fail_before.

Theorem C16_rollback_before_ok :
  forall (T : Type) (tsize : N), (T -> list N) -> forall (dec : list N -> T) (target : N) (s s' : rv) (st : N),
  rv_rollback_before tsize dec target s = (s', Ok st) -> exists n : nat, rollbacks_ok tsize dec n s s' /\ st = stamp s'.
Proof. exact @rollback_before_ok_reach. Qed.
Print Assumptions C16_rollback_before_ok.

Theorem C16_missing_record_refused :
  forall (T : Type) (tsize : N) (dec : list N -> T) (s : @rv T),
  read_change_file (changes s) (stamp s) = Err EIO -> rv_rollback tsize dec s = (s, Err EIO).
Proof. exact @rollback_missing_record. Qed.
Print Assumptions C16_missing_record_refused.

Theorem C16_truncated_record_refused :
  forall (T : Type) (tsize : N) (enc : T -> list N) (dec : list N -> T),
  0 < tsize -> (forall v, len (enc v) = tsize) -> (forall v, dec (enc v) = v) ->
  forall (s : @rv T) l r n,
  changes s = Some l -> nm_get (stamp s) l = Some (take n (serialize_record enc r)) ->
  valid_record enc r -> n < len (serialize_record enc r) ->
  exists e, rv_rollback tsize dec s = (s, Err e).
Proof. exact @rollback_truncated_record. Qed.
Print Assumptions C16_truncated_record_refused.

Theorem C16_rollback_never_panics :
  forall (T : Type) (tsize : N), (T -> list N) -> forall (dec : list N -> T) (s : @rv T),
  snd (rv_rollback tsize dec s) <> Panic.
Proof. exact @rollback_never_panics. Qed.
Print Assumptions C16_rollback_never_panics.

Theorem C16_rollback_before_never_panics :
  forall (T : Type) (tsize : N), (T -> list N) -> forall (dec : list N -> T) (target : N) (s : @rv T),
  snd (rv_rollback_before tsize dec target s) <> Panic.
Proof. exact @rollback_before_never_panics. Qed.
Print Assumptions C16_rollback_before_never_panics.

Theorem C16_retention_zero_disables_recording :
  forall (T : Type) (tsize : N) (enc : T -> list N) (dec : list N -> T) (s : @rv T) st,
  k s = 0 -> rv_commit tsize enc dec st s = stamped_write st s.
Proof. exact @commit_k0_is_stamped_write. Qed.
Print Assumptions C16_retention_zero_disables_recording.

Theorem C16_count_partial :
  forallb (fun k0 => forallb (count_ok k0) (seq 0 9)) [0; 1; 2; 3; 4; 5; 6; 10] = true.
Proof. exact C16_count_bounded. Qed.
Print Assumptions C16_count_partial.
