(* Props/C16.v — rollback is bounded by retention and refuses rather than guesses (raw vectors; code as of
   397122a).  Statements only.  ALL byte strings, ALL records, ALL states, ALL element types.
   Parser (a record must be consumed exactly, fix 397122a): C16_record_roundtrip, C16_prefix, C16_truncation_of_any_accepted_input
   (every strict prefix of ANY accepted input is refused), C16_trailing_bytes_rejected, C16_lenfields (an accepted
   input is consumed exactly: the cursor ends at its end), C16_parser_total.
   Directory: C16_dir (whole commit; also C16_abandoned_future).
   Refusals: C16_fail_single (EVERY refused single rollback leaves the whole state unchanged), C16_fail_before,
   C16_rollback_before_ok, C16_missing_record_refused, C16_truncated_record_refused, never-panics, retention zero.
   Retention: C16_count, UNBOUNDED — after any strict run of commits (any edits in between) with retention k > 0
   exactly min k (number of commits) successive rollbacks succeed and the next is refused with the vector unchanged;
   C16_count_from_any_state for any state satisfying K.  C16_only_committed: every successful rollback lands exactly
   on a retained committed snapshot (C04_rollback_step / C04_chain: view = snapshot contents, stamp = its stamp). *)
From Anydb Require Import Common.Base Common.LE Vec.RegionSpec Vec.RvBase Vec.RvChange Vec.RvChangeProofs
  Vec.RvModel Vec.RvRollback Vec.RvRollbackProofs Vec.RvSpec Vec.RvRefine Vec.RvChain Vec.RvInst Vec.RvFindings Vec.RvStatements.

Theorem C16_record_roundtrip :
  forall (T : Type) (tsize : N) (enc : T -> list N) (dec : list N -> T),
  0 < tsize -> (forall v, len (enc v) = tsize) -> (forall v, dec (enc v) = v) ->
  forall r, valid_record enc r -> parse_raw_change_data tsize dec (serialize_record enc r) = Ok (project_record r).
Proof. exact @parse_serialize. Qed.
Print Assumptions C16_record_roundtrip.

Theorem C16_prefix :
  forall (T : Type) (tsize : N) (enc : T -> list N) (dec : list N -> T),
  0 < tsize -> (forall v, len (enc v) = tsize) -> (forall v, dec (enc v) = v) ->
  forall r n, valid_record enc r -> n < len (serialize_record enc r) ->
  exists e, parse_raw_change_data tsize dec (take n (serialize_record enc r)) = Err e.
Proof. exact @prefix_rejected. Qed.
Print Assumptions C16_prefix.

Theorem C16_truncation_of_any_accepted_input :
  forall (T : Type) (tsize : N) (dec : list N -> T) (bytes : list N) (x : raw_change_data) (m : N),
  parse_raw_change_data tsize dec bytes = Ok x -> m < len bytes ->
  exists e : verr, parse_raw_change_data tsize dec (take m bytes) = Err e.
Proof. exact @accepted_prefix_rejected. Qed.
Print Assumptions C16_truncation_of_any_accepted_input.

Theorem C16_trailing_bytes_rejected :
  forall (T : Type) (tsize : N) (dec : list N -> T), 0 < tsize ->
  forall (bytes : list N) (x : raw_change_data) (extra : list N),
  parse_raw_change_data tsize dec bytes = Ok x -> extra <> [] ->
  exists e : verr, parse_raw_change_data tsize dec (bytes ++ extra) = Err e.
Proof. exact @trailing_bytes_rejected. Qed.
Print Assumptions C16_trailing_bytes_rejected.

(* an accepted input is consumed exactly: the length fields it carries add up to the whole input *)
Theorem C16_lenfields :
  forall (T : Type) (tsize : N) (dec : list N -> T) (bytes : list N) (x : raw_change_data),
  parse_raw_change_data tsize dec bytes = Ok x ->
  parse_raw_change_cur tsize dec (mkCur bytes 0) = Ok (x, mkCur bytes (len bytes)).
Proof. exact @parse_ok_inv. Qed.
Print Assumptions C16_lenfields.

Theorem C16_parser_total :
  forall (T : Type) (tsize : N) (dec : list N -> T) bytes, parse_raw_change_data tsize dec bytes <> Panic.
Proof. exact @parse_never_panics. Qed.
Print Assumptions C16_parser_total.

(* C16_dir and C16_abandoned_future for a whole stamped_write_with_changes *)
Theorem C16_dir :
  forall (T : Type) (tsize : N) (enc : T -> list N) (dec : list N -> T) (s : rv) (st : N),
  0 < k s ->
  exists l : list (N * list N),
    changes (fst (rv_commit tsize enc dec st s)) = Some l /\ len l <= k s /\
    nm_get st l = Some (fst (serialize_raw_changes tsize enc dec s)) /\
    (forall (x : N) (b : list N), In (x, b) l ->
       x = st \/ x < st /\ x <= stamp s /\ (exists l0 : list (N * list N), changes s = Some l0 /\ In (x, b) l0)).
Proof. exact @commit_directory. Qed.
Print Assumptions C16_dir.

(* every refused single rollback — missing, truncated, unparsable or inconsistent record — leaves the WHOLE
   state unchanged *)
Theorem C16_fail_single :
  forall (T : Type) (tsize : N), (T -> list N) -> forall (dec : list N -> T) (s s' : rv) (e : verr),
  rv_rollback tsize dec s = (s', Err e) -> s' = s.
Proof. exact @rollback_refused_unchanged. Qed.
Print Assumptions C16_fail_single.

Theorem C16_fail_before :
  forall (T : Type) (tsize : N), (T -> list N) -> forall (dec : list N -> T) (target : N) (s s' : rv) (e : verr),
  rv_rollback_before tsize dec target s = (s', Err e) -> exists n : nat, rollbacks_ok tsize dec n s s'.
Proof. exact @rollback_before_refused_reach. Qed.
Print Assumptions C16_fail_before.

Theorem C16_rollback_before_ok :
  forall (T : Type) (tsize : N), (T -> list N) -> forall (dec : list N -> T) (target : N) (s s' : rv) (st : N),
  rv_rollback_before tsize dec target s = (s', Ok st) -> exists n : nat, rollbacks_ok tsize dec n s s' /\ st = stamp s'.
Proof. exact @rollback_before_ok_reach. Qed.
Print Assumptions C16_rollback_before_ok.

Theorem C16_missing_record_refused :
  forall (T : Type) (tsize : N) (dec : list N -> T) (s : @rv T),
  read_change_file (changes s) (stamp s) = Err EIO -> rv_rollback tsize dec s = (s, Err EIO).
Proof. exact @rollback_missing_record. Qed.
Print Assumptions C16_missing_record_refused.

Theorem C16_truncated_record_refused :
  forall (T : Type) (tsize : N) (enc : T -> list N) (dec : list N -> T),
  0 < tsize -> (forall v, len (enc v) = tsize) -> (forall v, dec (enc v) = v) ->
  forall (s : @rv T) l r n,
  changes s = Some l -> nm_get (stamp s) l = Some (take n (serialize_record enc r)) ->
  valid_record enc r -> n < len (serialize_record enc r) ->
  exists e, rv_rollback tsize dec s = (s, Err e).
Proof. exact @rollback_truncated_record. Qed.
Print Assumptions C16_truncated_record_refused.

Theorem C16_rollback_never_panics :
  forall (T : Type) (tsize : N), (T -> list N) -> forall (dec : list N -> T) (s : @rv T),
  snd (rv_rollback tsize dec s) <> Panic.
Proof. exact @rollback_never_panics. Qed.
Print Assumptions C16_rollback_never_panics.

Theorem C16_rollback_before_never_panics :
  forall (T : Type) (tsize : N), (T -> list N) -> forall (dec : list N -> T) (target : N) (s : @rv T),
  snd (rv_rollback_before tsize dec target s) <> Panic.
Proof. exact @rollback_before_never_panics. Qed.
Print Assumptions C16_rollback_before_never_panics.

Theorem C16_retention_zero_disables_recording :
  forall (T : Type) (tsize : N) (enc : T -> list N) (dec : list N -> T) (s : @rv T) st,
  k s = 0 -> rv_commit tsize enc dec st s = stamped_write tsize dec st s.
Proof. exact @commit_k0_is_stamped_write. Qed.
Print Assumptions C16_retention_zero_disables_recording.

Theorem C16_count :
  forall (T : Type) (tsize : N) (enc : T -> list N) (dec : list N -> T),
  0 < tsize -> (forall v : T, len (enc v) = tsize) -> (forall v : T, dec (enc v) = v) ->
  forall (k0 : N) (h : list op), 0 < k0 -> no_rollbacks h -> final_ed false h = false ->
  strict tsize enc dec false (rv_init k0) (sv_init k0) h ->
  exists s' : rv,
    rollbacks_ok tsize dec (Nat.min (N.to_nat k0) (n_commits h)) (run tsize enc dec (rv_init k0) h) s' /\
    rv_rollback tsize dec s' = (s', Err EIO).
Proof. exact @count. Qed.
Print Assumptions C16_count.

Theorem C16_count_from_any_state :
  forall (T : Type) (tsize : N) (enc : T -> list N) (dec : list N -> T),
  0 < tsize -> (forall v : T, len (enc v) = tsize) -> (forall v : T, dec (enc v) = v) ->
  forall (s : rv) (a : sv T), K tsize enc dec s a -> Clean s ->
  exists s' : rv, rollbacks_ok tsize dec (length (committed a)) s s' /\ rv_rollback tsize dec s' = (s', Err EIO).
Proof. exact @rollback_count. Qed.
Print Assumptions C16_count_from_any_state.
