(* Props/C04comp.v — C04 for the compressed format (PcoVec / LZ4Vec / ZstdVec): rollback restores exactly the
   previously committed state, repeatedly, and the vector then behaves as if that state had just been committed.
   Statements only.
   Reference (Vec/CvInv.v): sspec = {contents, stamp, baseline, stack of committed snapshots}; ss_step k is its
   step for retention k (commit pushes (baseline, stamp) and keeps k entries; rollback pops; rollback_before pops
   while the stamp is not below the target).  RC s a = the model state s refines the reference a: invariant
   (PagesInv), baseline, and a stack of retained records each of which parses, is valid over the current pages and
   can be applied after its predecessor (`Chain`).
   chain_hist = the histories outside the known class: a truncation must not go below the truncation start of
   the retained record of the current stamp (decidable: rollback_refuses (cv_truncate s n) = false); commits use
   increasing stamps and satisfy `fits` (u64 fields / cursor positions below 2^64: usize in the code); no
   write() outside a commit, no reset, no re-import (those are covered by C03comp + C04_comp_continuation).
   Known finding C04:chained-rollback-refused-after-undoing-a-truncating-commit = the class excluded here. *)
From Anydb Require Import Common.Base Common.LE Gen.Consts Gen.Sizes Codec.Vecdb
  Vec.CvRegion Vec.CvPages Vec.CvModel Vec.CvInv Vec.CvInst Vec.CvInstProofs.

(* a commit (stamped_write_with_changes, retention > 0) writes a record that parses back and describes the baseline over the NEW pages, settles the vector and re-bases the baseline on the committed contents *)
Theorem C04_comp_commit :
  forall (T : Type) (size : N) (enc : T -> list N) (dec : list N -> T)
         (compress : N -> list T -> list cell) (decompress : list cell -> N -> option (list T))
         (fmt vver : N),
       0 < size ->
       size <= MAX_UNCOMPRESSED_PAGE_SIZE ->
       (forall t : T, len (enc t) = size) ->
       (forall t : T, dec (enc t) = t) ->
       (forall (k : N) (l : list T), decompress (compress k l) (len l) = Some l) ->
       (forall (k : N) (l : list T), len l <= MAX_UNCOMPRESSED_PAGE_SIZE / size -> len (compress k l) < two32) ->
       vver < two32 ->
       forall (s : cvs T) (hd : header) (ents mem : list (ent T)) (b : list T) (st : N) 
         (hints : list N) (s' : cvs T) (r : res cverr bool),
       InvG T size enc compress fmt vver s hd ents mem ->
       BaseOK T s mem b ->
       s_ssc s <> 0 ->
       st < two64 ->
       fits T size s ->
       cv_commit T size enc dec compress decompress s st hints = (s', r) ->
       r = Panic \/
       (exists (wb : bool) (ents' : list (ent T)) (dir : list (N * list N)) (bs : list N),
          r = Ok wb /\
          InvG T size enc compress fmt vver s' (s_hdr s') ents' ents' /\
          s_hdr_mod s' = false /\
          vals T ents' = view T s mem /\
          s_stored_len s' = len (vals T ents') /\
          s_pushed s' = [] /\
          cv_stamp s' = st /\
          s_ssc s' = s_ssc s /\
          BaseOK T s' ents' (view T s mem) /\
          s_changes s' = Some dir /\ lookup_file dir st = Some bs /\ RecOK T size dec ents' bs b (cv_stamp s)).
Proof. exact commit_ok. Qed.
Print Assumptions C04_comp_commit.

(* depth 1 at any baseline: any edits, a commit, any edits, a rollback: outside the known class the rollback returns Ok, a READ returns exactly the previous committed contents, the stamp is the previous stamp, invariant + baseline are re-established; inside the class it returns IndexTooHigh and the vector is unchanged *)
Theorem C04_comp_rollback_step :
  forall (T : Type) (size : N) (enc : T -> list N) (dec : list N -> T)
         (compress : N -> list T -> list cell) (decompress : list cell -> N -> option (list T))
         (fmt vver : N),
       0 < size ->
       size <= MAX_UNCOMPRESSED_PAGE_SIZE ->
       (forall t : T, len (enc t) = size) ->
       (forall t : T, dec (enc t) = t) ->
       (forall (k : N) (l : list T), decompress (compress k l) (len l) = Some l) ->
       (forall (k : N) (l : list T), len l <= MAX_UNCOMPRESSED_PAGE_SIZE / size -> len (compress k l) < two32) ->
       vver < two32 ->
       forall (s : cvs T) (hd : header) (ents mem : list (ent T)) (b : list T) (e1 : list (op T)) 
         (st : N) (hints : list N) (s2 : cvs T) (wb : bool) (e2 : list (op T)) (s4 : cvs T)
         (r : res cverr unit),
       InvG T size enc compress fmt vver s hd ents mem ->
       BaseOK T s mem b ->
       s_ssc s <> 0 ->
       st < two64 ->
       Forall (is_edit T) e1 ->
       Forall (is_edit T) e2 ->
       fits T size (cv_run T size enc dec compress decompress fmt vver s e1) ->
       cv_commit T size enc dec compress decompress (cv_run T size enc dec compress decompress fmt vver s e1)
         st hints = (s2, Ok wb) ->
       cv_rollback T size dec (cv_run T size enc dec compress decompress fmt vver s2 e2) = (s4, r) ->
       rollback_refuses T size dec (cv_run T size enc dec compress decompress fmt vver s2 e2) = false /\
       r = Ok tt /\
       cv_collect T size dec decompress s4 = Ok b /\
       cv_stamp s4 = cv_stamp s /\
       s_ssc s4 = s_ssc s /\
       (exists (hd4 : header) (ents4 : list (ent T)),
          InvG T size enc compress fmt vver s4 hd4 ents4 ents4 /\ BaseOK T s4 ents4 b /\ view T s4 ents4 = b) \/
       rollback_refuses T size dec (cv_run T size enc dec compress decompress fmt vver s2 e2) = true /\
       r = Err EIndexTooHigh /\ s4 = cv_run T size enc dec compress decompress fmt vver s2 e2.
Proof. exact rollback_step. Qed.
Print Assumptions C04_comp_rollback_step.

(* right after a commit (only pushes since) the rollback always succeeds *)
Theorem C04_comp_rollback_after_commit :
  forall (T : Type) (size : N) (enc : T -> list N) (dec : list N -> T)
         (compress : N -> list T -> list cell) (decompress : list cell -> N -> option (list T))
         (fmt vver : N),
       0 < size ->
       size <= MAX_UNCOMPRESSED_PAGE_SIZE ->
       (forall t : T, len (enc t) = size) ->
       (forall t : T, dec (enc t) = t) ->
       (forall (k : N) (l : list T), decompress (compress k l) (len l) = Some l) ->
       (forall (k : N) (l : list T), len l <= MAX_UNCOMPRESSED_PAGE_SIZE / size -> len (compress k l) < two32) ->
       vver < two32 ->
       forall (s : cvs T) (hd : header) (ents mem : list (ent T)) (b : list T) (e1 : list (op T)) 
         (st : N) (hints : list N) (s2 : cvs T) (wb : bool) (e2 : list (op T)) (s4 : cvs T)
         (r : res cverr unit),
       InvG T size enc compress fmt vver s hd ents mem ->
       BaseOK T s mem b ->
       s_ssc s <> 0 ->
       st < two64 ->
       Forall (is_edit T) e1 ->
       Forall (is_push T) e2 ->
       fits T size (cv_run T size enc dec compress decompress fmt vver s e1) ->
       cv_commit T size enc dec compress decompress (cv_run T size enc dec compress decompress fmt vver s e1)
         st hints = (s2, Ok wb) ->
       cv_rollback T size dec (cv_run T size enc dec compress decompress fmt vver s2 e2) = (s4, r) ->
       r = Ok tt /\ cv_collect T size dec decompress s4 = Ok b /\ cv_stamp s4 = cv_stamp s.
Proof. exact rollback_after_commit. Qed.
Print Assumptions C04_comp_rollback_after_commit.

(* ANY DEPTH: with a valid record stack the rollback succeeds, restores exactly the snapshot on top (contents, stamp), re-bases the baseline and leaves the rest of the stack valid *)
Theorem C04_comp_chain_pop :
  forall (T : Type) (size : N) (enc : T -> list N) (dec : list N -> T)
         (compress : N -> list T -> list cell) (decompress : list cell -> N -> option (list T))
         (fmt vver : N),
       0 < size ->
       size <= MAX_UNCOMPRESSED_PAGE_SIZE ->
       (forall t : T, len (enc t) = size) ->
       (forall t : T, dec (enc t) = t) ->
       (forall (k : N) (l : list T), decompress (compress k l) (len l) = Some l) ->
       (forall (k : N) (l : list T), len l <= MAX_UNCOMPRESSED_PAGE_SIZE / size -> len (compress k l) < two32) ->
       vver < two32 ->
       forall (s : cvs T) (hd : header) (ents mem : list (ent T)) (e : sent T) (rest : list (sent T))
         (s' : cvs T) (r : res cverr unit),
       InvG T size enc compress fmt vver s hd ents mem ->
       Chain T size dec s mem (e :: rest) ->
       cv_rollback T size dec s = (s', r) ->
       r = Ok tt /\
       InvG T size enc compress fmt vver s' hd ents mem /\
       view T s' mem = k_b T e /\
       cv_stamp s' = k_pst T e /\
       BaseOK T s' mem (k_b T e) /\ Chain T size dec s' mem rest /\ s_ssc s' = s_ssc s.
Proof. exact chain_rollback. Qed.
Print Assumptions C04_comp_chain_pop.

(* a commit with a stamp above the current one pushes its record and keeps the newest k-1 older ones valid over the new pages *)
Theorem C04_comp_chain_push :
  forall (T : Type) (size : N) (enc : T -> list N) (dec : list N -> T)
         (compress : N -> list T -> list cell) (decompress : list cell -> N -> option (list T))
         (fmt vver : N),
       0 < size ->
       size <= MAX_UNCOMPRESSED_PAGE_SIZE ->
       (forall t : T, len (enc t) = size) ->
       (forall t : T, dec (enc t) = t) ->
       (forall (k : N) (l : list T), decompress (compress k l) (len l) = Some l) ->
       (forall (k : N) (l : list T), len l <= MAX_UNCOMPRESSED_PAGE_SIZE / size -> len (compress k l) < two32) ->
       vver < two32 ->
       forall (s : cvs T) (hd : header) (ents mem : list (ent T)) (b : list T) (stk : list (sent T)) 
         (st : N) (hints : list N) (s' : cvs T) (wb : bool),
       InvG T size enc compress fmt vver s hd ents mem ->
       BaseOK T s mem b ->
       Chain T size dec s mem stk ->
       s_ssc s <> 0 ->
       cv_stamp s < st ->
       st < two64 ->
       fits T size s ->
       cv_commit T size enc dec compress decompress s st hints = (s', Ok wb) ->
       exists (ents' : list (ent T)) (bs : list N),
         InvG T size enc compress fmt vver s' (s_hdr s') ents' ents' /\
         vals T ents' = view T s mem /\
         view T s' ents' = view T s mem /\
         cv_stamp s' = st /\
         s_ssc s' = s_ssc s /\
         BaseOK T s' ents' (view T s mem) /\
         Chain T size dec s' ents'
           ({| k_st := st; k_bs := bs; k_b := b; k_pst := cv_stamp s |}
            :: firstn (N.to_nat (s_ssc s - 1)) stk).
Proof. exact chain_commit. Qed.
Print Assumptions C04_comp_chain_push.

(* one step of a commit/rollback history (push, truncate outside the class, commit, rollback, rollback_before) refines the snapshot-stack reference *)
Theorem C04_comp_chain_step :
  forall (T : Type) (size : N) (enc : T -> list N) (dec : list N -> T)
         (compress : N -> list T -> list cell) (decompress : list cell -> N -> option (list T))
         (fmt vver : N),
       0 < size ->
       size <= MAX_UNCOMPRESSED_PAGE_SIZE ->
       (forall t : T, len (enc t) = size) ->
       (forall t : T, dec (enc t) = t) ->
       (forall (k : N) (l : list T), decompress (compress k l) (len l) = Some l) ->
       (forall (k : N) (l : list T), len l <= MAX_UNCOMPRESSED_PAGE_SIZE / size -> len (compress k l) < two32) ->
       vver < two32 ->
       forall (s : cvs T) (a : sspec T) (o : op T) (s' : cvs T) (r : res cverr bool),
       RC T size enc dec compress fmt vver s a ->
       s_ssc s <> 0 ->
       cop_ok T size dec s o ->
       cv_step T size enc dec compress decompress fmt vver s o = (s', r) ->
       r = Panic \/
       RC T size enc dec compress fmt vver s' (ss_step T (s_ssc s) a o) /\
       s_ssc s' = s_ssc s /\
       match o with
       | Rollback => r = match ss_undo T a with
                         | [] => Err EIo
                         | _ :: _ => Ok false
                         end
       | RollbackBefore _ => r = Ok false \/ r = Err EIo /\ s_changes s = None
       | _ => exists b : bool, r = Ok b
       end.
Proof. exact chain_step. Qed.
Print Assumptions C04_comp_chain_step.

(* all commit/rollback histories outside the known class, any length, any rollback depth, any interleaving *)
Theorem C04_comp_chain :
  forall (T : Type) (size : N) (enc : T -> list N) (dec : list N -> T)
         (compress : N -> list T -> list cell) (decompress : list cell -> N -> option (list T))
         (fmt vver : N),
       0 < size ->
       size <= MAX_UNCOMPRESSED_PAGE_SIZE ->
       (forall t : T, len (enc t) = size) ->
       (forall t : T, dec (enc t) = t) ->
       (forall (k : N) (l : list T), decompress (compress k l) (len l) = Some l) ->
       (forall (k : N) (l : list T), len l <= MAX_UNCOMPRESSED_PAGE_SIZE / size -> len (compress k l) < two32) ->
       vver < two32 ->
       forall (h : list (op T)) (s : cvs T) (a : sspec T),
       RC T size enc dec compress fmt vver s a ->
       s_ssc s <> 0 ->
       chain_hist T size enc dec compress decompress fmt vver s h ->
       no_panic T size enc dec compress decompress fmt vver s h ->
       RC T size enc dec compress fmt vver (cv_run T size enc dec compress decompress fmt vver s h)
         (ss_run T (s_ssc s) a h) /\ s_ssc (cv_run T size enc dec compress decompress fmt vver s h) = s_ssc s.
Proof. exact chain_run. Qed.
Print Assumptions C04_comp_chain.

(* the refinement is about what a READ returns and about the stamp *)
Theorem C04_comp_chain_reads :
  forall (T : Type) (size : N) (enc : T -> list N) (dec : list N -> T)
         (compress : N -> list T -> list cell) (decompress : list cell -> N -> option (list T))
         (fmt vver : N),
       0 < size ->
       size <= MAX_UNCOMPRESSED_PAGE_SIZE ->
       (forall t : T, len (enc t) = size) ->
       (forall t : T, dec (enc t) = t) ->
       (forall (k : N) (l : list T), decompress (compress k l) (len l) = Some l) ->
       (forall (k : N) (l : list T), len l <= MAX_UNCOMPRESSED_PAGE_SIZE / size -> len (compress k l) < two32) ->
       vver < two32 ->
       forall (s : cvs T) (a : sspec T),
       RC T size enc dec compress fmt vver s a ->
       cv_collect T size dec decompress s = Ok (ss_cur T a) /\ cv_stamp s = ss_stamp T a.
Proof. exact RC_collect. Qed.
Print Assumptions C04_comp_chain_reads.

(* rollback_before(t) outside the known class never stops midway: it ends exactly where the reference walk ends *)
Theorem C04_comp_rollback_before :
  forall (T : Type) (size : N) (enc : T -> list N) (dec : list N -> T)
         (compress : N -> list T -> list cell) (decompress : list cell -> N -> option (list T))
         (fmt vver : N),
       0 < size ->
       size <= MAX_UNCOMPRESSED_PAGE_SIZE ->
       (forall t : T, len (enc t) = size) ->
       (forall t : T, dec (enc t) = t) ->
       (forall (k : N) (l : list T), decompress (compress k l) (len l) = Some l) ->
       (forall (k : N) (l : list T), len l <= MAX_UNCOMPRESSED_PAGE_SIZE / size -> len (compress k l) < two32) ->
       vver < two32 ->
       forall (s : cvs T) (a : sspec T) (t : N) (s' : cvs T) (r : res cverr bool),
       RC T size enc dec compress fmt vver s a ->
       cv_step T size enc dec compress decompress fmt vver s (RollbackBefore t) = (s', r) ->
       RC T size enc dec compress fmt vver s'
         (ss_rb T (ss_undo T a) (ss_cur T a) (ss_stamp T a) (ss_base T a) t) /\
       s_ssc s' = s_ssc s /\ (r = Ok false \/ r = Err EIo /\ s_changes s = None /\ s' = s).
Proof. exact rollback_before_RC. Qed.
Print Assumptions C04_comp_rollback_before.

(* the reference walk ends on a snapshot whose stamp is below the target or on the oldest retained one, having popped only snapshots reached at stamps not below the target *)
Theorem C04_comp_rollback_before_ends :
  forall (T : Type) (t : N) (undo : list (list T * N)) (cur : list T) (stamp : N) (base : list T),
       let a' := ss_rb T undo cur stamp base t in
       (ss_stamp T a' < t \/ ss_undo T a' = []) /\
       (exists pre : list (list T * N),
          undo = pre ++ ss_undo T a' /\
          (pre = [] -> ss_cur T a' = cur /\ ss_stamp T a' = stamp) /\
          (pre <> [] ->
           t <= stamp /\ (exists pre' : list (list T * N), pre = pre' ++ [(ss_cur T a', ss_stamp T a')]))).
Proof. exact ss_rb_ends. Qed.
Print Assumptions C04_comp_rollback_before_ends.

(* whatever the records are: when rollback_before stops (Ok or error) the vector is in the state reached by the rollbacks that succeeded (each exact by C04_comp_chain_pop when its record is valid): a refusal midway leaves a committed state it passed through *)
Theorem C04_comp_rollback_before_refusal :
  forall (T : Type) (size : N) (dec : list N -> T) (s : cvs T) (t : N) (s' : cvs T) (r : res cverr unit),
       cv_rollback_before T size dec s t = (s', r) -> rolled T size dec s s'.
Proof. exact rollback_before_passed. Qed.
Print Assumptions C04_comp_rollback_before_refusal.

(* continuation: the state after a rollback is R-related (C03) to the reference vector holding the restored contents and stamp, so C07_pages_inv, C03_refines_comp and the read theorems apply to ANY continuation (writes, re-imports, reset included) *)
Theorem C04_comp_continuation :
  forall (T : Type) (size : N) (enc : T -> list N) (compress : N -> list T -> list cell) 
         (fmt vver : N) (s4 : cvs T) (hd4 : header) (ents4 : list (ent T)) (b : list T),
       InvG T size enc compress fmt vver s4 hd4 ents4 ents4 ->
       view T s4 ents4 = b ->
       exists a : spec T, a_cur T a = b /\ a_stamp T a = cv_stamp s4 /\ R T size enc compress fmt vver s4 a.
Proof. exact rollback_continuation. Qed.
Print Assumptions C04_comp_continuation.

(* the full statement "a retained record is never refused" is refuted by the faithful model: *)
Definition C04_comp_chain_full : Prop := C04_comp_chain_full_stmt.
(* witness (also the replay): push 0..3, commit 1, push 9, commit 2, truncate to 1, commit 3, rollback (exact), rollback -> IndexTooHigh *)
Theorem C04_comp_chain_refuted :
  ~ C04_comp_chain_full_stmt.
Proof. exact x_chain_refuted. Qed.
Print Assumptions C04_comp_chain_refuted.

