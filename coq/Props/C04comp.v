(* Props/C04comp.v — C04 for the compressed format (PcoVec / LZ4Vec / ZstdVec): rollback restores exactly the
   previously committed state, and the vector then behaves as if that state had just been committed.
   Statements only.  BaseOK s mem b = "the change baseline of s (prev_stored_len, prev_pushed over the pages
   mem) describes the contents b"; it holds after import, after every commit and after every rollback.
   `fits` = the u64 fields / cursor positions of the record stay below 2^64 (usize in the code).
   KnownClass (decidable): `rollback_refuses s` = the stored length lies below the truncation start of the
   retained record of the current stamp — the state after undoing a truncating commit without a write()
   in between (known finding C04:chained-rollback-refused-after-undoing-a-truncating-commit), or after an
   uncommitted truncation. *)
From Anydb Require Import Common.Base Common.LE Gen.Consts Gen.Sizes Codec.Vecdb
  Vec.CvRegion Vec.CvPages Vec.CvModel Vec.CvInv Vec.CvInst Vec.CvInstProofs.

(* a commit (stamped_write_with_changes, retention > 0) writes a record that parses back and describes the baseline over the NEW pages, settles the vector and re-bases the baseline on the committed contents *)
Theorem C04_comp_commit :
  forall (T : Type) (size : N) (enc : T -> list N) (dec : list N -> T)
         (compress : N -> list T -> list cell) (decompress : list cell -> N -> option (list T))
         (fmt vver : N),
       0 < size ->
       size <= MAX_UNCOMPRESSED_PAGE_SIZE ->
       (forall t : T, len (enc t) = size) ->
       (forall t : T, dec (enc t) = t) ->
       (forall (k : N) (l : list T), decompress (compress k l) (len l) = Some l) ->
       (forall (k : N) (l : list T), len l <= MAX_UNCOMPRESSED_PAGE_SIZE / size -> len (compress k l) < two32) ->
       vver < two32 ->
       forall (s : cvs T) (hd : header) (ents mem : list (ent T)) (b : list T) (st : N) 
         (hints : list N) (s' : cvs T) (r : res cverr bool),
       InvG T size enc compress fmt vver s hd ents mem ->
       BaseOK T s mem b ->
       s_ssc s <> 0 ->
       st < two64 ->
       fits T size s ->
       cv_commit T size enc dec compress decompress s st hints = (s', r) ->
       r = Panic \/
       (exists (wb : bool) (ents' : list (ent T)) (dir : list (N * list N)) (bs : list N),
          r = Ok wb /\
          InvG T size enc compress fmt vver s' (s_hdr s') ents' ents' /\
          s_hdr_mod s' = false /\
          vals T ents' = view T s mem /\
          s_stored_len s' = len (vals T ents') /\
          s_pushed s' = [] /\
          cv_stamp s' = st /\
          s_ssc s' = s_ssc s /\
          BaseOK T s' ents' (view T s mem) /\
          s_changes s' = Some dir /\ lookup_file dir st = Some bs /\ RecOK T size dec ents' bs b (cv_stamp s)).
Proof. exact commit_ok. Qed.
Print Assumptions C04_comp_commit.

(* any edits, a commit, any edits, a rollback: outside the known class the rollback returns Ok, a READ returns exactly the previous committed contents, the stamp is the previous stamp, and invariant + baseline are re-established; inside the class it returns IndexTooHigh and the vector is unchanged *)
Theorem C04_comp_rollback_step :
  forall (T : Type) (size : N) (enc : T -> list N) (dec : list N -> T)
         (compress : N -> list T -> list cell) (decompress : list cell -> N -> option (list T))
         (fmt vver : N),
       0 < size ->
       size <= MAX_UNCOMPRESSED_PAGE_SIZE ->
       (forall t : T, len (enc t) = size) ->
       (forall t : T, dec (enc t) = t) ->
       (forall (k : N) (l : list T), decompress (compress k l) (len l) = Some l) ->
       (forall (k : N) (l : list T), len l <= MAX_UNCOMPRESSED_PAGE_SIZE / size -> len (compress k l) < two32) ->
       vver < two32 ->
       forall (s : cvs T) (hd : header) (ents mem : list (ent T)) (b : list T) (e1 : list (op T)) 
         (st : N) (hints : list N) (s2 : cvs T) (wb : bool) (e2 : list (op T)) (s4 : cvs T)
         (r : res cverr unit),
       InvG T size enc compress fmt vver s hd ents mem ->
       BaseOK T s mem b ->
       s_ssc s <> 0 ->
       st < two64 ->
       Forall (is_edit T) e1 ->
       Forall (is_edit T) e2 ->
       fits T size (cv_run T size enc dec compress decompress fmt vver s e1) ->
       cv_commit T size enc dec compress decompress (cv_run T size enc dec compress decompress fmt vver s e1)
         st hints = (s2, Ok wb) ->
       cv_rollback T size dec (cv_run T size enc dec compress decompress fmt vver s2 e2) = (s4, r) ->
       rollback_refuses T size dec (cv_run T size enc dec compress decompress fmt vver s2 e2) = false /\
       r = Ok tt /\
       cv_collect T size dec decompress s4 = Ok b /\
       cv_stamp s4 = cv_stamp s /\
       s_ssc s4 = s_ssc s /\
       (exists (hd4 : header) (ents4 : list (ent T)),
          InvG T size enc compress fmt vver s4 hd4 ents4 ents4 /\ BaseOK T s4 ents4 b /\ view T s4 ents4 = b) \/
       rollback_refuses T size dec (cv_run T size enc dec compress decompress fmt vver s2 e2) = true /\
       r = Err EIndexTooHigh /\ s4 = cv_run T size enc dec compress decompress fmt vver s2 e2.
Proof. exact rollback_step. Qed.
Print Assumptions C04_comp_rollback_step.

(* right after a commit (only pushes since) the rollback always succeeds *)
Theorem C04_comp_rollback_after_commit :
  forall (T : Type) (size : N) (enc : T -> list N) (dec : list N -> T)
         (compress : N -> list T -> list cell) (decompress : list cell -> N -> option (list T))
         (fmt vver : N),
       0 < size ->
       size <= MAX_UNCOMPRESSED_PAGE_SIZE ->
       (forall t : T, len (enc t) = size) ->
       (forall t : T, dec (enc t) = t) ->
       (forall (k : N) (l : list T), decompress (compress k l) (len l) = Some l) ->
       (forall (k : N) (l : list T), len l <= MAX_UNCOMPRESSED_PAGE_SIZE / size -> len (compress k l) < two32) ->
       vver < two32 ->
       forall (s : cvs T) (hd : header) (ents mem : list (ent T)) (b : list T) (e1 : list (op T)) 
         (st : N) (hints : list N) (s2 : cvs T) (wb : bool) (e2 : list (op T)) (s4 : cvs T)
         (r : res cverr unit),
       InvG T size enc compress fmt vver s hd ents mem ->
       BaseOK T s mem b ->
       s_ssc s <> 0 ->
       st < two64 ->
       Forall (is_edit T) e1 ->
       Forall (is_push T) e2 ->
       fits T size (cv_run T size enc dec compress decompress fmt vver s e1) ->
       cv_commit T size enc dec compress decompress (cv_run T size enc dec compress decompress fmt vver s e1)
         st hints = (s2, Ok wb) ->
       cv_rollback T size dec (cv_run T size enc dec compress decompress fmt vver s2 e2) = (s4, r) ->
       r = Ok tt /\ cv_collect T size dec decompress s4 = Ok b /\ cv_stamp s4 = cv_stamp s.
Proof. exact rollback_after_commit. Qed.
Print Assumptions C04_comp_rollback_after_commit.

(* continuation: the state after a rollback satisfies the invariant with memory = disk pages and is R-related to the reference vector holding the restored contents and stamp, so C07_pages_inv, C03_refines_comp and C07/C03 reads apply to ANY continuation (edits, writes, commits, re-imports), and C04_comp_rollback_step applies to the next commit/rollback *)
Theorem C04_comp_continuation :
  forall (T : Type) (size : N) (enc : T -> list N) (compress : N -> list T -> list cell) 
         (fmt vver : N) (s4 : cvs T) (hd4 : header) (ents4 : list (ent T)) (b : list T),
       InvG T size enc compress fmt vver s4 hd4 ents4 ents4 ->
       view T s4 ents4 = b ->
       exists a : spec T, a_cur T a = b /\ a_stamp T a = cv_stamp s4 /\ R T size enc compress fmt vver s4 a.
Proof. exact rollback_continuation. Qed.
Print Assumptions C04_comp_continuation.

(* the full statement "a retained record is never refused" is refuted by the faithful model: *)
Definition C04_comp_chain_full : Prop := C04_comp_chain_full_stmt.
(* witness (also the replay): push 0..3, commit 1, push 9, commit 2, truncate to 1, commit 3, rollback (exact), rollback -> IndexTooHigh *)
Theorem C04_comp_chain_refuted :
  ~ C04_comp_chain_full_stmt.
Proof. exact x_chain_refuted. Qed.
Print Assumptions C04_comp_chain_refuted.

