#!/bin/sh
# Run once after a fresh restore (offline): builds the harness from /repo, regenerates coq/Gen,
# builds the whole Coq development (full .vo), extracts and builds the OCaml driver.
set -e
cd "$(dirname "$0")"
export CARGO_NET_OFFLINE=true
[ -f harness/Cargo.lock ] || cp /repo/Cargo.lock harness/Cargo.lock
(cd harness && cargo build --offline -q && cargo build --offline -q --release)
ANYDB_HARNESS_BIN="$PWD/harness/target/debug/anydb_verif_harness" python3 tools/gen_consts.py
for g in tools/gen_*.py; do [ "$g" = tools/gen_consts.py ] || python3 "$g"; done
python3 tools/mkcoqproject.py
timeout 3000 make -C coq -j16
sh ocaml/build.sh
echo "setup ok"
