//! Helpers shared by the engines: argument parsing, compact byte-string syntax, panic capture.
use std::panic::{AssertUnwindSafe, catch_unwind};

pub struct Args {
    pub seed: u64,
    pub cases: u64,
    pub replay: Option<String>,
    pub rest: Vec<String>,
}

pub fn parse_args(args: &[String]) -> Args {
    let mut a = Args { seed: 1, cases: 100, replay: None, rest: vec![] };
    let mut i = 0;
    while i < args.len() {
        match args[i].as_str() {
            "--seed" => { a.seed = args[i + 1].parse().unwrap(); i += 1 }
            "--cases" => { a.cases = args[i + 1].parse().unwrap(); i += 1 }
            "--replay" => { a.replay = Some(args[i + 1].clone()); i += 1 }
            other => a.rest.push(other.to_string()),
        }
        i += 1;
    }
    a
}

/// `I <id> <tokens…>` lines of a replay file.
pub fn replay_inputs(path: &str) -> Vec<(String, String)> {
    let text = std::fs::read_to_string(path).expect("replay file");
    text.lines()
        .filter_map(|l| {
            let mut it = l.splitn(3, ' ');
            match (it.next(), it.next(), it.next()) {
                (Some("I"), Some(id), Some(rest)) => Some((id.to_string(), rest.to_string())),
                _ => None,
            }
        })
        .collect()
}

/// compact byte-string syntax shared with the OCaml driver:
/// segments separated by ',' : h<hex> | z<count> | r<byte>x<count> ; "-" is empty
pub fn spec_to_bytes(spec: &str) -> Vec<u8> {
    let mut out = vec![];
    if spec == "-" {
        return out;
    }
    for seg in spec.split(',') {
        let (k, rest) = seg.split_at(1);
        match k {
            "h" => out.extend(crate::rng::unhex(rest)),
            "z" => out.extend(std::iter::repeat(0u8).take(rest.parse().unwrap())),
            "r" => {
                let (b, c) = rest.split_once('x').unwrap();
                out.extend(std::iter::repeat(b.parse::<u8>().unwrap()).take(c.parse().unwrap()));
            }
            _ => panic!("bad spec"),
        }
    }
    out
}

/// `R <id> <input>`: printed BEFORE a case is executed.  Should the process die inside the case
/// (abort on allocation failure, stack overflow, SIGBUS on a mapping), the check finds the input
/// that was running in the last `R` line of the trace and reports it as the failing input.
pub fn running(id: &str, input: &str) {
    println!("R {id} {input}");
}

pub fn quiet_panics() {
    std::panic::set_hook(Box::new(|_| {}));
}

/// Run `f`; a panic becomes the observation "panic".
pub fn guard<F: FnOnce() -> String>(f: F) -> String {
    match catch_unwind(AssertUnwindSafe(f)) {
        Ok(s) => s,
        Err(_) => "panic".into(),
    }
}
