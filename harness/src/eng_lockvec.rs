//! vecdb scenarios of engine `locks` (C11): BytesVec (raw) and PcoVec (compressed) through
//! push/write/flush/truncate/reset/stamped_write_with_changes/rollback/import, every read path
//! (collect, ranges, folds, read-only clones, CachedVec, both compressed sources — the IO source
//! is reached by making `MMAP_CROSSOVER_BYTES` small), EagerVec compute with Exit; and the
//! real-thread replay scenarios of the vecdb deadlock classes.
//! (Discovered as an engine module because of its file name; it has no command of its own.)
use crate::eng_locks::{record, Ins, Lk, Prog, Scenario};
use crate::eng_lockscen::{world, W};
use rawdb::{Database, PAGE_SIZE};
use vecdb::{AnyStoredVec, AnyVec, BytesVec, CachedVec, EagerVec, Exit, ImportableVec, PcoVec, ReadableVec, Stamp, StoredVec, Version, WritableVec};

pub fn run(_args: &[String]) -> i32 {
    eprintln!("`lockvec` is the vecdb scenario module of engine `locks`; use `harness locks …`");
    2
}

fn res<T, E: std::fmt::Debug>(r: Result<T, E>) -> String {
    match r {
        Ok(_) => "ok".into(),
        Err(e) => format!("err:{}", format!("{e:?}").split(|c: char| !c.is_alphanumeric()).next().unwrap_or("")),
    }
}

/// `&mut self` operations on one vector exclude each other and `&self` operations on the same
/// object (the borrow checker, or the lock the user wraps the vector in): modelled as a gate
/// lock `vecmut` of the vector, held in write / read mode for the whole operation.  Read-only
/// clones, CachedVec and imports are separate objects: no gate.
fn gate_of(name: &str) -> Option<bool> {
    let op = name.split_once('.').map(|x| x.1).unwrap_or("");
    let excl = ["push", "write", "flush", "truncate", "stamped_write", "rollback", "reset", "remove", "eager.compute", "eager.flush"];
    let shared = ["read.", "stamp_version", "eager.collect", "ro.clone"];
    if excl.iter().any(|p| op.starts_with(p)) {
        Some(true)
    } else if shared.iter().any(|p| op.starts_with(p)) {
        Some(false)
    } else {
        None
    }
}

fn rec(out: &mut Vec<Prog>, name: String, db: &Database, f: impl FnOnce() -> String) {
    let (mut ins, mut notes, r) = record(db, f);
    notes.push(format!("result {r}"));
    if let (Some(w), false) = (gate_of(&name), ins.is_empty()) {
        let g = Lk { class: "vecmut".to_string(), inst: 1 };
        ins.insert(0, Ins::Acq(g.clone(), w));
        ins.push(Ins::Rel(g));
    }
    out.push(Prog { name, ins, notes });
}

fn val(i: u64) -> u64 {
    i.wrapping_mul(2654435761).wrapping_add(i >> 3) & 0xff_ffff_ffff
}

const MIB: usize = 1024 * 1024;

macro_rules! vec_ops {
    ($out:ident, $tag:expr, $ty:ty) => {{
        let w = world();
        let db = &w.db;
        let t = $tag;
        rec($out, format!("{t}.import.new"), db, || res(<$ty as ImportableVec>::forced_import(db, "n", Version::ONE).map(|_| ())));
        let mut v: $ty = <$ty as ImportableVec>::forced_import(db, "v", Version::ONE).unwrap();
        rec($out, format!("{t}.push"), db, || {
            for i in 0..3000u64 {
                v.push(val(i));
            }
            "ok".into()
        });
        rec($out, format!("{t}.read.pushed_only"), db, || format!("ok{}", v.collect().len()));
        rec($out, format!("{t}.write.first"), db, || res(v.write()));
        rec($out, format!("{t}.write.nothing"), db, || res(v.write()));
        rec($out, format!("{t}.flush"), db, || res(v.flush()));
        for i in 0..10u64 {
            v.push(val(i));
        }
        rec($out, format!("{t}.write.append_small"), db, || res(v.write()));
        for i in 0..10u64 {
            v.push(val(i));
        }
        rec($out, format!("{t}.write.append_small2"), db, || res(v.write()));
        for i in 0..40000u64 {
            v.push(val(i));
        }
        rec($out, format!("{t}.write.append_pages"), db, || res(v.write()));
        for i in 0..400000u64 {
            v.push(val(i));
        }
        rec($out, format!("{t}.write.append_growth"), db, || res(v.write()));
        rec($out, format!("{t}.flush.after_growth"), db, || res(v.flush()));
        // reads
        rec($out, format!("{t}.read.collect"), db, || format!("ok{}", v.collect().len()));
        rec($out, format!("{t}.read.collect_range"), db, || format!("ok{}", v.collect_range_at(10, 5000).len()));
        rec($out, format!("{t}.read.collect_one"), db, || format!("ok{}", v.collect_one_at(5).is_some()));
        rec($out, format!("{t}.read.fold"), db, || format!("ok{}", v.fold_range_at(0, 9000, 0u64, |a, b| a ^ b) & 1));
        rec($out, format!("{t}.read.try_fold"), db, || format!("ok{}", v.try_fold_range_at(0, 9000, 0u64, |a, b| Ok::<u64, ()>(a ^ b)).is_ok()));
        rec($out, format!("{t}.read.for_each_dyn"), db, || {
            let mut n = 0;
            v.for_each_range_dyn_at(0, 9000, &mut |_| n += 1);
            format!("ok{n}")
        });
        rec($out, format!("{t}.read.sorted"), db, || format!("ok{}", v.read_sorted_at(&[1, 5, 9000]).len()));
        rec($out, format!("{t}.read.cursor"), db, || {
            let mut c = v.cursor();
            let a = c.get(7).is_some();
            let b = c.get(20000).is_some();
            format!("ok{a}{b}")
        });
        rec($out, format!("{t}.read.min_max_sum"), db, || format!("ok{}{}", v.min_at(0, 100).is_some(), v.max_at(0, 100).is_some()));
        v.push(1);
        rec($out, format!("{t}.read.collect_dirty"), db, || format!("ok{}", v.collect_range_at(100, usize::MAX).len()));
        rec($out, format!("{t}.read.fold_dirty"), db, || format!("ok{}", v.fold_range_at(0, usize::MAX, 0u64, |a, b| a ^ b) & 1));
        let ro = <$ty as StoredVec>::read_only_clone(&v);
        rec($out, format!("{t}.ro.clone"), db, || {
            let _ = <$ty as StoredVec>::read_only_clone(&v);
            "ok".into()
        });
        rec($out, format!("{t}.ro.collect"), db, || format!("ok{}", ro.collect().len()));
        rec($out, format!("{t}.ro.collect_range"), db, || format!("ok{}", ro.collect_range_at(10, 5000).len()));
        rec($out, format!("{t}.ro.fold"), db, || format!("ok{}", ro.fold_range_at(0, 9000, 0u64, |a, b| a ^ b) & 1));
        rec($out, format!("{t}.ro.try_fold"), db, || format!("ok{}", ro.try_fold_range_at(0, 9000, 0u64, |a, b| Ok::<u64, ()>(a ^ b)).is_ok()));
        rec($out, format!("{t}.ro.collect_one"), db, || format!("ok{}", ro.collect_one_at(5).is_some()));
        rec($out, format!("{t}.ro.len_version"), db, || format!("ok{}{:?}", ro.len(), ro.version()));
        // the IO sources
        vecdb::verif_hooks::MMAP_CROSSOVER_BYTES.set(64);
        rec($out, format!("{t}.read.fold_io"), db, || format!("ok{}", v.fold_range_at(0, 9000, 0u64, |a, b| a ^ b) & 1));
        rec($out, format!("{t}.read.try_fold_io"), db, || format!("ok{}", v.try_fold_range_at(0, 9000, 0u64, |a, b| Ok::<u64, ()>(a ^ b)).is_ok()));
        rec($out, format!("{t}.ro.fold_io"), db, || format!("ok{}", ro.fold_range_at(0, 9000, 0u64, |a, b| a ^ b) & 1));
        rec($out, format!("{t}.ro.collect_io"), db, || format!("ok{}", ro.collect().len()));
        vecdb::verif_hooks::MMAP_CROSSOVER_BYTES.set(1024 * 1024 * 1024);
        // cached
        let cached = CachedVec::wrap(<$ty as StoredVec>::read_only_clone(&v));
        rec($out, format!("{t}.cached.miss"), db, || format!("ok{}", cached.cached().len()));
        rec($out, format!("{t}.cached.hit"), db, || format!("ok{}", cached.get_at(3).is_some()));
        rec($out, format!("{t}.cached.clear"), db, || {
            cached.clear();
            "ok".into()
        });
        // truncate / stamped writes / rollback / reset
        rec($out, format!("{t}.truncate"), db, || res(v.truncate_if_needed_at(3500)));
        rec($out, format!("{t}.write.after_truncate"), db, || res(v.write()));
        rec($out, format!("{t}.stamped_write_with_changes.1"), db, || res(v.stamped_write_with_changes(Stamp::new(1))));
        for i in 0..50u64 {
            v.push(val(i));
        }
        rec($out, format!("{t}.stamped_write_with_changes.2"), db, || res(v.stamped_write_with_changes(Stamp::new(2))));
        let _ = v.truncate_if_needed_at(3000);
        rec($out, format!("{t}.stamped_write_with_changes.3_truncating"), db, || res(v.stamped_write_with_changes(Stamp::new(3))));
        rec($out, format!("{t}.rollback"), db, || res(v.rollback()));
        rec($out, format!("{t}.write.after_rollback"), db, || res(v.write()));
        rec($out, format!("{t}.stamped_write"), db, || res(v.stamped_write(Stamp::new(9))));
        rec($out, format!("{t}.stamp_version"), db, || format!("ok{:?}{:?}", v.stamp(), v.version()));
        rec($out, format!("{t}.reset"), db, || res(v.reset()));
        rec($out, format!("{t}.write.after_reset"), db, || res(v.write()));
        for i in 0..100u64 {
            v.push(val(i));
        }
        let _ = v.flush();
        drop(ro);
        drop(cached);
        drop(v);
        rec($out, format!("{t}.import.existing"), db, || res(<$ty as ImportableVec>::import(db, "v", Version::ONE).map(|_| ())));
        rec($out, format!("{t}.forced_import.other_version"), db, || res(<$ty as ImportableVec>::forced_import(db, "v", Version::TWO).map(|_| ())));
        let v2: $ty = <$ty as ImportableVec>::forced_import(db, "v", Version::TWO).unwrap();
        rec($out, format!("{t}.remove"), db, || res(v2.remove()));
        // computed vector under Exit
        let mut src: $ty = <$ty as ImportableVec>::forced_import(db, "src", Version::ONE).unwrap();
        for i in 0..5000u64 {
            src.push(val(i));
        }
        src.flush().unwrap();
        let exit = Exit::new();
        let mut e: EagerVec<$ty> = EagerVec::forced_import(db, "e", Version::ONE).unwrap();
        rec($out, format!("{t}.eager.compute_transform"), db, || res(e.compute_transform(0usize, &src, |(i, x, _)| (i, x ^ 1), &exit)));
        rec($out, format!("{t}.eager.compute_transform.again"), db, || res(e.compute_transform(0usize, &src, |(i, x, _)| (i, x ^ 1), &exit)));
        rec($out, format!("{t}.eager.flush"), db, || res(e.flush()));
        rec($out, format!("{t}.eager.collect"), db, || format!("ok{}", e.collect().len()));
    }};
}

pub fn vec_scenarios(out: &mut Vec<Prog>) {
    vec_ops!(out, "bytes", BytesVec<usize, u64>);
    vec_ops!(out, "pco", PcoVec<usize, u64>);
    {
        let (w, mut v) = index_growth_world();
        rec(out, "pco.write.index_growth".to_string(), &w.db, || res(v.write()));
    }
    {
        // compact() as it runs next to that write(): the vector's data region has just been
        // written (dirty data + dirty length), everything else is clean
        let (w, v) = index_growth_world();
        v.region().write(&[0u8; 80]).unwrap();
        rec(out, "rawdb.compact.index_growth_world".to_string(), &w.db, || res(w.db.compact()));
    }
}

/// Pads the database so that it has no holes and its last region ends exactly at the end of the
/// file: the next allocation at the end has to grow the file.
fn pad_exact(db: &Database) {
    db.flush().unwrap();
    let mut k = 0;
    loop {
        let (holes, len) = {
            let l = db.layout();
            (l.start_to_hole().len(), l.len())
        };
        let file_len = db.file_len();
        if holes == 0 && len >= file_len {
            break;
        }
        let r = db.create_region_if_needed(&format!("pad{k}")).unwrap();
        k += 1;
        if holes == 0 {
            // r is the last region (one page); give it the largest power-of-two number of pages
            // that still fits
            let gap_pages = (file_len - len) / PAGE_SIZE;
            let mut j = 1;
            while j * 2 <= gap_pages {
                j *= 2;
            }
            if j > 1 {
                r.write(&vec![0u8; j * PAGE_SIZE / 2 + 1]).unwrap();
            }
        }
        assert!(k < 10_000, "pad_exact does not converge");
    }
    db.flush().unwrap();
}

/// A compressed vector whose page index fills its one-page region exactly, in a file without any
/// free space: the next write() adds a page, the page-index region has to move to the end of the
/// file, and the file has to grow — inside Pages::flush, under the pages write lock.
fn index_growth_world() -> (W, PcoVec<usize, u64>) {
    let w = world();
    let mut v: PcoVec<usize, u64> = PcoVec::forced_import(&w.db, "v", Version::ONE).unwrap();
    let per_page = 16 * 1024 / 8;
    let cap = PAGE_SIZE / vecdb::verif_hooks::SIZE_OF_PAGE;
    for i in 0..(cap * per_page) as u64 {
        v.push(val(i));
    }
    v.flush().unwrap();
    pad_exact(&w.db);
    for i in 0..10u64 {
        v.push(val(i));
    }
    (w, v)
}

/// cycle key of the model search -> scenario name
pub fn replay_table() -> Vec<(&'static str, &'static str)> {
    vec![
        (">mmap:w|mmap:r>pages:r|pages:w>mmap:r", "compressed-write-vs-reader-vs-file-growth"),
        ("meta:r>pages:r|pages:w>regions:r|regions:w>meta:w", "compressed-write-vs-io-reader-vs-rename"),
        ("mmap:r>pages:r|pages:w>mmap:w", "compressed-write-vs-reader-on-file-growth"),
        ("layout:r>meta:w|meta:r>pages:r|pages:w>layout:w", "compressed-write-vs-io-reader-vs-compact-layout"),
        ("file:r>meta:w|meta:r>pages:r|pages:w>file:w", "compressed-write-vs-io-reader-vs-compact-file"),
    ]
}

fn pco_world() -> (W, PcoVec<usize, u64>) {
    let w = world();
    let mut v: PcoVec<usize, u64> = PcoVec::forced_import(&w.db, "v", Version::ONE).unwrap();
    for i in 0..3000u64 {
        v.push(val(i));
    }
    v.flush().unwrap();
    (w, v)
}

pub fn replay_scenario(name: &str) -> Option<Scenario> {
    match name {
        // T0 reader (read-only clone, collect): holds mmap(read) through its Reader, wants pages(read)
        // T1 compressed write(): holds pages(write) while Pages::flush writes the page-index
        //    region and wants mmap(read) for the copy
        // T2 set_min_len: queues for mmap(write) behind T0's reader and refuses T1's mmap(read)
        "compressed-write-vs-reader-vs-file-growth" => {
            let (w, mut v) = pco_world();
            let ro = v.read_only_clone();
            for i in 0..10u64 {
                v.push(val(i));
            }
            let d2 = w.db.clone();
            Some(Scenario {
                key: "deadlock-compressed-write-vs-reader-vs-file-growth",
                progs: vec!["pco.ro.collect_range", "pco.write.append_small", "rawdb.set_min_len.grow"],
                threads: vec![
                    Box::new(move || {
                        let _ = ro.collect_range_at(10, 5000);
                    }),
                    Box::new(move || {
                        let _ = v.write();
                    }),
                    Box::new(move || {
                        let _ = d2.set_min_len(4 * MIB);
                    }),
                ],
                keep: Box::new(w),
                regress: None,
            })
        }
        // T0 reader (read-only clone): holds mmap(read) through its Reader, wants pages(read)
        // T1 compressed write(): holds pages(write); Pages::flush has to move the page-index
        //    region to the end of a full file: set_min_len wants mmap(write).  Two threads.
        "compressed-write-vs-reader-on-file-growth" => {
            let (w, mut v) = index_growth_world();
            let ro = v.read_only_clone();
            Some(Scenario {
                key: "deadlock-compressed-write-vs-reader-on-file-growth",
                progs: vec!["pco.ro.collect_range", "pco.write.index_growth"],
                threads: vec![
                    Box::new(move || {
                        let _ = ro.collect_range_at(10, 5000);
                    }),
                    Box::new(move || {
                        let _ = v.write();
                    }),
                ],
                keep: Box::new(w),
                regress: None,
            })
        }
        // T0 compressed write(): holds pages(write); Pages::flush moves the page-index region:
        //    wants layout(write) — or, a little later inside set_min_len, file(write)
        // T1 reader through the buffered-IO source: holds the data region's meta(read), wants pages(read)
        // T2 compact -> punch_holes: holds layout(read) + file(read), wants that meta(write)
        "compressed-write-vs-io-reader-vs-compact-layout" | "compressed-write-vs-io-reader-vs-compact-file" => {
            let (w, mut v) = index_growth_world();
            let ro = v.read_only_clone();
            let db = w.db.clone();
            vecdb::verif_hooks::MMAP_CROSSOVER_BYTES.set(64);
            Some(Scenario {
                key: if name.ends_with("layout") { "deadlock-compressed-write-vs-io-reader-vs-compact-layout" } else { "deadlock-compressed-write-vs-io-reader-vs-compact-file" },
                progs: vec!["pco.write.index_growth", "pco.ro.fold_io", "rawdb.compact.index_growth_world"],
                threads: vec![
                    Box::new(move || {
                        let _ = v.write();
                    }),
                    Box::new(move || {
                        let _ = ro.fold_range_at(0, 2000, 0u64, |a, b| a ^ b);
                    }),
                    Box::new(move || {
                        let _ = db.compact();
                    }),
                ],
                keep: Box::new(w),
                regress: None,
            })
        }
        // T0 compressed write(): holds pages(write) while Pages::flush updates the page-index
        //    region's length and wants regions(read)
        // T1 reader through the buffered-IO source: holds the data region's meta(read) for the
        //    life of the source and wants pages(read)
        // T2 Region::rename of the vector's data region: holds regions(write), wants its meta(write)
        "compressed-write-vs-io-reader-vs-rename" => {
            // same history as the recording of `pco.write.append_pages`
            let w = world();
            let _n: PcoVec<usize, u64> = PcoVec::forced_import(&w.db, "n", Version::ONE).unwrap();
            let mut v: PcoVec<usize, u64> = PcoVec::forced_import(&w.db, "v", Version::ONE).unwrap();
            for i in 0..3000u64 {
                v.push(val(i));
            }
            v.write().unwrap();
            v.flush().unwrap();
            for _ in 0..2 {
                for i in 0..10u64 {
                    v.push(val(i));
                }
                v.write().unwrap();
            }
            for i in 0..40000u64 {
                v.push(val(i));
            }
            let ro = v.read_only_clone();
            let region = v.region().clone();
            vecdb::verif_hooks::MMAP_CROSSOVER_BYTES.set(64);
            Some(Scenario {
                key: "deadlock-compressed-write-vs-io-reader-vs-rename",
                // the writer goes first: its data-region write needs that region's meta(write),
                // which the IO reader would hold
                progs: vec!["pco.write.append_pages", "pco.ro.fold_io", "rawdb.rename"],
                threads: vec![
                    Box::new(move || {
                        let _ = v.write();
                    }),
                    Box::new(move || {
                        let _ = ro.fold_range_at(0, 2000, 0u64, |a, b| a ^ b);
                    }),
                    Box::new(move || {
                        let _ = region.rename("zz");
                    }),
                ],
                keep: Box::new(w),
                regress: None,
            })
        }
        _ => None,
    }
}
