//! Engine `rawdb` (C01, C02, C13 rawdb part): random operation histories on a real
//! rawdb::Database.  After every step it prints the result, the complete allocator state
//! (model level) and sampled region bytes, and runs the spec-level oracles of the properties
//! against a plain Rust reference (one independent byte vector per region name).
use crate::rng::{Rng, fnv};
use crate::util::{parse_args, quiet_panics, replay_inputs};
use rawdb::{Database, Region, PAGE_SIZE};
use std::collections::{BTreeMap, HashSet};
use std::panic::{AssertUnwindSafe, catch_unwind};

pub fn gen_byte(wid: u64, k: u64) -> u8 {
    (wid.wrapping_mul(131).wrapping_add(k.wrapping_mul(7)).wrapping_add((k >> 8).wrapping_mul(13)).wrapping_add(1) & 0xff) as u8
}

pub fn gen_data(wid: u64, n: u64) -> Vec<u8> {
    (0..n).map(|k| gen_byte(wid, k)).collect()
}

pub fn name(id: u64) -> String {
    format!("r{id}")
}

#[derive(Clone, Debug, PartialEq)]
pub enum Op {
    Create(u64, bool),
    Write(u64, u64, u64),
    WriteAt(u64, u64, u64, u64),
    TruncWrite(u64, u64, u64, u64),
    Truncate(u64, u64),
    Rename(u64, u64),
    Remove(u64),
    DropHandle(u64),
    Retain(Vec<u64>),
    Flush,
    FlushRegion(u64),
    Compact,
    Reopen,
    SetMinLen(u64),
    SetMinRegions(u64),
}

impl Op {
    pub fn show(&self) -> String {
        match self {
            Op::Create(i, h) => format!("c:{i}:{}", *h as u8),
            Op::Write(i, w, n) => format!("w:{i}:{w}:{n}"),
            Op::WriteAt(i, w, n, at) => format!("a:{i}:{w}:{n}:{at}"),
            Op::TruncWrite(i, w, n, at) => format!("tw:{i}:{w}:{n}:{at}"),
            Op::Truncate(i, f) => format!("t:{i}:{f}"),
            Op::Rename(i, j) => format!("mv:{i}:{j}"),
            Op::Remove(i) => format!("rm:{i}"),
            Op::DropHandle(i) => format!("dh:{i}"),
            Op::Retain(v) => format!("ret:{}", v.iter().map(|x| x.to_string()).collect::<Vec<_>>().join("+")),
            Op::Flush => "f".into(),
            Op::FlushRegion(i) => format!("fr:{i}"),
            Op::Compact => "cp".into(),
            Op::Reopen => "ro".into(),
            Op::SetMinLen(n) => format!("ml:{n}"),
            Op::SetMinRegions(n) => format!("mr:{n}"),
        }
    }
    pub fn parse(s: &str) -> Op {
        let t: Vec<&str> = s.split(':').collect();
        let n = |i: usize| t[i].parse::<u64>().unwrap();
        match t[0] {
            "c" => Op::Create(n(1), n(2) == 1),
            "w" => Op::Write(n(1), n(2), n(3)),
            "a" => Op::WriteAt(n(1), n(2), n(3), n(4)),
            "tw" => Op::TruncWrite(n(1), n(2), n(3), n(4)),
            "t" => Op::Truncate(n(1), n(2)),
            "mv" => Op::Rename(n(1), n(2)),
            "rm" => Op::Remove(n(1)),
            "dh" => Op::DropHandle(n(1)),
            "ret" => Op::Retain(if t.len() > 1 && !t[1].is_empty() { t[1].split('+').map(|x| x.parse().unwrap()).collect() } else { vec![] }),
            "f" => Op::Flush,
            "fr" => Op::FlushRegion(n(1)),
            "cp" => Op::Compact,
            "ro" => Op::Reopen,
            "ml" => Op::SetMinLen(n(1)),
            "mr" => Op::SetMinRegions(n(1)),
            _ => panic!("bad op {s}"),
        }
    }
}

fn err_name(e: &rawdb::Error) -> &'static str {
    use rawdb::Error::*;
    match e {
        IO(_) => "IO",
        TryLock(_) => "TryLock",
        RegionNotFound => "RegionNotFound",
        RegionMetadataUnwritten => "RegionMetadataUnwritten",
        RegionAlreadyExists => "RegionAlreadyExists",
        RegionStillReferenced { .. } => "RegionStillReferenced",
        WriteOutOfBounds { .. } => "WriteOutOfBounds",
        TruncateInvalid { .. } => "TruncateInvalid",
        RegionIndexMismatch => "RegionIndexMismatch",
        HoleTooSmall { .. } => "HoleTooSmall",
        InvariantViolation(_) => "InvariantViolation",
        CorruptedMetadata(_) => "CorruptedMetadata",
        RegionSizeOverflow { .. } => "RegionSizeOverflow",
        OverlappingCopyRanges { .. } => "OverlappingCopyRanges",
        _ => "Other",
    }
}

/// The plain reference of the property: one independent byte vector per region name.
#[derive(Clone, Default)]
pub struct RefRegion {
    pub data: Vec<u8>,
    pub persisted: bool,
}

pub struct World {
    pub dir: tempfile::TempDir,
    pub db: Option<Database>,
    pub handles: BTreeMap<u64, Region>,
    pub reference: BTreeMap<u64, RefRegion>,
}

impl World {
    pub fn new(min_len: u64) -> World {
        let dir = tempfile::tempdir().unwrap();
        let db = Database::open_with_min_len(dir.path(), min_len as usize).unwrap();
        World { dir, db: Some(db), handles: BTreeMap::new(), reference: BTreeMap::new() }
    }
    pub fn db(&self) -> &Database {
        self.db.as_ref().unwrap()
    }
    fn region(&self, id: u64) -> Option<Region> {
        self.handles.get(&id).cloned().or_else(|| self.db().get_region(&name(id)))
    }

    /// Executes `op` on the real database; returns the result token.
    pub fn exec(&mut self, op: &Op) -> String {
        let r = catch_unwind(AssertUnwindSafe(|| self.exec_inner(op)));
        match r {
            Ok(s) => s,
            Err(_) => "panic".into(),
        }
    }

    fn exec_inner(&mut self, op: &Op) -> String {
        fn res<T>(r: rawdb::Result<T>) -> String {
            match r {
                Ok(_) => "ok".into(),
                Err(e) => format!("err:{}", err_name(&e)),
            }
        }
        match op {
            Op::Create(id, hold) => match self.db().create_region_if_needed(&name(*id)) {
                Ok(r) => {
                    if *hold {
                        self.handles.insert(*id, r);
                    }
                    "ok".into()
                }
                Err(e) => format!("err:{}", err_name(&e)),
            },
            Op::Write(id, w, n) => match self.region(*id) {
                Some(r) => res(r.write(&gen_data(*w, *n))),
                None => "err:RegionNotFound".into(),
            },
            Op::WriteAt(id, w, n, at) => match self.region(*id) {
                Some(r) => res(r.write_at(&gen_data(*w, *n), *at as usize)),
                None => "err:RegionNotFound".into(),
            },
            Op::TruncWrite(id, w, n, at) => match self.region(*id) {
                Some(r) => res(r.truncate_write(*at as usize, &gen_data(*w, *n))),
                None => "err:RegionNotFound".into(),
            },
            Op::Truncate(id, from) => match self.region(*id) {
                Some(r) => res(r.truncate(*from as usize)),
                None => "err:RegionNotFound".into(),
            },
            Op::Rename(id, new) => match self.region(*id) {
                Some(r) => {
                    let out = res(r.rename(&name(*new)));
                    if out == "ok" {
                        if let Some(h) = self.handles.remove(id) {
                            self.handles.insert(*new, h);
                        }
                    }
                    out
                }
                None => "err:RegionNotFound".into(),
            },
            Op::Remove(id) => {
                let out = res(self.db().remove_region(&name(*id)));
                if out == "ok" {
                    self.handles.remove(id);
                }
                out
            }
            Op::DropHandle(id) => {
                self.handles.remove(id);
                "ok".into()
            }
            Op::Retain(ids) => {
                let set: HashSet<String> = ids.iter().map(|i| name(*i)).collect();
                let out = res(self.db().retain_regions(set));
                if out == "ok" {
                    self.handles.retain(|k, _| ids.contains(k));
                }
                out
            }
            Op::Flush => match self.db().flush() {
                Ok(n) => format!("ok:{n}"),
                Err(e) => format!("err:{}", err_name(&e)),
            },
            Op::FlushRegion(id) => match self.region(*id) {
                Some(r) => match r.flush() {
                    Ok(b) => format!("ok:{}", b as u8),
                    Err(e) => format!("err:{}", err_name(&e)),
                },
                None => "err:RegionNotFound".into(),
            },
            Op::Compact => res(self.db().compact()),
            Op::Reopen => {
                self.handles.clear();
                self.db = None;
                match Database::open(self.dir.path()) {
                    Ok(db) => {
                        self.db = Some(db);
                        "ok".into()
                    }
                    Err(e) => format!("err:{}", err_name(&e)),
                }
            }
            Op::SetMinLen(n) => res(self.db().set_min_len(*n as usize)),
            Op::SetMinRegions(n) => res(self.db().set_min_regions(*n as usize)),
        }
    }

    /// Expected result and effect on the reference (the spec of the property).
    pub fn apply_ref(&mut self, op: &Op) -> String {
        let held = |w: &World, id: &u64| w.handles.contains_key(id);
        match op {
            Op::Create(id, _) => {
                self.reference.entry(*id).or_default();
                "ok".into()
            }
            Op::Write(id, w, n) => match self.reference.get_mut(id) {
                Some(r) => {
                    r.data.extend(gen_data(*w, *n));
                    if *n > 0 {
                        r.persisted = true;
                    }
                    "ok".into()
                }
                None => "err:RegionNotFound".into(),
            },
            Op::WriteAt(id, w, n, at) | Op::TruncWrite(id, w, n, at) => {
                let trunc = matches!(op, Op::TruncWrite(..));
                match self.reference.get_mut(id) {
                    Some(r) => {
                        let at = *at as usize;
                        if at > r.data.len() {
                            return "err:WriteOutOfBounds".into();
                        }
                        let d = gen_data(*w, *n);
                        let old_len = r.data.len();
                        let end = at + d.len();
                        if trunc {
                            r.data.truncate(at);
                            r.data.extend(d);
                        } else {
                            if end > r.data.len() {
                                r.data.resize(end, 0);
                            }
                            r.data[at..end].copy_from_slice(&d);
                        }
                        if r.data.len() != old_len {
                            r.persisted = true;
                        }
                        "ok".into()
                    }
                    None => "err:RegionNotFound".into(),
                }
            }
            Op::Truncate(id, from) => match self.reference.get_mut(id) {
                Some(r) => {
                    let from = *from as usize;
                    if from > r.data.len() {
                        "err:TruncateInvalid".into()
                    } else {
                        if from != r.data.len() {
                            r.persisted = true;
                        }
                        r.data.truncate(from);
                        "ok".into()
                    }
                }
                None => "err:RegionNotFound".into(),
            },
            Op::Rename(id, new) => {
                if !self.reference.contains_key(id) {
                    return "err:RegionNotFound".into();
                }
                if self.reference.contains_key(new) {
                    return "err:RegionAlreadyExists".into();
                }
                let mut r = self.reference.remove(id).unwrap();
                r.persisted = true;
                self.reference.insert(*new, r);
                "ok".into()
            }
            Op::Remove(id) => {
                if !self.reference.contains_key(id) {
                    return "err:RegionNotFound".into();
                }
                if held(self, id) {
                    return "err:RegionStillReferenced".into();
                }
                self.reference.remove(id);
                "ok".into()
            }
            Op::DropHandle(_) => "ok".into(),
            Op::Retain(ids) => {
                // refused as a whole when a region to remove is still held (fix 881ef86)
                if self.reference.keys().any(|k| !ids.contains(k) && held(self, k)) {
                    return "err:RegionStillReferenced".into();
                }
                self.reference.retain(|k, _| ids.contains(k));
                "ok".into()
            }
            // Region::flush on a region whose metadata was never written reports
            // RegionMetadataUnwritten (not one of the refusals of C13; it must merely have no effect)
            Op::FlushRegion(id) => match self.reference.get(id) {
                None => "err:RegionNotFound".into(),
                Some(r) if !r.persisted => "err:RegionMetadataUnwritten".into(),
                Some(_) => "ok".into(),
            },
            Op::Flush | Op::Compact | Op::SetMinLen(_) | Op::SetMinRegions(_) => "ok".into(),
            Op::Reopen => {
                self.reference.retain(|_, r| r.persisted);
                "ok".into()
            }
        }
    }

    /// Complete allocator state in canonical text (model level).
    /// what every name resolves to (the in-memory name table), as `name>slot/id-of-that-slot`
    pub fn names(&self) -> String {
        let db = self.db();
        let regions = db.regions();
        let mut v: Vec<String> = regions.id_to_index().iter().map(|(name, idx)| {
            let id = regions.index_to_region().get(*idx).and_then(|r| r.as_ref().map(|r| r.meta().id().to_string())).unwrap_or_else(|| "-".into());
            format!("{}>{}/{}", name.trim_start_matches('r'), idx, id.trim_start_matches('r'))
        }).collect();
        v.sort();
        v.join(",")
    }

    pub fn dump(&self) -> String {
        let db = self.db();
        let layout = db.layout();
        let regions = db.regions();
        let mut parts = vec![];
        let mut slots = vec![];
        for (i, r) in regions.index_to_region().iter().enumerate() {
            if let Some(r) = r {
                let m = r.meta();
                let (dmin, dmax) = r.verif_dirty_bounds();
                let id = m.id().trim_start_matches('r').to_string();
                slots.push(format!("{i}={id}/{}/{}/{}/{}/{}", m.start(), m.len(), m.reserved(), m.verif_state(),
                    format!("{dmin}-{dmax}")));
            }
        }
        parts.push(format!("S[{}]#{}", slots.join(","), regions.index_to_region().len()));
        parts.push(format!("G[{}]", layout.start_to_region().iter().map(|(s, r)| format!("{s}={}", r.index())).collect::<Vec<_>>().join(",")));
        parts.push(format!("H[{}]", layout.start_to_hole().iter().map(|(s, z)| format!("{s}+{z}")).collect::<Vec<_>>().join(",")));
        parts.push(format!("Q[{}]", layout.verif_hole_to_starts().iter().map(|(z, ss)| format!("{z}:{}", ss.iter().map(|s| s.to_string()).collect::<Vec<_>>().join("/"))).collect::<Vec<_>>().join(",")));
        parts.push(format!("P[{}]", layout.verif_pending_holes().iter().map(|(s, z)| format!("{s}+{z}")).collect::<Vec<_>>().join(",")));
        parts.push(format!("V[{}]", layout.verif_start_to_reserved().iter().map(|(s, z)| format!("{s}+{z}")).collect::<Vec<_>>().join(",")));
        parts.push(format!("L{}", layout.len()));
        parts.push(format!("F{}", db.file_len()));
        drop(regions);
        drop(layout);
        // the regions file as it would be read back
        let rf = std::fs::read(self.dir.path().join("regions")).unwrap_or_default();
        let mut rs = vec![];
        for (i, chunk) in rf.chunks(4096).enumerate() {
            if chunk.iter().all(|b| *b == 0) {
                continue;
            }
            match rawdb::RegionMetadata::from_bytes(chunk) {
                Ok(m) => rs.push(format!("{i}={}/{}/{}/{}", m.id().trim_start_matches('r'), m.start(), m.len(), m.reserved())),
                Err(_) => rs.push(format!("{i}=bad")),
            }
        }
        parts.push(format!("R[{}]#{}", rs.join(","), rf.len() / 4096));
        parts.join(" ")
    }

    fn sample_offsets(len: u64, step: u64, id: u64) -> Vec<u64> {
        if len == 0 {
            return vec![];
        }
        let mut v = vec![0, len - 1, len / 2];
        for p in [4095u64, 4096, 8191, 8192] {
            if p < len {
                v.push(p);
            }
        }
        let mut r = Rng::new(step.wrapping_mul(1000003) ^ id.wrapping_mul(7919));
        for _ in 0..12 {
            v.push(r.below(len));
        }
        v
    }

    /// sampled bytes of every live region, by name (model level: the model evaluates its memory there)
    fn samples(&self, step: u64) -> String {
        let db = self.db();
        let mut ids: Vec<u64> = db.regions().id_to_index().keys().filter_map(|k| k.trim_start_matches('r').parse().ok()).collect();
        ids.sort();
        let mut parts = vec![];
        for id in ids {
            let r = db.get_region(&name(id)).unwrap();
            let reader = r.create_reader();
            let len = reader.len() as u64;
            let offs = Self::sample_offsets(len, step, id);
            let vals: Vec<String> = offs.iter().map(|o| reader.read(*o as usize, 1)[0].to_string()).collect();
            parts.push(format!("{id}@{len}:{}", vals.join(".")));
        }
        if parts.is_empty() { "-".into() } else { parts.join(" ") }
    }

    /// C01 oracle: every live region's name, length and bytes equal the reference.
    pub fn check_contents(&self) -> Option<String> {
        let db = self.db();
        let mut live: Vec<u64> = db.regions().id_to_index().keys().filter_map(|k| k.trim_start_matches('r').parse().ok()).collect();
        live.sort();
        let want: Vec<u64> = self.reference.keys().copied().collect();
        if live != want {
            return Some(format!("live-set-differs have={live:?} want={want:?}"));
        }
        for (id, rr) in &self.reference {
            let r = db.get_region(&name(*id)).unwrap();
            let reader = r.create_reader();
            if reader.len() != rr.data.len() {
                return Some(format!("length-differs region={id} have={} want={}", reader.len(), rr.data.len()));
            }
            if reader.read_all() != &rr.data[..] {
                let pos = reader.read_all().iter().zip(&rr.data).position(|(a, b)| a != b).unwrap();
                return Some(format!("bytes-differ region={id} first-at={pos} len={}", rr.data.len()));
            }
        }
        None
    }

    /// C02 oracle on the real allocator state.
    pub fn check_extents(&self) -> Option<String> {
        let db = self.db();
        let layout = db.layout();
        let regions = db.regions();
        let page = PAGE_SIZE as u64;
        let mut ext: Vec<(u64, u64, String)> = vec![];
        for r in regions.index_to_region().iter().flatten() {
            let m = r.meta();
            if m.len() > m.reserved() {
                return Some(format!("len-exceeds-reserve region={}", m.id()));
            }
            ext.push((m.start() as u64, m.reserved() as u64, format!("region:{}", m.id())));
            if layout.start_to_region().get(&m.start()).map(|x| x.index()) != Some(r.index()) {
                return Some(format!("live-region-missing-from-layout region={}", m.id()));
            }
        }
        if layout.start_to_region().len() != regions.index_to_region().iter().flatten().count() {
            return Some("layout-lists-a-region-that-is-not-live".into());
        }
        // index consistency: the name table and the slot table describe the same regions
        for (name, idx) in regions.id_to_index() {
            match regions.index_to_region().get(*idx).and_then(|r| r.as_ref()) {
                Some(r) if r.meta().id() == name.as_str() => {}
                Some(r) => return Some(format!("name-table-entry-points-at-another-region name={name} slot={idx} holds={}", r.meta().id())),
                None => return Some(format!("name-table-entry-points-at-an-empty-slot name={name} slot={idx}")),
            }
        }
        if regions.id_to_index().len() != regions.index_to_region().iter().flatten().count() {
            return Some("live-region-missing-from-the-name-table".into());
        }
        for (s, z) in layout.start_to_hole() {
            ext.push((*s as u64, *z as u64, "hole".into()));
        }
        for (s, z) in layout.verif_pending_holes() {
            ext.push((*s as u64, *z as u64, "pending".into()));
        }
        for (s, z) in layout.verif_start_to_reserved() {
            ext.push((*s as u64, *z as u64, "reserved".into()));
        }
        ext.sort();
        let mut pos = 0u64;
        let mut prev_hole = false;
        for (s, z, k) in &ext {
            if s % page != 0 || z % page != 0 || *z == 0 {
                return Some(format!("misaligned-extent {k} start={s} size={z}"));
            }
            if *s < pos {
                return Some(format!("overlapping-extents at={s} kind={k}"));
            }
            if *s > pos {
                return Some(format!("untracked-gap from={pos} to={s}"));
            }
            if prev_hole && k == "hole" {
                return Some(format!("adjacent-holes-not-merged at={s}"));
            }
            prev_hole = k == "hole";
            pos = s + z;
        }
        if pos != layout.len() as u64 {
            return Some(format!("layout-len-mismatch computed={pos} reported={}", layout.len()));
        }
        if pos > db.file_len() as u64 {
            return Some(format!("allocated-area-exceeds-file end={pos} file={}", db.file_len()));
        }
        let real = std::fs::metadata(self.dir.path().join("data")).map(|m| m.len()).unwrap_or(0);
        if real != db.file_len() as u64 {
            return Some(format!("cached-file-len-wrong cached={} real={real}", db.file_len()));
        }
        None
    }

    fn largest_hole(&self) -> u64 {
        self.db().layout().start_to_hole().values().copied().max().unwrap_or(0) as u64
    }
}

pub struct Gen {
    pub rng: Rng,
    pub next_id: u64,
    pub next_w: u64,
    pub max_size: u64,
}

impl Gen {
    fn size(&mut self) -> u64 {
        let v = self.size_raw();
        if self.max_size > 0 { v.min(self.max_size) } else { v }
    }

    fn size_raw(&mut self) -> u64 {
        match self.rng.below(20) {
            0 => 0,
            1 => 1,
            2..=5 => self.rng.range(2, 4000),
            6 => 4095,
            7 => 4096,
            8 => 4097,
            9..=11 => self.rng.range(4000, 9000),
            12..=14 => self.rng.range(9000, 40000),
            15..=16 => self.rng.range(40000, 140000),
            17 => self.rng.range(140000, 600000),
            18 => self.rng.range(600000, 1400000),
            _ => self.rng.range(1, 64),
        }
    }

    pub fn next_op(&mut self, w: &World, malformed: bool) -> Op {
        let live: Vec<u64> = w.reference.keys().copied().collect();
        let pick = |g: &mut Gen| -> u64 {
            if live.is_empty() || (malformed && g.rng.chance(1, 3)) { g.rng.below(g.next_id + 2) } else { *g.rng.pick(&live) }
        };
        let len_of = |id: u64| w.reference.get(&id).map(|r| r.data.len() as u64).unwrap_or(0);
        if live.is_empty() || (live.len() < 12 && self.rng.chance(1, 8)) {
            let id = if malformed && !live.is_empty() && self.rng.chance(1, 2) { *self.rng.pick(&live) } else { self.next_id += 1; self.next_id };
            return Op::Create(id, self.rng.chance(3, 10));
        }
        self.next_w += 1;
        let wid = self.next_w;
        match self.rng.below(100) {
            0..=29 => Op::Write(pick(self), wid, self.size()),
            30..=41 => {
                let id = pick(self);
                let l = len_of(id);
                let at = if malformed && self.rng.chance(1, 2) { l + self.rng.range(1, 5000) } else { self.rng.below(l + 1) };
                Op::WriteAt(id, wid, self.size().min(70000), at)
            }
            42..=49 => {
                let id = pick(self);
                let l = len_of(id);
                let at = if malformed && self.rng.chance(1, 2) { l + self.rng.range(1, 5000) } else { self.rng.below(l + 1) };
                Op::TruncWrite(id, wid, self.size().min(70000), at)
            }
            50..=57 => {
                let id = pick(self);
                let l = len_of(id);
                let from = if malformed && self.rng.chance(1, 2) { l + self.rng.range(1, 5000) } else if self.rng.chance(1, 6) { l } else { self.rng.below(l + 1) };
                Op::Truncate(id, from)
            }
            58..=61 => {
                let id = pick(self);
                let new = if malformed && self.rng.chance(1, 2) { *self.rng.pick(&live) } else { self.next_id += 1; self.next_id };
                Op::Rename(id, new)
            }
            62..=71 => Op::Remove(pick(self)),
            72..=74 => {
                let held: Vec<u64> = w.handles.keys().copied().collect();
                if held.is_empty() { Op::Flush } else { Op::DropHandle(*self.rng.pick(&held)) }
            }
            75..=76 => {
                // retain: mostly keeps held regions; one time in four it may try to drop a held one (refused)
                let strict = self.rng.chance(3, 4);
                let keep: Vec<u64> = live.iter().copied().filter(|i| (strict && w.handles.contains_key(i)) || self.rng.chance(6, 10)).collect();
                Op::Retain(keep)
            }
            77..=88 => Op::Flush,
            89..=90 => Op::FlushRegion(pick(self)),
            91..=93 => Op::Compact,
            94..=96 => Op::Reopen,
            97 => Op::SetMinLen(self.rng.below(3 << 20)),
            98 => Op::SetMinRegions(self.rng.below(24)),
            _ => Op::Create(pick(self), false),
        }
    }
}

fn run_case(cid: &str, min_len: u64, ops: Option<Vec<Op>>, g: Option<&mut Gen>, nops: u64) {
    let mut w = World::new(min_len);
    let mut g = g;
    let mut hist: Vec<Op> = vec![];
    let mut obs: Vec<String> = vec![];
    let mut viol: Vec<String> = vec![];
    let mut tags: Vec<String> = vec![];
    let total = ops.as_ref().map(|o| o.len() as u64).unwrap_or(nops);
    obs.push(format!("init {}", w.dump()));
    for step in 0..total {
        let op = match (&ops, g.as_deref_mut()) {
            (Some(o), _) => o[step as usize].clone(),
            (None, Some(g)) => {
                let malformed = g.rng.chance(15, 100);
                g.next_op(&w, malformed)
            }
            _ => unreachable!(),
        };
        let before = w.dump();
        let before_names = w.names();
        let before_hole = w.largest_hole();
        let before_len = w.db().layout().len() as u64;
        let pre_regions: BTreeMap<u64, (u64, u64)> = w.db().regions().index_to_region().iter().flatten().map(|r| { let m = r.meta(); (r.index() as u64, (m.start() as u64, m.reserved() as u64)) }).collect();
        let got = w.exec(&op);
        hist.push(op.clone());
        if w.db.is_none() || got == "panic" {
            obs.push(format!("{} {got}", step));
            viol.push(format!("C01:operation-panicked-or-reopen-failed op={} result={got}", op.show()));
            break;
        }
        let want = w.apply_ref(&op);
        let after = w.dump();
        obs.push(format!("{step} {got} {after} | {}", w.samples(step)));
        let kind = |s: &str| s.split(':').take(if s.starts_with("err") { 2 } else { 1 }).collect::<Vec<_>>().join(":");
        let opk = op.show().split(':').next().unwrap().to_string();
        if kind(&got) != kind(&want) {
            let p = if got.starts_with("err") || want.starts_with("err") { "C13" } else { "C01" };
            viol.push(format!("{p}:result-differs-from-reference-after-{opk} step={step} op={} got={got} want={want}", op.show()));
        }
        if got.starts_with("err") && before != after {
            viol.push(format!("C13:error-had-effect-after-{opk}-{} step={step} op={}", got.trim_start_matches("err:"), op.show()));
        }
        if got.starts_with("err") && before_names != w.names() {
            // the in-memory name table is what every later by-name request resolves through
            viol.push(format!("C13:error-changed-name-table-after-{opk}-{} step={step} op={} before=[{before_names}] after=[{}]",
                              got.trim_start_matches("err:"), op.show(), w.names()));
        }
        if let Some(v) = w.check_contents() {
            viol.push(format!("C01:contents-differ-from-reference-after-{opk} step={step} op={} {v}", op.show()));
            if matches!(op, Op::Compact) {
                viol.push(format!("C12:compact-changed-readable-bytes step={step} {v}"));
            }
        }
        if matches!(op, Op::Compact) && got.starts_with("ok") {
            // C12: compaction changes neither the placement of any live region nor the file's logical length
            let post: BTreeMap<u64, (u64, u64)> = w.db().regions().index_to_region().iter().flatten().map(|r| { let m = r.meta(); (r.index() as u64, (m.start() as u64, m.reserved() as u64)) }).collect();
            if post != pre_regions {
                viol.push(format!("C12:compact-moved-or-resized-a-region step={step}"));
            }
            let f0: u64 = before.split(" F").nth(1).and_then(|x| x.split(' ').next()).and_then(|x| x.parse().ok()).unwrap_or(0);
            if f0 != w.db().file_len() as u64 {
                viol.push(format!("C12:compact-changed-file-length step={step}"));
            }
        }
        if let Some(v) = w.check_extents() {
            viol.push(format!("C02:{} step={step} op={}", v.replacen(' ', "-after-".to_string().as_str(), 0), op.show()));
        }
        // C02 reuse clause: placement (creation or relocation) with an adequate hole must not grow the allocated area
        let after_len = w.db().layout().len() as u64;
        if got.starts_with("ok") {
            let mut need = 0u64;
            let mut placed = false;
            for r in w.db().regions().index_to_region().iter().flatten() {
                let m = r.meta();
                match pre_regions.get(&(r.index() as u64)) {
                    None => { need = m.reserved() as u64; placed = true; tags.push("place:create".into()); }
                    Some((s, _)) if *s != m.start() as u64 => { need = m.reserved() as u64; placed = true; tags.push("place:relocate".into()); }
                    Some((_, z)) if *z != m.reserved() as u64 => { tags.push("place:grow-in-place".into()); }
                    _ => {}
                }
            }
            if placed && matches!(op, Op::Create(..) | Op::Write(..) | Op::WriteAt(..) | Op::TruncWrite(..)) && before_hole >= need && after_len > before_len {
                viol.push(format!("C02:placement-grew-file-although-a-hole-fits step={step} op={} need={need} hole={before_hole}", op.show()));
            }
        }
        // keep the first violation of each property and go on: a broken extent invariant (C02) or an
        // error with effect (C13) often only damages region contents (C01) some steps later
        {
            let mut seen: std::collections::BTreeSet<String> = std::collections::BTreeSet::new();
            viol.retain(|v| seen.insert(v.split(':').next().unwrap_or("").to_string()));
        }
        if viol.iter().any(|v| v.starts_with("C01:")) || viol.len() >= 3 {
            break;
        }
    }
    println!("I {cid} open:{min_len} {}", hist.iter().map(|o| o.show()).collect::<Vec<_>>().join(" "));
    for o in obs {
        println!("O {cid} {o}");
    }
    for v in viol {
        println!("V {cid} {v}");
    }
    tags.sort();
    tags.dedup();
    for t in tags {
        println!("M {cid} {t}");
    }
}

pub fn run(args: &[String]) -> i32 {
    let a = parse_args(args);
    quiet_panics();
    if let Some(path) = a.replay {
        for (cid, body) in replay_inputs(&path) {
            let t: Vec<&str> = body.split_whitespace().collect();
            let min_len: u64 = t[0].trim_start_matches("open:").parse().unwrap();
            let ops: Vec<Op> = t[1..].iter().map(|s| Op::parse(s)).collect();
            run_case(&cid, min_len, Some(ops), None, 0);
        }
        return 0;
    }
    let mut g = Gen { rng: Rng::new(a.seed), next_id: 0, next_w: 0, max_size: 0 };
    for c in 0..a.cases {
        g.next_id = 0;
        let min_len = match g.rng.below(6) { 0 => g.rng.below(3 << 20), 1 => 4096, _ => 0 };
        let nops = g.rng.range(20, 90);
        run_case(&format!("{}", c), min_len, None, Some(&mut g), nops);
    }
    0
}

#[allow(dead_code)]
fn unused(_: &[u8]) -> u64 {
    fnv(&[])
}
