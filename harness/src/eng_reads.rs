//! Engine `reads` (C08, C20): builds REAL vector states by short histories on BytesVec / ZeroCopyVec /
//! PcoVec / LZ4Vec / ZstdVec (+ EagerVec wrappers), keeps read-only clones, CachedVec wrappers and boxed
//! clones alongside, then runs every read path x range class under catch_unwind, with both scan back-ends
//! (MMAP_CROSSOVER_BYTES hook) and the access tap on.
//!
//! Spec-level oracles (no model involved):
//!   C08  result == reference contents (a plain value list + deleted set kept alongside) restricted to the
//!        request, no panic                                              -> `V <id> C08:<key> ...`
//!   C20  every byte range fetched from the map / the data file during the read lies inside the vector's own
//!        region [start, start+len) at that moment                       -> `V <id> C20:<key> ...`
//! Model level: the first O line of a phase is the well-formedness verdict of the dumped state; every read
//! prints `O <id> <result> @ <accesses>`; the extracted Coq model must reproduce all of them from the state
//! dump carried in the I line.
//!
//! I line: <kind> <ssc> { H <op>... S <dump>... R <read>... }+
//!   kind  bytes | bytesn (5-byte element, non-native layout) | zc | pco | lz4 | zstd | ebytes | epco
//!   ssc   saved_stamped_changes (0: plain writes `w`; >0: stamped writes `s` and rollbacks `r`)
//!   ops   p:<n> push n fresh values | w flush | s stamped_write_with_changes+flush | r rollback one commit
//!         | t:<n> truncate_if_needed_at | u:<i> update_at(i, fresh) | d:<i> delete_at | f fill_first_hole_or_push
//!   dump  (written by the harness from the real state; ignored when a line is replayed)
//!   reads x:<bytes> (set crossover) | <target>.<method>[:args]   target d direct, o read-only clone,
//!         c CachedVec, q CachedVec read-only clone (shared cache), y boxed dyn clone
//! Values: every element is v(k) = ((k+1) * 0x9E3779B1) mod 2^40 for a counter k; value lists are printed
//! as counter runs `k+n`, unknown values as `#<value>`.
use crate::rng::Rng;
use crate::util::{parse_args, quiet_panics, replay_inputs};
use std::collections::{BTreeMap, BTreeSet, HashMap};
use std::panic::{AssertUnwindSafe, catch_unwind};
use std::sync::Mutex;
use vecdb::{
    AnyStoredVec, AnyVec, Bytes, BytesVec, CachedVec, Cursor, Database, EagerVec, ImportOptions, ImportableVec,
    LZ4Vec, PcoVec, ReadableBoxedVec, ReadableCloneableVec, ReadableVec, Stamp, StoredVec, Version, WritableVec, ZeroCopyVec, ZstdVec,
};

const MAXU: usize = usize::MAX;
const MASK40: u64 = (1 << 40) - 1;
fn vfun(k: u64) -> u64 {
    (k + 1).wrapping_mul(0x9E37_79B1) & MASK40
}

// ------------------------------------------------------------------ element types
pub trait El:
    vecdb::BytesVecValue + Copy + PartialOrd + PartialEq + std::ops::AddAssign + From<u8> + 'static
{
    const SZ: usize;
    fn of(v: u64) -> Self;
    fn val(self) -> u64;
}
impl El for u64 {
    const SZ: usize = 8;
    fn of(v: u64) -> Self {
        v
    }
    fn val(self) -> u64 {
        self
    }
}
/// a 5-byte element with custom (little-endian) serialisation and IS_NATIVE_LAYOUT = false, so that the raw
/// vector takes the per-element fold_source path instead of the memcpy.
#[derive(Debug, Clone, Copy, PartialEq)]
#[repr(transparent)]
pub struct N5([u8; 5]);
impl Bytes for N5 {
    type Array = [u8; 5];
    fn to_bytes(&self) -> [u8; 5] {
        self.0
    }
    fn from_bytes(b: &[u8]) -> vecdb::Result<Self> {
        let a: [u8; 5] = b.try_into().map_err(|_| vecdb::Error::WrongLength { expected: 5, received: b.len() })?;
        Ok(N5(a))
    }
}
impl PartialOrd for N5 {
    fn partial_cmp(&self, o: &Self) -> Option<std::cmp::Ordering> {
        self.val().partial_cmp(&o.val())
    }
}
impl std::ops::AddAssign for N5 {
    fn add_assign(&mut self, o: Self) {
        *self = N5::of((self.val() + o.val()) & MASK40)
    }
}
impl From<u8> for N5 {
    fn from(b: u8) -> Self {
        N5::of(b as u64)
    }
}
impl El for N5 {
    const SZ: usize = 5;
    fn of(v: u64) -> Self {
        let b = v.to_le_bytes();
        N5([b[0], b[1], b[2], b[3], b[4]])
    }
    fn val(self) -> u64 {
        let mut b = [0u8; 8];
        b[..5].copy_from_slice(&self.0);
        u64::from_le_bytes(b)
    }
}

// ------------------------------------------------------------------ access tap
static REC: Mutex<(bool, Vec<rawdb::verif_tap::Event>)> = Mutex::new((false, Vec::new()));
/// hang guard: a read that makes more tap events than any terminating read on the generated sizes can make is
/// aborted by a panic raised from inside the sink (the known non-terminating loop refills its buffer for ever)
static EVCOUNT: std::sync::atomic::AtomicU64 = std::sync::atomic::AtomicU64::new(0);
static HANG: std::sync::atomic::AtomicBool = std::sync::atomic::AtomicBool::new(false);
const EV_LIMIT: u64 = 4_000_000;
fn sink(e: &rawdb::verif_tap::Event) {
    use rawdb::verif_tap::Event;
    use std::sync::atomic::Ordering::Relaxed;
    // every event counts (a cursor over a CachedVec refills without touching the map: `cursor-refill` pause)
    if EVCOUNT.fetch_add(1, Relaxed) > EV_LIMIT {
        EVCOUNT.store(0, Relaxed);
        HANG.store(true, Relaxed);
        panic!("hang-guard");
    }
    if let Ok(mut r) = REC.lock() {
        if r.0 {
            match e {
                Event::Access { .. } | Event::PtrRead { .. } | Event::FileRead { .. } => r.1.push(e.clone()),
                _ => {}
            }
        }
    }
}
fn rec_on() {
    EVCOUNT.store(0, std::sync::atomic::Ordering::Relaxed);
    HANG.store(false, std::sync::atomic::Ordering::Relaxed);
    let mut r = REC.lock().unwrap();
    r.0 = true;
    r.1.clear();
}
fn rec_off() -> Vec<rawdb::verif_tap::Event> {
    let mut r = REC.lock().unwrap();
    r.0 = false;
    std::mem::take(&mut r.1)
}

// ------------------------------------------------------------------ outputs
enum Item {
    O(Option<u64>),
    L(Vec<u64>),
    N(usize),
}
enum Out {
    L(Vec<u64>),
    O(Option<u64>),
    E(Vec<u64>),
    N(Option<u64>),
    S(Vec<Item>),
    H(Vec<Option<u64>>),
    R(Option<u64>), // Result<T>: None = Err
    P,
    Hang,
    Bad(String), // a harness-side sanity failure (sentinel overwritten …)
}

struct Names {
    inv: HashMap<u64, u64>,
    next: u64,
}
impl Names {
    fn fresh(&mut self) -> u64 {
        let k = self.next;
        self.next += 1;
        let v = vfun(k);
        self.inv.insert(v, k);
        v
    }
    fn enc_opt(&self, xs: &[Option<u64>]) -> String {
        if xs.is_empty() {
            return "-".into();
        }
        let mut segs: Vec<String> = vec![];
        let mut run: Option<(u64, u64)> = None;
        let flush = |run: &mut Option<(u64, u64)>, segs: &mut Vec<String>| {
            if let Some((k, n)) = run.take() {
                segs.push(format!("{k}+{n}"));
            }
        };
        for x in xs {
            match x.and_then(|v| self.inv.get(&v).copied().filter(|k| vfun(*k) == v)) {
                Some(k) => match &mut run {
                    Some((k0, n)) if *k0 + *n == k => *n += 1,
                    _ => {
                        flush(&mut run, &mut segs);
                        run = Some((k, 1));
                    }
                },
                None => {
                    flush(&mut run, &mut segs);
                    segs.push(match x {
                        None => "_".into(),
                        Some(v) => format!("#{v}"),
                    });
                }
            }
        }
        flush(&mut run, &mut segs);
        segs.join(",")
    }
    fn enc(&self, xs: &[u64]) -> String {
        self.enc_opt(&xs.iter().map(|x| Some(*x)).collect::<Vec<_>>())
    }
    fn enc1(&self, x: Option<u64>) -> String {
        match x {
            None => "none".into(),
            Some(v) => self.enc(&[v]),
        }
    }
    fn show(&self, o: &Out) -> String {
        match o {
            Out::L(v) => format!("v {}", self.enc(v)),
            Out::O(x) => format!("o {}", self.enc1(*x)),
            Out::E(v) => format!("e {}", self.enc(v)),
            Out::N(x) => format!("n {}", x.map(|v| v.to_string()).unwrap_or("none".into())),
            Out::H(v) => format!("h {}", self.enc_opt(v)),
            Out::R(x) => format!("r {}", x.map(|v| self.enc(&[v])).unwrap_or("err".into())),
            Out::S(items) => format!(
                "s {}",
                if items.is_empty() {
                    "-".to_string()
                } else {
                    items
                        .iter()
                        .map(|i| match i {
                            Item::O(x) => format!("o{}", self.enc1(*x)),
                            Item::L(v) => format!("v{}", self.enc(v)),
                            Item::N(n) => format!("n{n}"),
                        })
                        .collect::<Vec<_>>()
                        .join(";")
                }
            ),
            Out::P => "panic".into(),
            Out::Hang => "hang".into(),
            Out::Bad(s) => format!("bad {s}"),
        }
    }
}

// ------------------------------------------------------------------ read requests
#[derive(Clone, Debug)]
enum Cu {
    G(usize),
    Nx,
    A(usize),
    F(usize),
    P,
    M,
}
#[derive(Clone, Debug, Default)]
struct Rd {
    target: char,
    m: String,
    f: usize,
    t: usize,
    k: usize,
    idx: Vec<usize>,
    script: Vec<Cu>,
    sf: Option<i64>,
    st: Option<i64>,
}
fn rd_token(r: &Rd) -> String {
    let sig = |x: &Option<i64>| x.map(|v| v.to_string()).unwrap_or("n".into());
    let csv = |v: &Vec<usize>| if v.is_empty() { "-".to_string() } else { v.iter().map(|x| x.to_string()).collect::<Vec<_>>().join(",") };
    let body = match r.m.as_str() {
        "cr" | "fr" | "fe" | "mn" | "mx" | "sm" | "ri" | "ci" | "fd" | "cd" | "mnd" | "mxd" | "smd" | "ch" | "so" | "sp" => {
            format!("{}:{}:{}", r.m, r.f, r.t)
        }
        "tf" | "te" => format!("{}:{}:{}:{}", r.m, r.f, r.t, r.k),
        "fo" | "fa" | "co" | "cdy" | "fi" | "la" => r.m.clone(),
        "cs" | "csd" => format!("{}:{}:{}", r.m, sig(&r.sf), sig(&r.st)),
        "c1" | "vg" | "vt" | "ga" | "r1" | "rr" | "gp" => format!("{}:{}", r.m, r.f),
        "rs" | "rsi" => format!("{}:{}", r.m, csv(&r.idx)),
        "cu" | "cud" => format!(
            "{}:{}",
            r.m,
            if r.script.is_empty() {
                "-".to_string()
            } else {
                r.script
                    .iter()
                    .map(|c| match c {
                        Cu::G(i) => format!("g{i}"),
                        Cu::Nx => "n".into(),
                        Cu::A(n) => format!("a{n}"),
                        Cu::F(n) => format!("f{n}"),
                        Cu::P => "p".into(),
                        Cu::M => "m".into(),
                    })
                    .collect::<Vec<_>>()
                    .join(",")
            }
        ),
        _ => r.m.clone(),
    };
    format!("{}.{}", r.target, body)
}
fn parse_rd(tok: &str) -> Rd {
    let (tg, body) = tok.split_once('.').expect("read token");
    let p: Vec<&str> = body.split(':').collect();
    let mut r = Rd { target: tg.chars().next().unwrap(), m: p[0].to_string(), ..Default::default() };
    let us = |s: &str| s.parse::<usize>().unwrap();
    let sig = |s: &str| if s == "n" { None } else { Some(s.parse::<i64>().unwrap()) };
    match p[0] {
        "cr" | "fr" | "fe" | "mn" | "mx" | "sm" | "ri" | "ci" | "fd" | "cd" | "mnd" | "mxd" | "smd" | "ch" | "so" | "sp" => {
            r.f = us(p[1]);
            r.t = us(p[2]);
        }
        "tf" | "te" => {
            r.f = us(p[1]);
            r.t = us(p[2]);
            r.k = us(p[3]);
        }
        "cs" | "csd" => {
            r.sf = sig(p[1]);
            r.st = sig(p[2]);
        }
        "c1" | "vg" | "vt" | "ga" | "r1" | "rr" | "gp" => r.f = us(p[1]),
        "rs" | "rsi" => r.idx = if p[1] == "-" { vec![] } else { p[1].split(',').map(us).collect() },
        "cu" | "cud" => {
            r.script = if p[1] == "-" {
                vec![]
            } else {
                p[1].split(',')
                    .map(|s| match &s[..1] {
                        "g" => Cu::G(us(&s[1..])),
                        "n" => Cu::Nx,
                        "a" => Cu::A(us(&s[1..])),
                        "f" => Cu::F(us(&s[1..])),
                        "p" => Cu::P,
                        _ => Cu::M,
                    })
                    .collect()
            }
        }
        _ => {}
    }
    r
}

const SENT: u64 = 0xAB_CDEF_0123; // sentinel placed in caller buffers (never a v(k) by construction of the check)

fn run_cursor<T: El, V: ReadableVec<usize, T> + ?Sized>(mut c: Cursor<'_, usize, T, V>, script: &[Cu]) -> Out {
    let mut items = vec![];
    for s in script {
        match s {
            Cu::G(i) => items.push(Item::O(c.get(*i).map(|x| x.val()))),
            Cu::Nx => items.push(Item::O(c.next().map(|x| x.val()))),
            Cu::A(n) => c.advance(*n),
            Cu::F(n) => items.push(Item::L(c.fold(*n, Vec::new(), |mut a, x| {
                a.push(x.val());
                a
            }))),
            Cu::P => items.push(Item::N(c.position())),
            Cu::M => items.push(Item::N(c.remaining())),
        }
    }
    Out::S(items)
}

/// the methods that need `Self: Sized`
fn sized_read<T: El, V: ReadableVec<usize, T>>(v: &V, r: &Rd) -> Option<Out> {
    let push = |mut a: Vec<u64>, x: T| {
        a.push(x.val());
        a
    };
    let k = r.k;
    Some(match r.m.as_str() {
        "cr" => Out::L(v.collect_range_at(r.f, r.t).into_iter().map(|x| x.val()).collect()),
        "fr" => Out::L(v.fold_range_at(r.f, r.t, Vec::new(), push)),
        "fe" => {
            let mut a = vec![];
            v.for_each_range_at(r.f, r.t, |x| a.push(x.val()));
            Out::L(a)
        }
        "tf" => match v.try_fold_range_at(r.f, r.t, Vec::new(), |mut a: Vec<u64>, x: T| {
            if a.len() >= k {
                Err(a)
            } else {
                a.push(x.val());
                Ok(a)
            }
        }) {
            Ok(a) => Out::L(a),
            Err(a) => Out::E(a),
        },
        "te" => {
            let mut a = vec![];
            match v.try_for_each_range_at(r.f, r.t, |x: T| {
                if a.len() >= k {
                    Err(())
                } else {
                    a.push(x.val());
                    Ok(())
                }
            }) {
                Ok(()) => Out::L(a),
                Err(()) => Out::E(a),
            }
        }
        "fo" => Out::L(v.fold(Vec::new(), push)),
        "fa" => {
            let mut a = vec![];
            v.for_each(|x| a.push(x.val()));
            Out::L(a)
        }
        "co" => Out::L(v.collect().into_iter().map(|x| x.val()).collect()),
        "mn" => Out::O(v.min_at(r.f, r.t).map(|x| x.val())),
        "mx" => Out::O(v.max_at(r.f, r.t).map(|x| x.val())),
        "sm" => Out::N(v.sum_at(r.f, r.t).map(|x| x.val())),
        "cs" => Out::L(v.collect_signed_range(r.sf, r.st).into_iter().map(|x| x.val()).collect()),
        "cu" => run_cursor(v.cursor(), &r.script),
        _ => return None,
    })
}

/// the object-safe methods, always called through a trait object
fn dyn_read<T: El, V: ReadableVec<usize, T> + ?Sized>(v: &V, r: &Rd) -> Option<Out> {
    let vals = |x: Vec<T>| x.into_iter().map(|y| y.val()).collect::<Vec<u64>>();
    Some(match r.m.as_str() {
        "ri" => {
            let mut buf = vec![T::of(SENT)];
            v.read_into_at(r.f, r.t, &mut buf);
            if buf[0].val() != SENT {
                return Some(Out::Bad("read_into_at-overwrote-caller-prefix".into()));
            }
            Out::L(vals(buf[1..].to_vec()))
        }
        "ci" => {
            let mut buf = vec![T::of(SENT); 3];
            v.collect_range_into_at(r.f, r.t, &mut buf);
            Out::L(vals(buf))
        }
        "fd" => {
            let mut a = vec![];
            v.for_each_range_dyn_at(r.f, r.t, &mut |x| a.push(x.val()));
            Out::L(a)
        }
        "cd" => Out::L(vals(v.collect_range_dyn(r.f, r.t))),
        "cdy" => Out::L(vals(v.collect_dyn())),
        "c1" => Out::O(v.collect_one_at(r.f).map(|x| x.val())),
        "fi" => Out::O(v.collect_first().map(|x| x.val())),
        "la" => Out::O(v.collect_last().map(|x| x.val())),
        "csd" => Out::L(vals(v.collect_signed_range_dyn(r.sf, r.st))),
        "rs" => Out::L(vals(v.read_sorted_at(&r.idx))),
        "rsi" => {
            let mut out = vec![T::of(SENT)];
            v.read_sorted_into_at(&r.idx, &mut out);
            if out[0].val() != SENT {
                return Some(Out::Bad("read_sorted_into_at-overwrote-caller-prefix".into()));
            }
            Out::L(vals(out[1..].to_vec()))
        }
        "mnd" => Out::O(v.min_dyn(r.f, r.t).map(|x| x.val())),
        "mxd" => Out::O(v.max_dyn(r.f, r.t).map(|x| x.val())),
        "smd" => Out::N(v.sum_dyn(r.f, r.t).map(|x| x.val())),
        "cud" => run_cursor(Cursor::new(v), &r.script),
        _ => return None,
    })
}

fn any_read<T: El, V: ReadableVec<usize, T>>(v: &V, r: &Rd) -> Option<Out> {
    sized_read(v, r).or_else(|| dyn_read::<T, dyn ReadableVec<usize, T>>(v as &dyn ReadableVec<usize, T>, r))
}

// ------------------------------------------------------------------ kinds
/// raw-only operations (BytesVec / ZeroCopyVec, reached through Deref to ReadWriteRawVec)
trait RawAcc<T: El> {
    fn update_at_(&mut self, i: usize, v: T) -> Result<(), String>;
    fn delete_at_(&mut self, i: usize);
    fn fill_(&mut self, v: T) -> Result<usize, String>;
    fn holes_(&self) -> Vec<usize>;
    fn updated_(&self) -> Vec<(usize, u64)>;
    fn special(&self, r: &Rd) -> Option<Out>;
}
trait Kind {
    type T: El;
    type V: StoredVec<I = usize, T = Self::T> + 'static;
    const NAME: &'static str;
    const RAW: bool;
    const EAGER: bool = false;
    fn rawacc(_v: &Self::V) -> Option<&dyn RawAcc<Self::T>> {
        None
    }
    fn rawacc_mut(_v: &mut Self::V) -> Option<&mut dyn RawAcc<Self::T>> {
        None
    }
    /// reads that exist only on the concrete read-write type
    fn special(_v: &Self::V, _r: &Rd) -> Option<Out> {
        None
    }
    /// reads that exist only on the concrete read-only clone
    fn ro_special(_v: &<Self::V as StoredVec>::ReadOnly, _r: &Rd) -> Option<Out> {
        None
    }
}

macro_rules! raw_specials {
    ($v:expr, $r:expr) => {{
        let v = $v;
        let r: &Rd = $r;
        match r.m.as_str() {
            "vg" => Some(Out::O(Some(v.reader().get(r.f).val()))),
            "vt" => Some(Out::O(v.reader().try_get(r.f).map(|x| x.val()))),
            "r1" => Some(Out::R(v.read_at_once(r.f).ok().map(|x| x.val()))),
            "ga" => Some(match v.get_any_or_read_at(r.f, &v.create_reader()) {
                Ok(x) => Out::O(x.map(|y| y.val())),
                Err(_) => Out::R(None),
            }),
            "gp" => Some(Out::O(v.get_pushed_or_read_at(r.f, &v.reader()).map(|x| x.val()))),
            "ch" => Some(match v.collect_holed_range(r.f, r.t) {
                Ok(l) => Out::H(l.into_iter().map(|o| o.map(|x| x.val())).collect()),
                Err(_) => Out::R(None),
            }),
            "so" => Some(Out::L(v.fold_stored_io(r.f, r.t, Vec::new(), |mut a, x| {
                a.push(x.val());
                a
            }))),
            "sp" => Some(Out::L(v.fold_stored_mmap(r.f, r.t, Vec::new(), |mut a, x| {
                a.push(x.val());
                a
            }))),
            _ => None,
        }
    }};
}
macro_rules! raw_kind {
    ($k:ident, $name:expr, $vec:ident, $t:ty, $rr:expr) => {
        struct $k;
        impl RawAcc<$t> for $vec<usize, $t> {
            fn update_at_(&mut self, i: usize, v: $t) -> Result<(), String> {
                self.update_at(i, v).map_err(|e| format!("{e:?}"))
            }
            fn delete_at_(&mut self, i: usize) {
                self.delete_at(i)
            }
            fn fill_(&mut self, v: $t) -> Result<usize, String> {
                self.fill_first_hole_or_push(v).map_err(|e| format!("{e:?}"))
            }
            fn holes_(&self) -> Vec<usize> {
                self.holes().iter().copied().collect()
            }
            fn updated_(&self) -> Vec<(usize, u64)> {
                self.updated().iter().map(|(k, v)| (*k, v.val())).collect()
            }
            fn special(&self, _r: &Rd) -> Option<Out> {
                None
            }
        }
        impl Kind for $k {
            type T = $t;
            type V = $vec<usize, $t>;
            const NAME: &'static str = $name;
            const RAW: bool = true;
            fn rawacc(v: &Self::V) -> Option<&dyn RawAcc<$t>> {
                Some(v)
            }
            fn rawacc_mut(v: &mut Self::V) -> Option<&mut dyn RawAcc<$t>> {
                Some(v)
            }
            fn special(v: &Self::V, r: &Rd) -> Option<Out> {
                if r.m == "rr" {
                    let f: fn(&Self::V, &Rd) -> Option<Out> = $rr;
                    return f(v, r);
                }
                raw_specials!(v, r)
            }
            fn ro_special(v: &<Self::V as StoredVec>::ReadOnly, r: &Rd) -> Option<Out> {
                match r.m.as_str() {
                    "vg" => Some(Out::O(Some(v.reader().get(r.f).val()))),
                    "vt" => Some(Out::O(v.reader().try_get(r.f).map(|x| x.val()))),
                    "r1" => Some(Out::R(v.read_at_once(r.f).ok().map(|x| x.val()))),
                    _ => None,
                }
            }
        }
    };
}
raw_kind!(KBytes, "bytes", BytesVec, u64, |_v, _r| None);
raw_kind!(KBytesN, "bytesn", BytesVec, N5, |_v, _r| None);
raw_kind!(KZc, "zc", ZeroCopyVec, u64, |v, r| {
    let reader = v.create_reader();
    Some(Out::O(v.read_ref_at(r.f, &reader).copied()))
});

macro_rules! comp_kind {
    ($k:ident, $name:expr, $vec:ident) => {
        struct $k;
        impl Kind for $k {
            type T = u64;
            type V = $vec<usize, u64>;
            const NAME: &'static str = $name;
            const RAW: bool = false;
            fn special(v: &Self::V, r: &Rd) -> Option<Out> {
                match r.m.as_str() {
                    "so" => Some(Out::L(v.fold_stored_io(r.f, r.t, Vec::new(), |mut a, x| {
                        a.push(x);
                        a
                    }))),
                    "sp" => Some(Out::L(v.fold_stored_mmap(r.f, r.t, Vec::new(), |mut a, x| {
                        a.push(x);
                        a
                    }))),
                    _ => None,
                }
            }
        }
    };
}
comp_kind!(KPco, "pco", PcoVec);
comp_kind!(KLz4, "lz4", LZ4Vec);
comp_kind!(KZstd, "zstd", ZstdVec);

struct KEBytes;
impl Kind for KEBytes {
    type T = u64;
    type V = EagerVec<BytesVec<usize, u64>>;
    const NAME: &'static str = "ebytes";
    const RAW: bool = true;
    const EAGER: bool = true;
}
struct KEPco;
impl Kind for KEPco {
    type T = u64;
    type V = EagerVec<PcoVec<usize, u64>>;
    const NAME: &'static str = "epco";
    const RAW: bool = false;
    const EAGER: bool = true;
}

// ------------------------------------------------------------------ reference (spec side)
#[derive(Clone, Default)]
struct Snap {
    vals: Vec<u64>,
    holes: BTreeSet<usize>,
}
impl Snap {
    fn range(&self, f: usize, t: usize) -> Vec<u64> {
        let l = self.vals.len();
        let (f, t) = (f.min(l), t.min(l));
        if f >= t {
            return vec![];
        }
        (f..t).filter(|i| !self.holes.contains(i)).map(|i| self.vals[i]).collect()
    }
    fn at(&self, i: usize) -> Option<u64> {
        if i < self.vals.len() && !self.holes.contains(&i) { Some(self.vals[i]) } else { None }
    }
    fn truncated(&self, n: usize) -> Snap {
        let n = n.min(self.vals.len());
        Snap { vals: self.vals[..n].to_vec(), holes: self.holes.iter().copied().filter(|h| *h < n).collect() }
    }
}

// ------------------------------------------------------------------ one case
struct Phase {
    ops: Vec<String>,
    reads: Vec<String>,
}
struct CaseIn {
    kind: String,
    ssc: u16,
    phases: Vec<Phase>,
}
fn parse_case(line: &str) -> CaseIn {
    let t: Vec<&str> = line.split(' ').filter(|x| !x.is_empty()).collect();
    let mut c = CaseIn { kind: t[0].to_string(), ssc: t[1].parse().unwrap(), phases: vec![] };
    let mut mode = ' ';
    for x in &t[2..] {
        match *x {
            "H" => {
                c.phases.push(Phase { ops: vec![], reads: vec![] });
                mode = 'H';
            }
            "S" => mode = 'S',
            "R" => mode = 'R',
            tok => match mode {
                'H' => c.phases.last_mut().unwrap().ops.push(tok.to_string()),
                'R' => c.phases.last_mut().unwrap().reads.push(tok.to_string()),
                _ => {}
            },
        }
    }
    c
}

struct Report {
    iline: String,
    o: Vec<String>,
    v: Vec<String>,
    m: BTreeSet<String>,
}

fn per_page(sz: usize) -> usize {
    16384 / sz
}

fn run_case<K: Kind>(c: &CaseIn) -> Report {
    let dir = tempfile::tempdir().unwrap();
    let db = Database::open(dir.path()).unwrap();
    let sz = <K::T as El>::SZ;
    let mut rep = Report { iline: format!("{} {}", c.kind, c.ssc), o: vec![], v: vec![], m: BTreeSet::new() };
    let opts = ImportOptions::new(&db, "v", Version::ONE).with_saved_stamped_changes(c.ssc);
    let inner: K::V = <K::V as ImportableVec>::forced_import_with(opts).unwrap();
    let mut cv = CachedVec::wrap(inner);
    let ro = cv.inner.read_only_clone();
    let cq = vecdb::ReadOnlyClone::read_only_clone(&cv);
    let boxed: ReadableBoxedVec<usize, K::T> = cv.inner.read_only_boxed_clone();
    let mut names = Names { inv: HashMap::new(), next: 0 };
    let mut cur = Snap::default(); // logical contents
    let mut flushed = Snap::default(); // contents as of the last successful write
    let mut commits: Vec<Snap> = vec![Snap::default()];
    let mut stamp: u64 = 0;
    let mut after_rollback = false;
    let mut muts: BTreeSet<char> = BTreeSet::new(); // mutating op kinds since the last cached read
    let mut last_cached_len: Option<usize> = None;
    let mut cache_poison: Option<usize> = None;
    let mut dead = false;
    let mut ref_off = false;
    let trace = std::env::var("READS_TRACE").is_ok();
    if trace {
        eprintln!("case {} {}", c.kind, c.ssc);
    }
    rep.m.insert(format!("kind:{}", K::NAME));

    'phases: for ph in &c.phases {
        rep.iline.push_str(" H");
        // ---------------------------------------------------------------- history
        for op in &ph.ops {
            if dead {
                break;
            }
            if trace {
                eprintln!("op {op}");
            }
            let p: Vec<&str> = op.split(':').collect();
            let arg = |i: usize| p.get(i).map(|s| s.parse::<usize>().unwrap()).unwrap_or(0);
            let rstart0 = cv.inner.region().meta().start();
            rec_on();
            let res: Result<Result<(), String>, _> = catch_unwind(AssertUnwindSafe(|| -> Result<(), String> {
                let v = &mut cv.inner;
                let stored = v.stored_len();
                match p[0] {
                    "p" => {
                        for _ in 0..arg(1) {
                            let x = names.fresh();
                            v.push(<K::T as El>::of(x));
                            cur.vals.push(x);
                        }
                    }
                    "w" => {
                        v.flush().map_err(|e| format!("{e:?}"))?;
                        flushed = cur.clone();
                        after_rollback = false;
                    }
                    "s" => {
                        stamp += 1;
                        v.stamped_write_with_changes(Stamp::new(stamp)).map_err(|e| format!("{e:?}"))?;
                        v.region().flush().map_err(|e| format!("{e:?}"))?;
                        flushed = cur.clone();
                        commits.push(cur.clone());
                        after_rollback = false;
                    }
                    "r" => {
                        if commits.len() < 2 {
                            return Err("no-commit".into());
                        }
                        let _ = v.rollback_before(Stamp::new(stamp)).map_err(|e| format!("{e:?}"))?;
                        stamp -= 1;
                        commits.pop();
                        cur = commits.last().unwrap().clone();
                        after_rollback = true;
                    }
                    "t" => {
                        let n = arg(1);
                        v.truncate_if_needed_at(n).map_err(|e| format!("{e:?}"))?;
                        if n < cur.vals.len() {
                            cur = cur.truncated(n);
                        }
                    }
                    "u" => {
                        let i = arg(1);
                        let Some(a) = K::rawacc_mut(v) else { return Err("unsupported".into()) };
                        let x = names.fresh();
                        a.update_at_(i, <K::T as El>::of(x))?;
                        cur.vals[i] = x;
                        cur.holes.remove(&i); // an updated slot is no longer deleted (stored and buffered alike)
                        let _ = stored;
                    }
                    "d" => {
                        let i = arg(1);
                        let Some(a) = K::rawacc_mut(v) else { return Err("unsupported".into()) };
                        a.delete_at_(i);
                        if i < cur.vals.len() {
                            cur.holes.insert(i);
                        }
                    }
                    "f" => {
                        let Some(a) = K::rawacc_mut(v) else { return Err("unsupported".into()) };
                        let x = names.fresh();
                        let got = a.fill_(<K::T as El>::of(x))?;
                        if let Some(h) = cur.holes.iter().next().copied() {
                            cur.holes.remove(&h);
                            cur.vals[h] = x;
                            if got != h {
                                return Err("fill-index".into());
                            }
                        } else {
                            cur.vals.push(x);
                        }
                    }
                    _ => return Err("bad-op".into()),
                }
                Ok(())
            }));
            let evs = rec_off();
            muts.insert(p[0].chars().next().unwrap());
            rep.iline.push(' ');
            rep.iline.push_str(op);
            match res {
                Ok(Ok(())) => {}
                Ok(Err(e)) => {
                    // an operation that fails is another property's subject (C04/C13): stop judging this case
                    rep.m.insert(format!("op-error:{}:{}", p[0], e.split(|c: char| !c.is_alphanumeric()).next().unwrap_or("")));
                    dead = true;
                }
                Err(_) => {
                    rep.m.insert(format!("op-panic:{}", p[0]));
                    dead = true;
                }
            }
            // C20 also holds for what a write path reads back (partial-page decode, change records)
            let (rstart, rlen) = {
                let m = cv.inner.region().meta();
                (m.start(), m.len())
            };
            for e in &evs {
                if let rawdb::verif_tap::Event::Access { region_start, region_len, offset, len } = e {
                    if *len != MAXU && (*region_start == rstart || *region_start == rstart0) && offset + len > *region_len {
                        rep.v.push(format!("C20:write-path-{}-reads-outside-region kind={} access={offset}+{len} region_len={region_len}", p[0], K::NAME));
                    }
                }
            }
            let _ = rlen;
        }
        if dead {
            break 'phases;
        }
        // ---------------------------------------------------------------- state dump (from the real state)
        let v = &cv.inner;
        let (rstart, rlen) = {
            let m = v.region().meta();
            (m.start(), m.len())
        };
        let stored = v.stored_len();
        let pushed: Vec<u64> = v.pushed().iter().map(|x| x.val()).collect();
        let len = v.len();
        let region_bytes: Vec<u8> = v.region().create_reader().read_all().to_vec();
        let mut wf = true;
        let mut dump = format!("S sz={sz} rl={rlen} sl={stored} pushed={}", names.enc(&pushed));
        let mut n_disk = 0usize;
        let mut n_holes = 0usize;
        let mut n_upd = 0usize;
        let mut n_pages = 0usize;
        if K::RAW {
            let data = &region_bytes[32.min(region_bytes.len())..];
            let disk: Vec<u64> = data
                .chunks_exact(sz)
                .map(|ch| {
                    let mut b = [0u8; 8];
                    b[..sz].copy_from_slice(ch);
                    u64::from_le_bytes(b)
                })
                .collect();
            n_disk = disk.len();
            let (holes, upd) = match K::rawacc(v) {
                Some(a) => (a.holes_(), a.updated_()),
                None => (vec![], vec![]),
            };
            n_holes = holes.len();
            n_upd = upd.len();
            let hs: BTreeSet<usize> = holes.iter().copied().collect();
            let us: BTreeMap<usize, u64> = upd.iter().copied().collect();
            wf &= (rlen - 32) % sz == 0;
            wf &= us.keys().all(|k| *k < stored);
            wf &= (disk.len()..stored).all(|i| hs.contains(&i) || us.contains_key(&i));
            dump.push_str(&format!(
                " disk={} holes={} upd={}",
                names.enc(&disk),
                if holes.is_empty() { "-".to_string() } else { holes.iter().map(|h| h.to_string()).collect::<Vec<_>>().join(",") },
                if upd.is_empty() {
                    "-".to_string()
                } else {
                    upd.iter().map(|(k, x)| format!("{k}:{}", names.enc(&[*x]))).collect::<Vec<_>>().join(",")
                }
            ));
            // the reference itself is cross-checked against the overlay formula of DESIGN appendix B.1
            for i in 0..len {
                let view = if hs.contains(&i) {
                    None
                } else if i < stored {
                    us.get(&i).copied().or_else(|| disk.get(i).copied())
                } else {
                    pushed.get(i - stored).copied()
                };
                if view != cur.at(i) || cur.vals.len() != len {
                    rep.m.insert("reference-off".into());
                    dead = true;
                    ref_off = true;
                    break;
                }
            }
        } else {
            let pname = format!("{}_pages", v.region().meta().id());
            let pbytes: Vec<u8> = db.get_region(&pname).map(|r| r.create_reader().read_all().to_vec()).unwrap_or_default();
            let pp = per_page(sz);
            let mut toks = vec![];
            let mut total = 0usize;
            for (pi, ch) in pbytes.chunks_exact(16).enumerate() {
                let (start, bytes, _vals, is_raw, count, _end) = vecdb::verif_hooks::page_from_bytes(ch).unwrap();
                let lo = (pi * pp).min(flushed.vals.len());
                let hi = (pi * pp + count as usize).min(flushed.vals.len());
                let vals = &flushed.vals[lo..hi];
                wf &= vals.len() == count as usize;
                wf &= (start as usize + bytes as usize) <= rlen && start as usize >= 32;
                if is_raw {
                    // raw pages can be decoded here: cross-check the committed reference
                    let raw = &region_bytes[(start as usize).min(region_bytes.len())..((start as usize + bytes as usize).min(region_bytes.len()))];
                    let dec: Vec<u64> = raw.chunks_exact(8).map(|c| u64::from_le_bytes(c.try_into().unwrap())).collect();
                    if dec != vals {
                        wf = false;
                    }
                }
                total += count as usize;
                toks.push(format!("{}:{}:{}:{}", is_raw as u8, start, bytes, names.enc(vals)));
            }
            n_pages = toks.len();
            wf &= stored <= total;
            dump.push_str(&format!(" pages={}", if toks.is_empty() { "-".to_string() } else { toks.join(";") }));
            if cur.vals.len() != len || (0..len).any(|i| {
                let view = if i < stored { flushed.vals.get(i).copied() } else { pushed.get(i - stored).copied() };
                view != cur.at(i)
            }) {
                // the harness's own reference lost track of the vector (rollback sequences it does not follow):
                // the state dump is still checked by the model (`wf`), the reads of this phase are not drawn
                rep.m.insert("reference-off".into());
                dead = true;
                ref_off = true;
            }
        }
        rep.iline.push(' ');
        rep.iline.push_str(&dump);
        rep.iline.push_str(" R");
        if dead {
            if ref_off {
                rep.o.push(format!("wf {}", wf as u8));
            }
            break 'phases;
        }
        rep.o.push(format!("wf {}", wf as u8));
        if !wf {
            rep.v.push(format!("C08:state-violates-read-wellformedness {}", K::NAME));
            rep.v.push(format!("C20:state-violates-read-wellformedness {}", K::NAME));
        }
        let dirty = n_holes > 0 || n_upd > 0;
        let regime = format!(
            "{}{}{}{}",
            if dirty { "dirty" } else { "clean" },
            if !pushed.is_empty() && stored > 0 { "+mixed" } else if !pushed.is_empty() { "+buffered" } else { "+stored" },
            if K::RAW && stored > n_disk { "+expanded" } else { "" },
            if after_rollback { "+rolledback" } else { "" }
        );
        rep.m.insert(format!("regime:{regime}"));
        if len * sz > 16384 {
            rep.m.insert("multi-page".into());
        }
        if len > 4096 {
            rep.m.insert("multi-chunk".into());
        }
        if n_pages > 1 {
            rep.m.insert("pages>1".into());
        }
        if stored * sz > 524288 {
            rep.m.insert("io-multi-buffer".into());
        }
        // what the lean read-only clones are expected to show: the flushed contents below the shared stored_len
        // (after a rollback: the rolled-back contents below stored_len)
        let ro_ref = if after_rollback { cur.truncated(stored) } else { flushed.truncated(stored) };

        // ---------------------------------------------------------------- reads
        let mut reads: Vec<String> = vec![];
        for tok in &ph.reads {
            if let Some(n) = tok.strip_prefix('?') {
                let n: usize = n.parse().unwrap();
                READ_RNG.with(|r| {
                    let mut g = r.borrow_mut();
                    let rng = g.as_mut().expect("read rng");
                    reads.extend(gen_reads(rng, n, &c.kind, len, stored, sz, len > 20000));
                });
            } else {
                reads.push(tok.clone());
            }
        }
        for tok in &reads {
            rep.iline.push(' ');
            rep.iline.push_str(tok);
            if let Some(n) = tok.strip_prefix("x:") {
                vecdb::verif_hooks::MMAP_CROSSOVER_BYTES.set(n.parse().unwrap());
                rep.m.insert(if n == "0" { "backend:io".into() } else { "backend:mmap".to_string() });
                continue;
            }
            if trace {
                eprintln!("read {tok}");
            }
            let r = parse_rd(tok);
            let base = db.mmap().as_ptr() as usize;
            let maplen = db.mmap().len();
            rec_on();
            let out = catch_unwind(AssertUnwindSafe(|| -> Option<Out> {
                match r.target {
                    'd' => K::special(&cv.inner, &r).or_else(|| any_read::<K::T, _>(&cv.inner, &r)),
                    'o' => K::ro_special(&ro, &r).or_else(|| any_read::<K::T, _>(&ro, &r)),
                    'c' => any_read::<K::T, _>(&cv, &r),
                    'q' => any_read::<K::T, _>(&cq, &r),
                    'y' => dyn_read::<K::T, _>(&*boxed, &r),
                    _ => None,
                }
            }));
            let evs = rec_off();
            let out = match out {
                Ok(Some(o)) => o,
                Ok(None) => {
                    rep.o.push("unsupported".into());
                    continue;
                }
                Err(_) if HANG.load(std::sync::atomic::Ordering::Relaxed) => Out::Hang,
                Err(_) => Out::P,
            };
            let evs = if matches!(out, Out::Hang) { vec![] } else { evs };
            // ---- accesses
            use rawdb::verif_tap::Event;
            let mut acc: Vec<(i128, usize)> = vec![];
            for e in &evs {
                match e {
                    Event::Access { region_start, offset, len, .. } => {
                        if *len == MAXU || *region_start != rstart {
                            continue; // `prefixed` hands out "to the end of the map": judged by its consumers
                        }
                        acc.push((*offset as i128, *len));
                    }
                    Event::PtrRead { addr, len } => {
                        if *addr >= base && *addr < base + maplen {
                            acc.push(((*addr - base) as i128 - rstart as i128, *len));
                        }
                    }
                    Event::FileRead { offset, len } => acc.push((*offset as i128 - rstart as i128, *len)),
                    _ => {}
                }
            }
            let bad = acc.iter().find(|(o, l)| *o < 0 || *o as u128 + *l as u128 > rlen as u128);
            let fam = family(&r.m);
            if let Some((o, l)) = bad {
                // `expanded`: stored_len is above what the region holds.  Right after a rollback that is the
                // documented overlay state; when it survives a commit (a restored tail slot deleted before
                // the commit) the write path left the region short of stored_len
                let left_short = K::RAW && stored > n_disk && !after_rollback;
                let key = match r.target {
                    'o' | 'q' | 'y' if after_rollback => "read-only-clone-reads-past-region-after-rollback".to_string(),
                    'o' | 'q' | 'y' if left_short => "read-only-clone-reads-past-region-left-short-by-commit-after-rollback".to_string(),
                    'o' | 'q' | 'y' => format!("read-only-clone-{fam}-reads-outside-region"),
                    _ if after_rollback => format!("{fam}-reads-outside-region-after-rollback"),
                    _ if left_short => format!("{fam}-reads-outside-region-left-short-by-commit-after-rollback"),
                    _ => format!("{fam}-reads-outside-region"),
                };
                rep.v.push(format!("C20:{key} kind={} read={tok} access={o}+{l} region_len={rlen} regime={regime}", K::NAME));
            }
            // ---- expected (spec)
            let is_cached = r.target == 'c' || r.target == 'q';
            let sref: &Snap = match r.target {
                'o' | 'y' | 'q' => &ro_ref,
                _ => &cur,
            };
            if is_cached {
                // a cached read whose key (len) differs from the previous cached read's refills the snapshot
                let tl = if r.target == 'c' { len } else { stored };
                if last_cached_len != Some(tl) {
                    muts.clear();
                    last_cached_len = Some(tl);
                    cache_poison = None;
                }
                if bad.is_some() {
                    cache_poison = Some(tl); // the snapshot now holds bytes from outside the region
                }
            }
            let mut verdict = judge(&r, &out, sref, stored, dirty);
            if r.target == 'q' && verdict.is_some() && judge(&r, &out, &cur, stored, dirty).is_none() {
                verdict = None; // the shared cache may legitimately hold the writer's snapshot
            }
            if let Some(why) = verdict {
                let holes_here = !sref.holes.is_empty();
                let key = match (r.target, fam, why) {
                    (_, _, "bad") => "caller-buffer-prefix-overwritten".to_string(),
                    ('c' | 'q', _, _) if ['u', 'd', 'f', 't', 'r'].iter().any(|ch| muts.contains(ch)) => {
                        let nm = [('u', "update"), ('d', "delete"), ('f', "fill"), ('t', "truncate-push"), ('r', "rollback")]
                            .iter()
                            .find(|(ch, _)| muts.contains(ch))
                            .unwrap()
                            .1;
                        format!("cached-vec-stale-after-{nm}")
                    }
                    ('c' | 'q', _, _) if holes_here || !cur.holes.is_empty() || !flushed.holes.is_empty() => {
                        "cached-vec-index-shift-with-deleted-slots".to_string()
                    }
                    ('c' | 'q', _, "wrong-result") if !after_rollback => "cached-vec-shared-cache-serves-other-wrapper-snapshot".to_string(),
                    ('q', _, "wrong-result") => "read-only-clone-wrong-after-rollback".to_string(),
                    ('c', _, "wrong-result") => "cached-vec-stale-after-rollback".to_string(),
                    ('c' | 'q', _, _) => format!("cached-vec-{fam}-{why}"),
                    ('o' | 'y', _, _) if after_rollback => "read-only-clone-wrong-after-rollback".to_string(),
                    ('o' | 'y', _, _) if !flushed.holes.is_empty() => "read-only-clone-ignores-deleted-slots".to_string(),
                    ('o' | 'y', _, _) => format!("read-only-clone-{fam}-{why}"),
                    (_, "sorted", "panic") => format!("read-sorted-panics-on-deleted-{}-slot", hole_side(sref, stored)),
                    (_, "sorted", _) if holes_here => "read-sorted-wrong-value-after-deleted-slot".to_string(),
                    (_, "cursor", "hang") if holes_here => "cursor-fold-never-terminates-after-deleted-slot".to_string(),
                    (_, "cursor", "panic") if holes_here => format!("cursor-panics-on-deleted-{}-slot", hole_side(sref, stored)),
                    (_, "cursor", _) if holes_here => "cursor-wrong-value-after-deleted-slot".to_string(),
                    _ => format!("{fam}-{why}-{}", regime.replace('+', "-")),
                };
                rep.v.push(format!("C08:{key} kind={} read={tok} got={} regime={regime}", K::NAME, clip(&names.show(&out))));
            }
            rep.m.insert(format!("m:{}.{}", r.target, r.m));
            if matches!(out, Out::P) {
                rep.m.insert("panic".into());
            }
            // a result computed from bytes outside the region is not predictable: both sides print `oob`
            let poisoned = is_cached && cache_poison.is_some() && cache_poison == last_cached_len;
            let shown = if (bad.is_some() || poisoned) && !matches!(out, Out::P | Out::Hang) { "oob".to_string() } else { names.show(&out) };
            // (and its access list is not compared either: once a script has read outside the region the model stops
            // following it; the outside access itself is reported by the C20 oracle above, with offset and length)
            rep.o.push(format!("{} @ {}", shown, if shown == "oob" { "*".to_string() } else { enc_acc(&acc) }));
        }
    }
    vecdb::verif_hooks::MMAP_CROSSOVER_BYTES.set(1024 * 1024 * 1024);
    rep
}

fn clip(s: &str) -> String {
    if s.len() > 120 { format!("{}…", &s[..120]) } else { s.to_string() }
}
fn hole_side(s: &Snap, stored: usize) -> &'static str {
    if s.holes.iter().any(|h| *h < stored) { "stored" } else { "buffered" }
}
fn family(m: &str) -> &'static str {
    match m {
        "cr" | "cd" | "ri" | "ci" | "cdy" | "co" | "cs" | "csd" => "read-into",
        "fr" | "fe" | "fd" | "fo" | "fa" | "mn" | "mx" | "sm" | "mnd" | "mxd" | "smd" => "fold-range",
        "tf" | "te" => "try-fold-range",
        "c1" | "fi" | "la" => "collect-one",
        "rs" | "rsi" => "sorted",
        "cu" | "cud" => "cursor",
        "vg" | "vt" | "r1" | "gp" => "vec-reader",
        "ga" | "ch" => "get-any",
        "so" => "fold-stored-io",
        "sp" => "fold-stored-mmap",
        "rr" => "read-ref",
        _ => "other",
    }
}

/// run-length form of an access list: `off:len*count` where consecutive accesses are contiguous
fn enc_acc(acc: &[(i128, usize)]) -> String {
    if acc.is_empty() {
        return "-".into();
    }
    let mut segs: Vec<(i128, usize, usize)> = vec![];
    for (o, l) in acc {
        match segs.last_mut() {
            Some((o0, l0, n)) if *l0 == *l && *l > 0 && *o0 + (*l0 as i128) * (*n as i128) == *o => *n += 1,
            _ => segs.push((*o, *l, 1)),
        }
    }
    segs.iter().map(|(o, l, n)| if *n == 1 { format!("{o}:{l}") } else { format!("{o}:{l}*{n}") }).collect::<Vec<_>>().join(",")
}

fn i64_to_usize(i: i64, len: usize) -> usize {
    if i >= 0 { i as usize } else { (len as i64 + i).max(0) as usize }
}

/// Spec-level judgement of one result against the reference; None = as specified.
fn judge(r: &Rd, out: &Out, s: &Snap, stored: usize, dirty: bool) -> Option<&'static str> {
    let len = s.vals.len();
    let wrong = |ok: bool| if ok { None } else { Some("wrong-result") };
    if let Out::Bad(_) = out {
        return Some("bad");
    }
    if let Out::Hang = out {
        return Some("hang");
    }
    let exp_range = |f: usize, t: usize| s.range(f, t);
    match r.m.as_str() {
        // contract: VecReader::get panics for index >= stored_len; it and try_get / read_at_once / fold_stored_*
        // see stored values only and ignore holes/updates by documentation: judged on clean stored data only
        "vg" => match out {
            Out::P => if r.f >= stored { None } else { Some("panic") },
            Out::O(x) => if dirty { None } else { wrong(r.f < stored && *x == s.at(r.f)) },
            _ => Some("wrong-result"),
        },
        "vt" => match out {
            Out::P => Some("panic"),
            Out::O(x) => if dirty { None } else { wrong(*x == if r.f < stored { s.at(r.f) } else { None }) },
            _ => Some("wrong-result"),
        },
        "gp" => match out {
            Out::P => if r.f >= stored { Some("panic") } else { None },
            Out::O(x) => if dirty { None } else { wrong(*x == s.at(r.f)) },
            _ => Some("wrong-result"),
        },
        "r1" => match out {
            Out::P => Some("panic"),
            Out::R(x) => if dirty { None } else { wrong(*x == s.at(r.f)) },
            _ => Some("wrong-result"),
        },
        "so" | "sp" => match out {
            Out::P => Some("panic"),
            Out::L(l) => if dirty { None } else { wrong(*l == exp_range(r.f.min(stored), r.t.min(stored))) },
            _ => Some("wrong-result"),
        },
        _ if matches!(out, Out::P) => Some("panic"),
        "cr" | "cd" | "ri" | "ci" | "fr" | "fe" | "fd" => match out {
            Out::L(l) => wrong(*l == exp_range(r.f, r.t)),
            _ => Some("wrong-result"),
        },
        "co" | "cdy" | "fo" | "fa" => match out {
            Out::L(l) => wrong(*l == exp_range(0, len)),
            _ => Some("wrong-result"),
        },
        "cs" | "csd" => {
            let f = r.sf.map(|i| i64_to_usize(i, len)).unwrap_or(0);
            let t = r.st.map(|i| i64_to_usize(i, len)).unwrap_or(len);
            match out {
                Out::L(l) => wrong(*l == exp_range(f, t)),
                _ => Some("wrong-result"),
            }
        }
        "tf" | "te" => {
            let e = exp_range(r.f, r.t);
            match out {
                Out::L(l) => wrong(e.len() <= r.k && *l == e),
                Out::E(l) => wrong(e.len() > r.k && *l == e[..r.k]),
                _ => Some("wrong-result"),
            }
        }
        "mn" | "mnd" => match out {
            Out::O(x) => wrong(*x == exp_range(r.f, r.t).into_iter().min()),
            _ => Some("wrong-result"),
        },
        "mx" | "mxd" => match out {
            Out::O(x) => wrong(*x == exp_range(r.f, r.t).into_iter().max()),
            _ => Some("wrong-result"),
        },
        "sm" | "smd" => {
            let e = exp_range(r.f, r.t);
            let exp = if e.is_empty() { None } else { Some(e.iter().fold(0u64, |a, b| a.wrapping_add(*b))) };
            match out {
                Out::N(x) => wrong(match (x, exp) {
                    (None, None) => true,
                    (Some(a), Some(b)) => *a == b || *a == (b & MASK40),
                    _ => false,
                }),
                _ => Some("wrong-result"),
            }
        }
        "c1" | "ga" | "rr0" => match out {
            Out::O(x) => wrong(*x == s.at(r.f)),
            _ => Some("wrong-result"),
        },
        "rr" => match out {
            // read_ref_at: a reference into the map, or None for deleted / buffered / updated slots
            Out::O(Some(x)) => wrong(Some(*x) == s.at(r.f)),
            Out::O(None) => None,
            _ => Some("wrong-result"),
        },
        "fi" => match out {
            Out::O(x) => wrong(*x == s.at(0)),
            _ => Some("wrong-result"),
        },
        "la" => match out {
            Out::O(x) => wrong(len > 0 && *x == s.at(len - 1) || len == 0 && x.is_none()),
            _ => Some("wrong-result"),
        },
        "ch" => match out {
            Out::H(l) => {
                let (f, t) = (r.f.min(len), r.t.min(len));
                let e: Vec<Option<u64>> = if f >= t { vec![] } else { (f..t).map(|i| s.at(i)).collect() };
                wrong(*l == e)
            }
            _ => Some("wrong-result"),
        },
        "rs" | "rsi" => match out {
            Out::L(l) => wrong(*l == r.idx.iter().filter_map(|i| s.at(*i)).collect::<Vec<_>>()),
            _ => Some("wrong-result"),
        },
        "cu" | "cud" => match out {
            Out::S(items) => {
                // sequential semantics are specified on vectors without deleted slots; with deleted slots only
                // `get` (index-addressed) is judged
                let holes = !s.holes.is_empty();
                let mut pos = 0usize;
                let mut it = items.iter();
                for c in &r.script {
                    match c {
                        Cu::G(i) => match it.next() {
                            Some(Item::O(x)) if *x == s.at(*i) => {}
                            _ => return Some("wrong-result"),
                        },
                        Cu::Nx => match it.next() {
                            Some(Item::O(x)) => {
                                if !holes && *x != s.at(pos) {
                                    return Some("wrong-result");
                                }
                                if x.is_some() {
                                    pos += 1;
                                }
                            }
                            _ => return Some("wrong-result"),
                        },
                        Cu::A(n) => pos = pos.saturating_add(*n).min(len),
                        Cu::F(n) => {
                            let target = pos.saturating_add(*n).min(len);
                            match it.next() {
                                Some(Item::L(l)) => {
                                    if !holes && *l != s.range(pos, target) {
                                        return Some("wrong-result");
                                    }
                                }
                                _ => return Some("wrong-result"),
                            }
                            pos = target;
                        }
                        Cu::P => match it.next() {
                            Some(Item::N(n)) if holes || *n == pos => {}
                            _ => return Some("wrong-result"),
                        },
                        Cu::M => match it.next() {
                            Some(Item::N(n)) if holes || *n == len - pos => {}
                            _ => return Some("wrong-result"),
                        },
                    }
                }
                None
            }
            _ => Some("wrong-result"),
        },
        _ => None,
    }
}

// ------------------------------------------------------------------ generator
fn gen_case(rng: &mut Rng, n: u64) -> CaseIn {
    let kinds = ["bytes", "bytes", "bytes", "bytesn", "bytesn", "zc", "zc", "pco", "pco", "lz4", "zstd", "ebytes", "epco"];
    // the first cases of every run are directed: each raw layout once with more than one IO buffer of stored
    // data (a non-power-of-two element size among them), each compressed codec once with several pages
    let forced: Option<(&str, bool)> = match n {
        0 => Some(("bytesn", true)), 1 => Some(("bytes", true)), 2 => Some(("zc", true)),
        3 => Some(("pco", false)), 4 => Some(("lz4", false)), 5 => Some(("zstd", false)),
        _ => None,
    };
    if n == 6 || n == 7 || n == 8 {
        // directed: the write path right after the rollback of a truncating commit (stored_len above the on-disk
        // length, the tail in the overlay), with the LAST restored slot / a middle restored slot deleted or values
        // pushed before the commit: afterwards the region must back every stored slot (every stored-bound read
        // path is then drawn over it)
        let kind = ["bytes", "zc", "bytesn"][(n - 6) as usize].to_string();
        let total = rng.range(8, 40) as usize;
        let cut = total - rng.range(2, 5) as usize;
        let mut ops: Vec<String> = vec![format!("p:{total}"), "s".into(), format!("t:{cut}"), "s".into(), "r".into()];
        match rng.below(3) {
            0 => ops.push(format!("d:{}", total - 1)),
            1 => ops.push(format!("d:{}", cut + rng.below((total - cut) as u64) as usize)),
            _ => ops.push(format!("p:{}", rng.range(1, 4))),
        }
        ops.push("s".into());
        let reads = vec![format!("?{}", rng.range(14, 20))];
        return CaseIn { kind, ssc: 3, phases: vec![Phase { ops, reads }] };
    }
    if n == 9 || n == 10 {
        // directed: a slot deleted while it is still in the pushed buffer (before any write), read back through
        // every point-read path and the whole-range paths
        let kind = ["bytes", "zc"][(n - 9) as usize].to_string();
        let stored = rng.range(3, 30) as usize;
        let extra = rng.range(2, 6) as usize;
        let victim = stored + rng.below(extra as u64) as usize;
        let last = stored + extra - 1;
        let ops: Vec<String> = vec![format!("p:{stored}"), "w".into(), format!("p:{extra}"), format!("d:{victim}"), format!("d:{last}")];
        let mut reads = vec!["x:0".to_string()];
        for t in ['d', 'y'] {
            reads.push(format!("{t}.c1:{victim}"));
            reads.push(format!("{t}.c1:{last}"));
            reads.push(format!("{t}.la"));
        }
        reads.push(format!("d.ga:{victim}"));
        reads.push("d.ch:0:18446744073709551615".into());
        reads.push("d.co".into());
        reads.push(format!("?{}", rng.range(8, 14)));
        return CaseIn { kind, ssc: 0, phases: vec![Phase { ops, reads }] };
    }
    if n == 11 || n == 12 {
        // directed: a rollback restores a slot that is BOTH deleted and carries an overlay entry (delete, commit,
        // update the same slot, commit, roll the update back); later slots are then updated without a commit, so
        // the folds over the dirty state must step over the deleted slot's overlay entry and still serve the later
        // slots from the overlay (fold_dirty and try_fold_dirty are separate code)
        let kind = ["bytes", "zc"][(n - 11) as usize].to_string();
        let total = rng.range(8, 30) as usize;
        let i = rng.range(1, (total - 4) as u64) as usize;
        let j = i + 1 + rng.below((total - i - 2) as u64) as usize;
        let ops: Vec<String> = vec![format!("p:{total}"), "s".into(), format!("d:{i}"), "s".into(), format!("u:{i}"), "s".into(),
                                    "r".into(), format!("u:{j}"), format!("u:{}", total - 1)];
        let mut reads = vec!["x:0".to_string()];
        for m in ["tf", "te"] {
            reads.push(format!("d.{m}:0:{MAXU}:{}", total + 5));
            reads.push(format!("d.{m}:{i}:{total}:{}", total + 5));
            reads.push(format!("d.{m}:0:{total}:{}", total - 2));
        }
        reads.push(format!("d.fr:0:{MAXU}"));
        reads.push(format!("d.fd:0:{MAXU}"));
        reads.push(format!("d.c1:{j}"));
        reads.push(format!("?{}", rng.range(8, 14)));
        return CaseIn { kind, ssc: 3, phases: vec![Phase { ops, reads }] };
    }
    if n == 13 || n == 14 {
        // directed: the same slot state BEHIND the end of the region — delete i, commit, update i and a later slot j,
        // commit, truncate below i, commit, roll back twice: the tail lives in the overlay only (stored_len above the
        // on-disk length), slot i is deleted AND overlaid, slot j is overlaid; a dirty fold that loses its place in
        // the overlay at i reads slot j from the bytes behind the region
        let kind = ["bytes", "zc"][(n - 13) as usize].to_string();
        let total = rng.range(9, 30) as usize;
        let cut = rng.range(2, (total - 5) as u64) as usize;
        let i = cut + rng.below((total - cut - 2) as u64) as usize;
        let j = i + 1 + rng.below((total - i - 1) as u64) as usize;
        let ops: Vec<String> = vec![format!("p:{total}"), "s".into(), format!("d:{i}"), "s".into(), format!("u:{i}"), format!("u:{j}"), "s".into(),
                                    format!("t:{cut}"), "s".into(), "r".into(), "r".into()];
        let mut reads = vec!["x:0".to_string()];
        for m in ["tf", "te", "fr", "fe"] {
            if m == "tf" || m == "te" {
                reads.push(format!("d.{m}:0:{total}:{}", total + 5));
                reads.push(format!("d.{m}:{cut}:{MAXU}:{}", total + 5));
            } else {
                reads.push(format!("d.{m}:0:{total}"));
                reads.push(format!("d.{m}:{cut}:{MAXU}"));
            }
        }
        reads.push(format!("d.c1:{j}"));
        reads.push(format!("?{}", rng.range(6, 10)));
        return CaseIn { kind, ssc: 4, phases: vec![Phase { ops, reads }] };
    }
    let mut kind = rng.pick(&kinds).to_string();
    if let Some((k, _)) = forced { kind = k.to_string(); }
    let raw = matches!(kind.as_str(), "bytes" | "bytesn" | "zc");
    let eager = kind.starts_with('e');
    let comp = !raw && !eager || kind == "epco";
    let ssc: u16 = if !eager && rng.chance(35, 100) { 3 } else { 0 };
    let sz = if kind == "bytesn" { 5 } else { 8 };
    let pp = 16384 / sz;
    // size class
    let mut cls = rng.below(100);
    if let Some((_, big)) = forced { cls = if big { 93 } else { 70 }; }
    let n0 = if cls < 62 {
        rng.below(40) as usize
    } else if cls < 92 {
        let b = *rng.pick(&[pp, 4096, 2 * pp, 4096 + pp, 8192]);
        (b as i64 + rng.range(0, 12) as i64 - 6).max(0) as usize
    } else if cls < 96 && !comp {
        // more than one IO buffer (524288 bytes) of stored data, by more than a page: a scan that starts anywhere
        // in the first page still crosses the buffer boundary
        524288 / sz + 16384 / sz + rng.range(1, 40) as usize
    } else {
        rng.below(300) as usize
    };
    let big = n0 > 20000;
    let wtok = if ssc > 0 { "s" } else { "w" };
    let mut len = 0usize; // model of the length only, to draw sensible arguments
    let mut stored = 0usize;
    let mut commits = 0usize;
    let mut clean_since_commit = true;
    let mut phases = vec![];
    let nph = if big { 1 } else { rng.range(1, 3) as usize };
    for phi in 0..nph {
        let mut ops: Vec<String> = vec![];
        if phi == 0 && ssc > 0 && n0 >= 2 && !big && rng.chance(1, 4) {
            // a truncating commit rolled back: stored_len above the on-disk length, values in the `updated` overlay
            let k = n0 - 1 - rng.below((n0 as u64 - 1).min(4)) as usize;
            ops.extend([format!("p:{n0}"), "s".into(), format!("t:{k}"), "s".into(), "r".into()]);
            len = n0;
            stored = n0;
            commits = 1;
            clean_since_commit = true;
        } else if phi == 0 {
            ops.push(format!("p:{n0}"));
            len += n0;
            if rng.chance(85, 100) {
                ops.push(wtok.into());
                stored = len;
                commits += (ssc > 0) as usize;
                clean_since_commit = true;
            } else {
                clean_since_commit = false;
            }
        }
        let nops = if big { rng.below(3) } else { rng.range(if phi == 0 { 0 } else { 1 }, 6) } as usize;
        for _ in 0..nops {
            let c = rng.below(100);
            let idx = |rng: &mut Rng, len: usize| if len == 0 { 0 } else if rng.chance(1, 12) { len + rng.below(3) as usize } else { rng.below(len as u64) as usize };
            if c < 22 {
                let n = if rng.chance(1, 10) && !big { rng.range(1, 2100) } else { rng.range(1, 6) } as usize;
                ops.push(format!("p:{n}"));
                len += n;
                clean_since_commit = false;
            } else if c < 40 {
                ops.push(wtok.into());
                stored = len;
                commits += (ssc > 0) as usize;
                clean_since_commit = true;
            } else if c < 52 {
                let n = if rng.chance(1, 3) && stored > 0 { stored.saturating_sub(rng.below(4) as usize) } else { idx(rng, len) };
                ops.push(format!("t:{n}"));
                if n < len {
                    len = n;
                    stored = stored.min(n);
                }
                clean_since_commit = false;
            } else if c < 66 && raw {
                if len > 0 {
                    // updating a deleted buffered slot is finding 7's subject: the generator stays below stored_len mostly
                    let i = if stored > 0 && rng.chance(4, 5) { rng.below(stored as u64) as usize } else { idx(rng, len).min(len.saturating_sub(1)) };
                    ops.push(format!("u:{i}"));
                    clean_since_commit = false;
                }
            } else if c < 82 && raw {
                let i = if stored > 0 && rng.chance(2, 3) { rng.below(stored as u64) as usize } else { idx(rng, len) };
                ops.push(format!("d:{i}"));
                clean_since_commit = false;
            } else if c < 88 && raw {
                ops.push("f".into());
                clean_since_commit = false;
                len += 1; // upper bound only
            } else if ssc > 0 && commits >= 1 && clean_since_commit && c < 97 {
                ops.push("r".into());
                commits -= 1;
                // the generator does not track the restored length exactly: arguments are clamped by the harness
            }
        }
        phases.push(Phase { ops, reads: vec![] });
        // reads are drawn by the harness once the real lengths are known: placeholder marker
        phases.last_mut().unwrap().reads.push(format!("?{}", if big { 6 } else { rng.range(10, 18) }));
    }
    CaseIn { kind, ssc, phases }
}

/// draws the reads of a phase from the real lengths (called by run through `expand_reads`)
fn gen_reads(rng: &mut Rng, n: usize, kind: &str, len: usize, stored: usize, sz: usize, big: bool) -> Vec<String> {
    let raw = matches!(kind, "bytes" | "bytesn" | "zc");
    let comp = matches!(kind, "pco" | "lz4" | "zstd");
    let pp = 16384 / sz;
    let mut out = vec![];
    let range = |rng: &mut Rng| -> (usize, usize) {
        let l = len;
        match rng.below(10) {
            0 => {
                let f = rng.below(l as u64 + 3) as usize;
                (f, f)
            }
            1 => {
                let f = rng.below(l as u64 + 3) as usize + 1;
                (f, rng.below(f as u64) as usize)
            }
            2 => {
                let f = l + rng.below(5) as usize;
                (f, if rng.chance(1, 2) { MAXU } else { f + rng.range(1, 9) as usize })
            }
            3 => {
                let p = if l == 0 { 0 } else { rng.below(((l - 1) / pp + 1) as u64) as usize };
                let a = p * pp + rng.below(pp as u64) as usize;
                let b = p * pp + rng.below(pp as u64) as usize;
                (a.min(b), a.max(b) + 1)
            }
            4 => {
                let unit = *rng.pick(&[pp, 4096]);
                let nb = l / unit;
                let b = if nb == 0 { unit } else { unit * rng.range(1, nb as u64) as usize };
                (b.saturating_sub(rng.range(1, 5) as usize), b + rng.range(0, 5) as usize)
            }
            5 => (stored.saturating_sub(rng.below(4) as usize), stored + rng.below(4) as usize),
            6 => (0, l + rng.below(3) as usize),
            7 => {
                if rng.chance(1, 4) {
                    (MAXU, rng.below(l as u64 + 2) as usize)
                } else {
                    (rng.below(l as u64 + 2) as usize, MAXU)
                }
            }
            _ => {
                let a = rng.below(l as u64 + 3) as usize;
                let b = rng.below(l as u64 + 3) as usize;
                (a.min(b), a.max(b))
            }
        }
    };
    let index = |rng: &mut Rng| -> usize {
        match rng.below(8) {
            0 => len + rng.below(3) as usize,
            1 => stored.saturating_sub(rng.below(2) as usize),
            2 => MAXU,
            3 => 0,
            _ => if len == 0 { 0 } else { rng.below(len as u64) as usize },
        }
    };
    out.push(format!("x:{}", if rng.chance(1, 2) { 0 } else { 1usize << 30 }));
    // directed sweep: whenever the stored data spans more than one page (or more than one IO buffer), every
    // scan back-end is driven once from a mid-page start across all following page / buffer boundaries
    // without an early exit, on the vector and on its read-only clone; the random reads below rarely
    // combine these three (back-end, unaligned start, long range)
    if stored >= 2 * pp.min(4096) || big {
        for backend in [0usize, 1usize << 30] {
            out.push(format!("x:{backend}"));
            let a = 1 + rng.below((pp.min(stored.max(2)) - 1) as u64) as usize;
            let target = if rng.chance(2, 3) { 'd' } else { 'o' };
            let mut ms: Vec<&str> = vec!["fr", "tf", "cr"];
            if raw || comp { ms.push(if backend == 0 { "so" } else { "sp" }); }
            let pick = rng.below(ms.len() as u64) as usize;
            for (j, m) in ms.iter().enumerate() {
                // two of the methods per back-end (the whole set for big cases would dominate the run time)
                if big && j != pick && j != (pick + 1) % ms.len() { continue; }
                let mut r = Rd { target, m: m.to_string(), ..Default::default() };
                r.f = a;
                r.t = if rng.chance(1, 2) { MAXU } else { len };
                if *m == "so" || *m == "sp" { r.t = stored; if target != 'd' { r.target = 'd'; } }
                r.k = len + 7;
                out.push(rd_token(&r));
            }
        }
    }
    for i in 0..n {
        if i == n / 2 && rng.chance(1, 2) {
            out.push(format!("x:{}", if rng.chance(1, 2) { 0 } else { 1usize << 30 }));
        }
        let target = match rng.below(100) {
            0..=46 => 'd',
            47..=61 => 'o',
            62..=77 => 'c',
            78..=87 => 'q',
            _ => 'y',
        };
        let sized = ["cr", "fr", "fe", "tf", "te", "fo", "fa", "co", "mn", "mx", "sm", "cs", "cu"];
        let dynm = ["ri", "ci", "fd", "cd", "cdy", "c1", "c1", "fi", "la", "csd", "rs", "rs", "rsi", "mnd", "mxd", "smd", "cud"];
        let rawd = ["vg", "vt", "r1", "ga", "gp", "ch", "so", "sp"];
        let m: &str = if target == 'y' {
            *rng.pick(&dynm)
        } else if target == 'd' && raw && rng.chance(1, 5) {
            if kind == "zc" && rng.chance(1, 4) { "rr" } else { *rng.pick(&rawd) }
        } else if target == 'd' && comp && rng.chance(1, 8) {
            *rng.pick(&["so", "sp"])
        } else if target == 'o' && raw && rng.chance(1, 8) {
            *rng.pick(&["vg", "vt", "r1"])
        } else if rng.chance(1, 2) {
            *rng.pick(&sized)
        } else {
            *rng.pick(&dynm)
        };
        if big && matches!(m, "cu" | "cud" | "rs" | "rsi") && rng.chance(1, 2) {
            continue;
        }
        let mut r = Rd { target, m: m.to_string(), ..Default::default() };
        match m {
            "cs" | "csd" => {
                let s = |rng: &mut Rng| match rng.below(5) {
                    0 => None,
                    1 => Some(-(rng.below(len as u64 + 3) as i64)),
                    2 => Some(i64::MIN + rng.below(2) as i64),
                    3 => Some(i64::MAX),
                    _ => Some(rng.below(len as u64 + 3) as i64),
                };
                r.sf = s(rng);
                r.st = s(rng);
            }
            "c1" | "vg" | "vt" | "ga" | "r1" | "rr" | "gp" => r.f = index(rng),
            "rs" | "rsi" => {
                let n = rng.below(7) as usize;
                let mut v: Vec<usize> = (0..n).map(|_| index(rng)).collect();
                if rng.chance(1, 2) && !v.is_empty() {
                    let d = v[0];
                    v.push(d);
                }
                if rng.chance(1, 3) && len > 4096 {
                    v.push(4096 + rng.below((len - 4096) as u64) as usize);
                }
                v.sort();
                r.idx = v;
            }
            "cu" | "cud" => {
                let n = rng.range(1, 7);
                r.script = (0..n)
                    .map(|_| match rng.below(9) {
                        0 | 1 => Cu::G(index(rng)),
                        2 | 3 => Cu::Nx,
                        4 => Cu::A(if rng.chance(1, 5) { MAXU } else { rng.below(len as u64 + 3) as usize }),
                        5 | 6 => Cu::F(if rng.chance(1, 6) { MAXU } else { rng.below(if big { 70000 } else { 5000 }) as usize }),
                        7 => Cu::P,
                        _ => Cu::M,
                    })
                    .collect();
            }
            _ => {
                let (f, t) = range(rng);
                r.f = f;
                r.t = t;
                // early exit after k elements: mostly a few, sometimes in the middle of the range, sometimes never
                r.k = match rng.below(10) {
                    0..=4 => rng.below(6) as usize,
                    5..=6 => len + 7,
                    _ => rng.below((t.min(len).saturating_sub(f) as u64).max(1) + 1) as usize,
                };
            }
        }
        out.push(rd_token(&r));
    }
    out
}

fn dispatch(c: &CaseIn) -> Report {
    match c.kind.as_str() {
        "bytes" => run_case::<KBytes>(c),
        "bytesn" => run_case::<KBytesN>(c),
        "zc" => run_case::<KZc>(c),
        "pco" => run_case::<KPco>(c),
        "lz4" => run_case::<KLz4>(c),
        "zstd" => run_case::<KZstd>(c),
        "ebytes" => run_case::<KEBytes>(c),
        "epco" => run_case::<KEPco>(c),
        k => panic!("bad kind {k}"),
    }
}

fn print_report(id: &str, rep: &Report) {
    println!("I {id} {}", rep.iline);
    for o in &rep.o {
        println!("O {id} {o}");
    }
    for v in &rep.v {
        println!("V {id} {v}");
    }
    for m in &rep.m {
        println!("M {id} {m}");
    }
}

thread_local! {
    static READ_RNG: std::cell::RefCell<Option<Rng>> = const { std::cell::RefCell::new(None) };
}

pub fn run(args: &[String]) -> i32 {
    let a = parse_args(args);
    quiet_panics();
    rawdb::verif_tap::set_sink(Some(Box::new(sink)));
    if let Some(path) = &a.replay {
        for (id, line) in replay_inputs(path) {
            let c = parse_case(&line);
            let rep = dispatch(&c);
            print_report(&id, &rep);
        }
        return 0;
    }
    let mut rng = Rng::new(a.seed);
    for n in 0..a.cases {
        let c = gen_case(&mut rng, n);
        READ_RNG.with(|r| *r.borrow_mut() = Some(Rng::new(rng.next())));
        let rep = dispatch(&c);
        print_report(&format!("{}-{}", a.seed, n), &rep);
    }
    0
}
