//! Engine `schedvec` (C09): a controller thread drives ONE real writer thread and several real
//! reader threads of a vecdb vector to chosen pause points (taps under `cfg(anydb_verif)`), so that
//! a schedule — a list of "let thread T run to its next stop" tokens — is replayed exactly.
//!
//! I line:  fmt=<raw|rawn|pco|lz4> (rawn = raw format with an element type whose serialised form is NOT its memory
//!          layout, so that write() and the readers take the per-value branches) lay=<last|blk|hole|adj> pad=<0|1> vf=<0|1> st=<0|1> g=<c|f>
//!          pre=<it>[+<it>…] w=<it>[,<it>…] r=<op>[;<op>…] (one per reader) h=<hints> s=<tok>,<tok>,…
//!   items: <n> = push n values to the vector `a` the readers read, then write() it; b<n> = the same on a SECOND
//!          vector `b` of the same database owned by the writer thread (it exists iff some item names it; it is
//!          created after the layout's regions — before `a` for lay=last — and gets its initial size from its `pre` items)
//!   ops:   get:<idx> rng:<k> fold:<k> vr:<idx> cur:<idx> len     idx ∈ last|first|mid|<n>
//!   toks:  w | <reader number 1…> ; a trailing `!` = the step is expected to block
//!   hints: what the allocator and the compressor (both external to the step model) answered in a
//!          sequential dry run of the same configuration: F<file_len>;S<start of a>[;T<start of b>];then per item
//!          (pre, then w) f | e | r<new_start>, followed by :<compressed size>.<…> for each full page encoded.
//! O lines: one per token (`<tok> <stop reached> <region start>,<len>,<reserved> <shared len> <file len>`, all of `a`,
//!          then ` b=<start>,<len>,<reserved>,<stored len>` when `b` exists), one per completed reader operation,
//!          one per write(), and a final sequential read-back (`final` of a, `finalb` of b).
//! V lines: the spec-level oracle of C09 (values = the values pushed to `a`, lengths monotone per reader, no panic,
//!          no reader blocked while the writer is parked outside every lock); a bad read through a snapshot of an
//!          extent `a` vacated by a relocation that another vector's extent now overlaps is additionally keyed
//!          `reader-saw-bytes-of-another-vector-after-relocation`.
use crate::rng::Rng;
use rawdb::Database;
use rawdb::verif_tap::{self, Event};
use std::cell::RefCell;
use std::panic::{AssertUnwindSafe, catch_unwind};
use std::sync::{Arc, Condvar, Mutex};
use std::time::{Duration, Instant};
use vecdb::{AnyStoredVec, AnyVec, BytesVec, LZ4Vec, PcoVec, ReadableVec, Stamp, StoredVec, Version};

// ------------------------------------------------------------------------------------------------
// values
fn mix(i: u64) -> u64 {
    let mut z = i.wrapping_add(0x9E37_79B9_7F4A_7C15);
    z = (z ^ (z >> 30)).wrapping_mul(0xBF58_476D_1CE4_E5B9);
    z = (z ^ (z >> 27)).wrapping_mul(0x94D0_49BB_1331_11EB);
    z ^ (z >> 31)
}
fn val(vf: u8, i: usize) -> u64 {
    if vf == 0 { 1000 + 7 * i as u64 } else { mix(i as u64) }
}
/// values of the second vector: another generator (vf=1: as incompressible as a's)
fn valb(vf: u8, i: usize) -> u64 {
    if vf == 0 { 0xB5B5_0000_0000_0000 | (13 * i as u64 + 5) } else { mix(i as u64 ^ 0x5151_5151_0000) }
}
fn is_valb(vf: u8, total_b: usize, v: u64) -> bool {
    (0..total_b).any(|j| valb(vf, j) == v)
}

// ------------------------------------------------------------------------------------------------
// controller
#[derive(Clone, PartialEq, Debug)]
enum TState {
    Running,
    Parked(String),
    Done,
}

struct Inner {
    st: Vec<TState>,
    go: Vec<bool>,
    free_run: bool,
    tags: Vec<String>,
}

struct Shared {
    m: Mutex<Inner>,
    cv_ctl: Condvar,
    cv_thr: Condvar,
}

#[derive(Clone)]
struct Ctx {
    id: usize,
    writer: bool,
    fine: bool,
    stamped: bool,
    sh: Arc<Shared>,
}

thread_local! { static TL: RefCell<Option<Ctx>> = const { RefCell::new(None) }; }
thread_local! { static IN_PAGES: std::cell::Cell<bool> = const { std::cell::Cell::new(false) }; }

/// Stop sets.  Coarse = the named pause points that separate the writer's visible steps and the
/// readers' "load length / snapshot / page entry / read"; fine adds the points in between.
fn is_stop(ctx: &Ctx, name: &str) -> bool {
    if name.starts_with("h:") {
        return name != "h:len" || ctx.fine;
    }
    if ctx.writer {
        match name {
            "write_with:fits:after-data" | "write_with:relocate:before-copy" | "write_with:relocate:after-copy"
            | "raw-write:after-region-write" | "comp-write:fast:after-region-write" | "comp-write:slow:after-region-write"
            | "comp-write:fast:after-index" | "comp-write:slow:after-index" | "comp-write:fast:after-publish"
            | "comp-write:slow:after-publish" => true,
            "raw-write:after-header" | "comp-write:after-header" => ctx.stamped,
            "comp-write:fast:pages-locked" | "comp-write:slow:pages-locked" | "comp-write:fast:after-index-flush"
            | "comp-write:slow:after-index-flush" | "comp-write:slow:after-decode" | "raw-write:after-publish" | "L:mmap:w" => ctx.fine,
            _ => false,
        }
    } else {
        match name {
            "ro-raw:after-len" | "ro-comp:after-len" | "vec-reader:after-len" | "ro-raw:after-reader" | "ro-raw:after-reader-bulk"
            | "raw-mmap-source:after-reader" | "vec-reader:after-reader" | "ro-comp:after-reader" | "comp-mmap-source:after-reader"
            | "ro-comp:after-pages-lock" | "comp-mmap-source:after-pages-lock" => true,
            "L:mmap:r" => ctx.fine,
            _ => false,
        }
    }
}

fn park(ctx: &Ctx, name: &str) {
    let sh = &ctx.sh;
    let mut g = sh.m.lock().unwrap();
    if g.free_run {
        return;
    }
    g.st[ctx.id] = TState::Parked(name.to_string());
    g.go[ctx.id] = false;
    sh.cv_ctl.notify_all();
    while !g.go[ctx.id] && !g.free_run {
        g = sh.cv_thr.wait(g).unwrap();
    }
    g.st[ctx.id] = TState::Running;
}

fn sink(e: &Event) {
    let ctx = TL.with(|t| t.borrow().clone());
    let Some(ctx) = ctx else { return };
    match e {
        Event::Pause { name } => {
            if name.ends_with(":pages-locked") { IN_PAGES.with(|f| f.set(true)); }
            if *name == "h:op-start" { IN_PAGES.with(|f| f.set(false)); }
            // rawdb's pause points reached from Pages::flush (under the pages write lock) are fine-only stops
            if name.starts_with("write_with:") && IN_PAGES.with(|f| f.get()) && !ctx.fine { return; }
            if is_stop(&ctx, name) {
                park(&ctx, name);
            }
        }
        Event::Lock { class, write, .. } => {
            if *class == "mmap" {
                let n = if *write { "L:mmap:w" } else { "L:mmap:r" };
                if is_stop(&ctx, n) {
                    park(&ctx, n);
                }
            }
        }
        Event::SetLen { file: 0, .. } => {
            if ctx.writer {
                ctx.sh.m.lock().unwrap().tags.push("file-growth".into());
            }
        }
        Event::Layout { kind, .. } => {
            if ctx.writer && (*kind == "remove_hole" || *kind == "reserve") {
                ctx.sh.m.lock().unwrap().tags.push(format!("layout-{kind}"));
            }
        }
        _ => {}
    }
}

fn hpause(name: &'static str) {
    verif_tap::pause(name);
}

// ------------------------------------------------------------------------------------------------
// configuration
/// one writer item: push `n` values to `a` (or to the second vector `b`) and write() it
#[derive(Clone, Copy, Debug, PartialEq)]
struct Item {
    b: bool,
    n: usize,
}
fn ia(n: usize) -> Item { Item { b: false, n } }
fn ib(n: usize) -> Item { Item { b: true, n } }
fn parse_item(s: &str) -> Item {
    match s.strip_prefix('b') {
        Some(r) => Item { b: true, n: r.parse().unwrap() },
        None => Item { b: false, n: s.parse().unwrap() },
    }
}
fn item_str(i: &Item) -> String {
    format!("{}{}", if i.b { "b" } else { "" }, i.n)
}
fn sum_a(items: &[Item]) -> usize {
    items.iter().filter(|i| !i.b).map(|i| i.n).sum()
}

#[derive(Clone, Debug)]
struct Cfg {
    fmt: String,
    lay: String,
    pad: bool,
    vf: u8,
    st: bool,
    fine: bool,
    pre: Vec<Item>,
    w: Vec<Item>,
    hasb: bool,
    readers: Vec<Vec<(String, String)>>,
    hints: String,
    sched: Vec<(usize, bool)>, // thread (0 = writer), expect-block
}

fn parse_cfg(line: &str) -> Cfg {
    let mut c = Cfg { fmt: "raw".into(), lay: "blk".into(), pad: false, vf: 0, st: false, fine: false, pre: vec![], w: vec![], hasb: false,
                      readers: vec![], hints: String::new(), sched: vec![] };
    for tok in line.split_whitespace() {
        let Some((k, v)) = tok.split_once('=') else { continue };
        match k {
            "fmt" => c.fmt = v.into(),
            "lay" => c.lay = v.into(),
            "pad" => c.pad = v == "1",
            "vf" => c.vf = v.parse().unwrap(),
            "st" => c.st = v == "1",
            "g" => c.fine = v == "f",
            "pre" => c.pre = v.split('+').filter(|s| !s.is_empty() && *s != "0").map(parse_item).collect(),
            "w" => c.w = v.split(',').filter(|s| !s.is_empty()).map(parse_item).collect(),
            "r" => c.readers.push(v.split(';').filter(|s| !s.is_empty()).map(|o| {
                let (a, b) = o.split_once(':').unwrap_or((o, ""));
                (a.to_string(), b.to_string())
            }).collect()),
            "h" => c.hints = v.into(),
            "s" => c.sched = v.split(',').filter(|s| !s.is_empty()).map(|t| {
                let blk = t.ends_with('!');
                let t = t.trim_end_matches('!');
                (if t == "w" { 0 } else { t.parse::<usize>().unwrap() }, blk)
            }).collect(),
            _ => {}
        }
    }
    c.hasb = c.pre.iter().chain(c.w.iter()).any(|i| i.b);
    c
}

fn cfg_line(c: &Cfg) -> String {
    let mut s = format!("fmt={} lay={} pad={} vf={} st={} g={} pre={} w={}", c.fmt, c.lay, c.pad as u8, c.vf, c.st as u8,
        if c.fine { "f" } else { "c" },
        if c.pre.is_empty() { "0".to_string() } else { c.pre.iter().map(item_str).collect::<Vec<_>>().join("+") },
        c.w.iter().map(item_str).collect::<Vec<_>>().join(","));
    for r in &c.readers {
        s.push_str(" r=");
        s.push_str(&r.iter().map(|(a, b)| if b.is_empty() { a.clone() } else { format!("{a}:{b}") }).collect::<Vec<_>>().join(";"));
    }
    s.push_str(&format!(" h={} s={}", c.hints,
        c.sched.iter().map(|(t, b)| format!("{}{}", if *t == 0 { "w".to_string() } else { t.to_string() }, if *b { "!" } else { "" })).collect::<Vec<_>>().join(",")));
    s
}

// ------------------------------------------------------------------------------------------------
// database layout set-up
fn pad_to_file_end(db: &Database, keep_free: usize, tag: &str) {
    // fill the layout with power-of-two regions so that layout.len() == file_len - keep_free
    let file_len = db.file_len();
    let used = db.layout().len();
    let mut rest = file_len.saturating_sub(used + keep_free);
    let mut k = 0;
    while rest >= 4096 {
        let mut sz = 4096usize;
        while sz * 2 <= rest {
            sz *= 2;
        }
        let r = db.create_region_if_needed(&format!("pad{tag}{k}")).unwrap();
        if sz > 4096 {
            r.write(&vec![0u8; sz]).unwrap();
        }
        std::mem::forget(r.clone());
        rest -= sz;
        k += 1;
    }
}

/// Element of the format `rawn`: a u64 whose `Bytes` form is big-endian, IS_NATIVE_LAYOUT = false (the trait default):
/// the raw vector serialises value by value (raw write(): any_stored_vec.rs:100-105) instead of one memcpy.
#[derive(Debug, Clone, Copy, PartialEq)]
#[repr(transparent)]
pub struct Be8(u64);
impl vecdb::Bytes for Be8 {
    type Array = [u8; 8];
    fn to_bytes(&self) -> [u8; 8] {
        self.0.to_be_bytes()
    }
    fn from_bytes(b: &[u8]) -> vecdb::Result<Self> {
        let a: [u8; 8] = b.try_into().map_err(|_| vecdb::Error::WrongLength { expected: 8, received: b.len() })?;
        Ok(Be8(u64::from_be_bytes(a)))
    }
}

/// every comparison of the engine is made in u64: `of` / `val` convert to and from the element type
trait VecKind: StoredVec<I = usize> + AnyStoredVec + Send + 'static
where
    <Self as StoredVec>::ReadOnly: Send + Sync,
{
    const COMP: bool;
    fn of(v: u64) -> Self::T;
    fn val(t: &Self::T) -> u64;
    fn vec_reader_get(_ro: &Self::ReadOnly, _idx: &str) -> Option<(usize, usize, Option<u64>)> {
        None
    }
}
impl VecKind for BytesVec<usize, Be8> {
    const COMP: bool = false;
    fn of(v: u64) -> Be8 { Be8(v) }
    fn val(t: &Be8) -> u64 { t.0 }
    fn vec_reader_get(ro: &Self::ReadOnly, idx: &str) -> Option<(usize, usize, Option<u64>)> {
        let r = ro.reader();
        let l = r.len();
        if l == 0 {
            return Some((0, 0, None));
        }
        let i = idx_of(idx, l);
        Some((l, i, r.try_get(i).map(|v| v.0)))
    }
}
impl VecKind for BytesVec<usize, u64> {
    const COMP: bool = false;
    fn of(v: u64) -> u64 { v }
    fn val(t: &u64) -> u64 { *t }
    fn vec_reader_get(ro: &Self::ReadOnly, idx: &str) -> Option<(usize, usize, Option<u64>)> {
        let r = ro.reader();
        let l = r.len();
        if l == 0 {
            return Some((0, 0, None));
        }
        let i = idx_of(idx, l);
        Some((l, i, r.try_get(i)))
    }
}
impl VecKind for PcoVec<usize, u64> {
    const COMP: bool = true;
    fn of(v: u64) -> u64 { v }
    fn val(t: &u64) -> u64 { *t }
}
impl VecKind for LZ4Vec<usize, u64> {
    const COMP: bool = true;
    fn of(v: u64) -> u64 { v }
    fn val(t: &u64) -> u64 { *t }
}

fn idx_of(spec: &str, l: usize) -> usize {
    match spec {
        "last" | "" => l - 1,
        "first" => 0,
        "mid" => l / 2,
        n => n.parse::<usize>().unwrap_or(0).min(l - 1),
    }
}

struct Setup<V: VecKind>
where
    V::ReadOnly: Send + Sync,
{
    _dir: tempfile::TempDir,
    db: Database,
    vec: V,
    vecb: Option<V>,
    next: usize,
    nextb: usize,
}

fn setup<V: VecKind>(c: &Cfg) -> Setup<V>
where
    V::ReadOnly: Send + Sync,
{
    // scratch database under $TMPDIR if set, else on tmpfs (every case opens a fresh database: fsyncs dominate on disk)
    let dir = if std::env::var_os("TMPDIR").is_none() && std::path::Path::new("/dev/shm").is_dir() {
        tempfile::Builder::new().prefix("svdb").tempdir_in("/dev/shm").unwrap()
    } else {
        tempfile::tempdir().unwrap()
    };
    let db = Database::open(dir.path()).unwrap();
    let comp = V::COMP;
    let mut vecb: Option<V> = None;
    if c.hasb && c.lay == "last" {
        vecb = Some(V::forced_import(&db, "b", Version::ONE).unwrap());
    }
    if c.lay == "last" {
        // the data region must be the last one: for compressed vectors the page-index region is created first
        if comp {
            let _ = db.create_region_if_needed("v/usize_pages").unwrap();
        } else {
            let _ = db.create_region_if_needed("first").unwrap();
        }
        if c.pad {
            pad_to_file_end(&db, 4096, "a");
        }
    }
    let mut vec = V::forced_import(&db, "v", Version::ONE).unwrap();
    match c.lay.as_str() {
        "blk" => {
            let _ = db.create_region_if_needed("blk").unwrap();
        }
        "hole" => {
            let _a = db.create_region_if_needed("a").unwrap();
            let b = db.create_region_if_needed("b").unwrap();
            b.write(&vec![1u8; 65536]).unwrap();
            drop(b);
            let _c = db.create_region_if_needed("c").unwrap();
            db.remove_region("b").unwrap();
            db.flush().unwrap();
        }
        "adj" => {
            let a = db.create_region_if_needed("a").unwrap();
            a.write(&vec![1u8; 65536 - 4096]).unwrap();
            drop(a);
            let _c = db.create_region_if_needed("c").unwrap();
            db.remove_region("a").unwrap();
            db.flush().unwrap();
        }
        _ => {}
    }
    if c.hasb && vecb.is_none() {
        vecb = Some(V::forced_import(&db, "b", Version::ONE).unwrap());
    }
    if c.pad && c.lay != "last" {
        pad_to_file_end(&db, 0, "b");
    }
    let (mut next, mut nextb) = (0usize, 0usize);
    for it in &c.pre {
        if it.b {
            let vb = vecb.as_mut().unwrap();
            for _ in 0..it.n {
                vb.push(V::of(valb(c.vf, nextb)));
                nextb += 1;
            }
            vb.write().unwrap();
        } else {
            for _ in 0..it.n {
                vec.push(V::of(val(c.vf, next)));
                next += 1;
            }
            vec.write().unwrap();
        }
    }
    Setup { _dir: dir, db, vec, vecb, next, nextb }
}

fn region_tuple<V: VecKind>(v: &V) -> (usize, usize, usize)
where
    V::ReadOnly: Send + Sync,
{
    let m = v.region().meta();
    (m.start(), m.len(), m.reserved())
}

// ------------------------------------------------------------------------------------------------
// dry run: the answers of the allocator and of the compressor for this configuration
fn hints_for<V: VecKind>(c: &Cfg) -> String
where
    V::ReadOnly: Send + Sync,
{
    let mut c0 = c.clone();
    let pre = std::mem::take(&mut c0.pre);
    let s = setup::<V>(&c0);
    let mut vec = s.vec;
    let mut vecb = s.vecb;
    let (mut next, mut nextb) = (0usize, 0usize);
    let (st0, _, _) = region_tuple(&vec);
    let mut out = format!("F{};S{}", s.db.file_len(), st0);
    if let Some(vb) = &vecb {
        out.push_str(&format!(";T{}", region_tuple(vb).0));
    }
    let pp = 16384 / 8;
    for it in pre.iter().chain(c.w.iter()) {
        let n = it.n;
        let (v, pages_name): (&mut V, &str) = if it.b { (vecb.as_mut().unwrap(), "b/usize_pages") } else { (&mut vec, "v/usize_pages") };
        let (s0, _l0, r0) = region_tuple(v);
        let stored = v.stored_len();
        for _ in 0..n {
            if it.b {
                v.push(V::of(valb(c.vf, nextb)));
                nextb += 1;
            } else {
                v.push(V::of(val(c.vf, next)));
                next += 1;
            }
        }
        v.write().unwrap();
        let (s1, _l1, r1) = region_tuple(v);
        let kind = if r1 == r0 { "f".to_string() } else if s1 == s0 { "e".to_string() } else { format!("r{s1}") };
        out.push(';');
        out.push_str(&kind);
        if V::COMP {
            // sizes of the full pages encoded by this write, read back from the page index on disk
            let first_page = stored / pp;
            let full_after = (stored + n) / pp;
            if full_after > first_page && n > 0 {
                let preg = s.db.get_region(pages_name).unwrap();
                let rd = preg.create_reader();
                let bytes = rd.read_all().to_vec();
                drop(rd);
                let mut sizes = vec![];
                for p in first_page..full_after {
                    let (_, b, _, _, _, _) = vecdb::verif_hooks::page_from_bytes(&bytes[p * 16..p * 16 + 16]).unwrap();
                    sizes.push(b.to_string());
                }
                out.push(':');
                out.push_str(&sizes.join("."));
            }
        }
    }
    out
}

// ------------------------------------------------------------------------------------------------
// reader operations
#[derive(Clone, Debug)]
struct OpRes {
    len_seen: usize,
    idx: usize,
    want: usize,
    got: Vec<u64>,
    status: String, // ok | none | short | wrong | panic | empty
}

fn check_vals(vf: u8, from: usize, want: usize, got: &[u64]) -> String {
    for (k, v) in got.iter().enumerate() {
        if *v != val(vf, from + k) {
            return "wrong".into();
        }
    }
    if got.len() < want {
        return if got.is_empty() { "none".into() } else { "short".into() };
    }
    if got.len() > want {
        return "long".into();
    }
    "ok".into()
}

fn reader_op<V: VecKind>(ro: &V::ReadOnly, vf: u8, kind: &str, arg: &str) -> OpRes
where
    V::ReadOnly: Send + Sync,
{
    // what the operation was about to read, kept outside the unwind boundary so that a panic keeps it
    let meta: std::cell::Cell<(usize, usize, usize)> = std::cell::Cell::new((0, 0, 0));
    let r = catch_unwind(AssertUnwindSafe(|| match kind {
        "len" => {
            let l = ro.len();
            OpRes { len_seen: l, idx: 0, want: 0, got: vec![], status: "ok".into() }
        }
        "get" => {
            let l = ro.len();
            hpause("h:len");
            if l == 0 {
                return OpRes { len_seen: 0, idx: 0, want: 0, got: vec![], status: "empty".into() };
            }
            let i = idx_of(arg, l);
            meta.set((l, i, 1));
            let got: Vec<u64> = ro.collect_one_at(i).iter().map(V::val).collect();
            OpRes { len_seen: l, idx: i, want: 1, status: check_vals(vf, i, 1, &got), got }
        }
        "rng" | "fold" => {
            let l = ro.len();
            hpause("h:len");
            if l == 0 {
                return OpRes { len_seen: 0, idx: 0, want: 0, got: vec![], status: "empty".into() };
            }
            let k: usize = arg.parse().unwrap_or(1).max(1).min(l);
            let from = l - k;
            meta.set((l, from, k));
            let got: Vec<u64> = if kind == "rng" {
                ro.collect_range_at(from, l).iter().map(V::val).collect()
            } else {
                ro.fold_range_at(from, l, Vec::new(), |mut a: Vec<u64>, v| {
                    a.push(V::val(&v));
                    a
                })
            };
            OpRes { len_seen: l, idx: from, want: k, status: check_vals(vf, from, k, &got), got }
        }
        "vr" => match V::vec_reader_get(ro, arg) {
            Some((l, i, v)) => {
                if l == 0 {
                    return OpRes { len_seen: 0, idx: 0, want: 0, got: vec![], status: "empty".into() };
                }
                let got: Vec<u64> = v.into_iter().collect();
                OpRes { len_seen: l, idx: i, want: 1, status: check_vals(vf, i, 1, &got), got }
            }
            None => OpRes { len_seen: 0, idx: 0, want: 0, got: vec![], status: "empty".into() },
        },
        "cur" => {
            let mut c = ro.cursor();
            let l = c.remaining();
            hpause("h:len");
            if l == 0 {
                return OpRes { len_seen: 0, idx: 0, want: 0, got: vec![], status: "empty".into() };
            }
            let i = idx_of(arg, l);
            meta.set((l, i, 1));
            let got: Vec<u64> = c.get(i).iter().map(V::val).collect();
            OpRes { len_seen: l, idx: i, want: 1, status: check_vals(vf, i, 1, &got), got }
        }
        _ => OpRes { len_seen: 0, idx: 0, want: 0, got: vec![], status: "empty".into() },
    }));
    let (l, i, k) = meta.get();
    r.unwrap_or(OpRes { len_seen: l, idx: i, want: k, got: vec![], status: "panic".into() })
}

// ------------------------------------------------------------------------------------------------
// lock rules used ONLY to avoid generating steps that are known to block (the model decides
// independently whether a step is enabled; a disagreement shows as `timeout` ≠ expectation)
fn holds_mmap_read(stop: &str) -> bool {
    stop.ends_with(":after-reader") || stop.ends_with(":after-reader-bulk") || stop.ends_with(":after-pages-lock")
}
fn holds_pages_read(stop: &str) -> bool {
    stop.ends_with(":after-pages-lock")
}
fn pages_stop(stop: &str) -> bool {
    stop.starts_with("comp-write:") && (stop.ends_with(":pages-locked") || stop.ends_with(":after-index") || stop.ends_with(":after-publish") || stop.ends_with(":after-index-flush"))
}
/// the writer holds the pages write lock after `p` of its stops: a stop inside the lock since the last operation start
fn writer_holds_pages(wst: &[String], p: usize) -> bool {
    let mut i = p.min(wst.len());
    while i > 0 {
        let s = &wst[i - 1];
        if s == "h:op-start" || s == "done" { return false; }
        if pages_stop(s) { return true; }
        i -= 1;
    }
    false
}
fn reader_wants_pages(stop: &str) -> bool {
    stop == "ro-comp:after-reader" || stop == "comp-mmap-source:after-reader"
}
fn writer_wants_pages(stop: &str) -> bool {
    stop == "comp-write:fast:after-region-write" || stop == "comp-write:slow:after-region-write"
}

// ------------------------------------------------------------------------------------------------
// one case
struct CaseOut {
    lines: Vec<String>, // O bodies
    viol: Vec<String>,  // V bodies
    tags: Vec<String>,
    wstops: Vec<String>,
    rstops: Vec<Vec<String>>,
}

fn run_case<V: VecKind>(c: &Cfg) -> CaseOut
where
    V::ReadOnly: Send + Sync,
{
    let s = setup::<V>(c);
    let db = s.db.clone();
    let n_thr = 1 + c.readers.len();
    let sh = Arc::new(Shared {
        m: Mutex::new(Inner { st: vec![TState::Running; n_thr], go: vec![false; n_thr], free_run: false, tags: vec![] }),
        cv_ctl: Condvar::new(),
        cv_thr: Condvar::new(),
    });
    let ro_main = s.vec.read_only_clone();
    let region = s.vec.region().clone();
    // the second vector: its data region, its page-index region (compressed) and a clone to read its stored length
    let region_b = s.vecb.as_ref().map(|v| v.region().clone());
    let pages_b = if V::COMP && c.hasb { db.get_region("b/usize_pages") } else { None };
    let ro_b = s.vecb.as_ref().map(|v| v.read_only_clone());
    let results: Arc<Mutex<Vec<(usize, usize, OpRes)>>> = Arc::new(Mutex::new(vec![]));
    let wres: Arc<Mutex<Vec<String>>> = Arc::new(Mutex::new(vec![]));
    let mut handles = vec![];

    // writer thread
    {
        let ctx = Ctx { id: 0, writer: true, fine: c.fine, stamped: c.st, sh: sh.clone() };
        let (w, vf, st) = (c.w.clone(), c.vf, c.st);
        let mut vec = s.vec;
        let mut vecb = s.vecb;
        let (mut next, mut nextb) = (s.next, s.nextb);
        let wres = wres.clone();
        handles.push(std::thread::spawn(move || {
            TL.with(|t| *t.borrow_mut() = Some(ctx.clone()));
            for (k, it) in w.iter().enumerate() {
                hpause("h:op-start");
                let r = catch_unwind(AssertUnwindSafe(|| {
                    let v: &mut V = if it.b { vecb.as_mut().unwrap() } else { &mut vec };
                    for _ in 0..it.n {
                        if it.b {
                            v.push(V::of(valb(vf, nextb)));
                            nextb += 1;
                        } else {
                            v.push(V::of(val(vf, next)));
                            next += 1;
                        }
                    }
                    if st { v.stamped_write(Stamp::new(k as u64 + 1)).map(|_| true) } else { v.write() }
                }));
                wres.lock().unwrap().push(match r {
                    Ok(Ok(_)) => "ok".into(),
                    Ok(Err(e)) => format!("err:{}", format!("{e:?}").split(|ch: char| !ch.is_alphanumeric()).next().unwrap_or("Other")),
                    Err(_) => "panic".into(),
                });
            }
            let mut g = ctx.sh.m.lock().unwrap();
            g.st[0] = TState::Done;
            ctx.sh.cv_ctl.notify_all();
            drop(g);
            TL.with(|t| *t.borrow_mut() = None);
            (vec, vecb)
        }));
    }
    // reader threads
    let mut rhandles = vec![];
    for (ri, ops) in c.readers.iter().enumerate() {
        let ctx = Ctx { id: ri + 1, writer: false, fine: c.fine, stamped: false, sh: sh.clone() };
        let ro = ro_main.clone();
        let ops = ops.clone();
        let vf = c.vf;
        let results = results.clone();
        rhandles.push(std::thread::spawn(move || {
            TL.with(|t| *t.borrow_mut() = Some(ctx.clone()));
            for (k, (kind, arg)) in ops.iter().enumerate() {
                hpause("h:op-start");
                let r = reader_op::<V>(&ro, vf, kind, arg);
                results.lock().unwrap().push((ctx.id, k, r));
            }
            let mut g = ctx.sh.m.lock().unwrap();
            g.st[ctx.id] = TState::Done;
            ctx.sh.cv_ctl.notify_all();
            drop(g);
            TL.with(|t| *t.borrow_mut() = None);
        }));
    }

    let mut out = CaseOut { lines: vec![], viol: vec![], tags: vec![], wstops: vec![], rstops: vec![vec![]; c.readers.len()] };
    // every thread first arrives at its h:op-start (or is done when it has no operation)
    let wait_arrival = |id: usize, dur: Duration| -> Option<TState> {
        let deadline = Instant::now() + dur;
        let mut g = sh.m.lock().unwrap();
        loop {
            match &g.st[id] {
                TState::Running => {}
                s => return Some(s.clone()),
            }
            let now = Instant::now();
            if now >= deadline {
                return None;
            }
            g = sh.cv_ctl.wait_timeout(g, deadline - now).unwrap().0;
        }
    };
    for id in 0..n_thr {
        wait_arrival(id, Duration::from_secs(5));
    }
    let mut inflight = vec![false; n_thr];
    let mut cur_stop: Vec<String> = vec!["h:op-start".into(); n_thr];
    let mut aborted = false;
    // positions of the writer (index into its stop list) at which each reader passed its stops, for classification
    let mut reader_marks: Vec<Vec<(String, usize)>> = vec![vec![]; c.readers.len()];
    let mut seen_results = 0usize;
    let mut max_len: Vec<usize> = vec![0; n_thr];
    // extent of `a` (start, reserved) when each reader last created its rawdb Reader (its `…after-reader…` stop)
    let mut snap_ext: Vec<Option<(usize, usize)>> = vec![None; n_thr];

    for (ti, (tid, expect_block)) in c.sched.iter().enumerate() {
        let tid = *tid;
        if tid >= n_thr {
            out.lines.push(format!("{ti} bad-thread"));
            continue;
        }
        let tname = if tid == 0 { "w".to_string() } else { tid.to_string() };
        let state_now = sh.m.lock().unwrap().st[tid].clone();
        if state_now == TState::Done && !inflight[tid] {
            out.lines.push(format!("{tname} finished"));
            continue;
        }
        if !inflight[tid] {
            let mut g = sh.m.lock().unwrap();
            g.st[tid] = TState::Running;
            g.go[tid] = true;
            sh.cv_thr.notify_all();
        }
        let wait = if *expect_block && !inflight[tid] { Duration::from_millis(120) } else { Duration::from_millis(2000) };
        let mut arr = wait_arrival(tid, wait);
        if arr.is_none() && !*expect_block {
            // 2 s without arrival: on a heavily loaded machine this can be starvation; a thread that is really blocked
            // stays blocked, so give it a grace period before calling it blocked (tagged, so the evidence shows it)
            arr = wait_arrival(tid, Duration::from_millis(8000));
            if arr.is_some() { sh.m.lock().unwrap().tags.push("slow-step>2s".into()); }
        }
        let (rs, rl, rr) = {
            let m = region.meta();
            (m.start(), m.len(), m.reserved())
        };
        let mut suffix = format!("{rs},{rl},{rr} {} {}", ro_main.len(), db.file_len());
        if let (Some(rb), Some(rob)) = (&region_b, &ro_b) {
            let m = rb.meta();
            suffix.push_str(&format!(" b={},{},{},{}", m.start(), m.len(), m.reserved(), rob.len()));
        }
        match arr {
            Some(TState::Parked(stop)) => {
                inflight[tid] = false;
                cur_stop[tid] = stop.clone();
                if tid == 0 { out.wstops.push(stop.clone()); } else {
                    out.rstops[tid - 1].push(stop.clone());
                    reader_marks[tid - 1].push((stop.clone(), out.wstops.len()));
                    if stop.contains(":after-reader") { snap_ext[tid] = Some((rs, rr)); }
                }
                out.lines.push(format!("{tname} {stop} {suffix}"));
            }
            Some(TState::Done) => {
                inflight[tid] = false;
                cur_stop[tid] = "done".into();
                if tid == 0 { out.wstops.push("done".into()); } else {
                    out.rstops[tid - 1].push("done".into());
                    reader_marks[tid - 1].push(("done".into(), out.wstops.len()));
                }
                out.lines.push(format!("{tname} done {suffix}"));
            }
            _ => {
                if *expect_block {
                    inflight[tid] = true;
                    out.lines.push(format!("{tname} blocked {suffix}"));
                } else {
                    out.lines.push(format!("{tname} timeout {suffix}"));
                    // a reader that cannot proceed although the writer is parked outside every lock
                    let wstop = cur_stop[0].clone();
                    let writer_in_lock = writer_holds_pages(&out.wstops, out.wstops.len()) || inflight[0];
                    if tid != 0 && !writer_in_lock {
                        out.viol.push(format!("reader-blocked-while-writer-parked-outside-locks reader {tid} at {} did not reach its next stop within 10 s; writer parked at {wstop}", cur_stop[tid]));
                    } else {
                        out.viol.push(format!("schedule-step-blocked thread {tname} at {} did not reach its next stop within 10 s (writer at {wstop})", cur_stop[tid]));
                    }
                    aborted = true;
                    break;
                }
            }
        }
        // reader operations completed by this step: spec-level oracle
        let rs_now: Vec<(usize, usize, OpRes)> = results.lock().unwrap()[seen_results..].to_vec();
        seen_results += rs_now.len();
        for (rid, k, r) in rs_now {
            let (kind, arg) = &c.readers[rid - 1][k];
            out.lines.push(format!("r{rid} op{k} {kind}:{arg} len={} idx={} n={} res={}", r.len_seen, r.idx, r.want, if r.status == "ok" || r.status == "empty" { r.status.clone() } else { "bad".into() }));
            if r.status != "panic" && r.len_seen < max_len[rid] {
                out.viol.push(format!("reader-length-decreased reader {rid} saw length {} after {}", r.len_seen, max_len[rid]));
            }
            max_len[rid] = max_len[rid].max(r.len_seen);
            if r.status != "ok" && r.status != "empty" {
                let key = classify::<V>(c, &reader_marks[rid - 1], &out.wstops, &r.status);
                out.viol.push(format!("{key} reader {rid} op {kind}:{arg} saw len {} and read index {} (+{}): {} (got {} values{}); writer stops so far: [{}]; reader stops: [{}]",
                    r.len_seen, r.idx, r.want, r.status, r.got.len(),
                    r.got.first().map(|v| format!(", first {v} expected {}", val(c.vf, r.idx))).unwrap_or_default(),
                    out.wstops.join(" "), reader_marks[rid - 1].iter().map(|(s, w)| format!("{s}@w{w}")).collect::<Vec<_>>().join(" ")));
                // the bad read went through a snapshot of an extent `a` has vacated since (relocation, no flush in between)
                // and an extent of the OTHER vector now overlaps it: the allocator handed the vacated extent out again
                if let Some((ss, sr)) = snap_ext[rid] {
                    let a_now = region.meta().start();
                    let foreign: Vec<(&str, usize, usize)> = [("b", &region_b), ("b's page index", &pages_b)].iter()
                        .filter_map(|(n, r)| r.as_ref().map(|r| { let m = r.meta(); (*n, m.start(), m.reserved()) })).collect();
                    for (n, fs, fr) in foreign {
                        if ss != a_now && fs < ss + sr && ss < fs + fr {
                            let bval = r.got.iter().enumerate().find(|(k, v)| **v != val(c.vf, r.idx + k)).map(|(_, v)| is_valb(c.vf, c.pre.iter().chain(c.w.iter()).filter(|i| i.b).map(|i| i.n).sum(), *v));
                            out.viol.push(format!("C09:reader-saw-bytes-of-another-vector-after-relocation reader {rid} op {kind}:{arg} (len seen {}) read through its snapshot of a's extent [{ss},+{sr}), vacated by a relocation of a (now at {a_now}) and not yet released by a flush, which the extent [{fs},+{fr}) of {n} overlaps: {}{}",
                                r.len_seen, r.status, match bval { Some(true) => ", the wrong value is one pushed to b", Some(false) => ", the wrong value is none of a's or b's", None => "" }));
                            break;
                        }
                    }
                }
            }
        }
    }
    // let everything finish
    {
        let mut g = sh.m.lock().unwrap();
        g.free_run = true;
        sh.cv_thr.notify_all();
    }
    if aborted {
        // threads may be deadlocked for real: give them a moment, then abandon them
        let t0 = Instant::now();
        while t0.elapsed() < Duration::from_millis(1500) {
            let g = sh.m.lock().unwrap();
            if g.st.iter().all(|s| *s == TState::Done) {
                break;
            }
            drop(g);
            std::thread::sleep(Duration::from_millis(20));
        }
        let all_done = sh.m.lock().unwrap().st.iter().all(|s| *s == TState::Done);
        if !all_done {
            out.lines.push("abandoned".into());
            out.tags = sh.m.lock().unwrap().tags.clone();
            std::mem::forget(s._dir);
            return out;
        }
    }
    let joined = handles.pop().unwrap().join();
    let (vec, vecb) = match joined { Ok((v, vb)) => (Ok(v), vb), Err(e) => (Err(e), None) };
    for h in rhandles {
        let _ = h.join();
    }
    // results that completed during the free run
    let rs_now: Vec<(usize, usize, OpRes)> = results.lock().unwrap()[seen_results..].to_vec();
    for (rid, k, r) in rs_now {
        let (kind, arg) = &c.readers[rid - 1][k];
        out.lines.push(format!("r{rid} op{k} {kind}:{arg} len={} idx={} n={} res={} (free-run)", r.len_seen, r.idx, r.want, r.status));
        if r.status != "ok" && r.status != "empty" {
            out.viol.push(format!("reader-bad-read-in-free-run reader {rid} {kind}:{arg} {}", r.status));
        }
    }
    for (k, w) in wres.lock().unwrap().iter().enumerate() {
        out.lines.push(format!("write{k} {w}"));
        if w != "ok" {
            out.viol.push(format!("writer-write-failed write {k}: {w}"));
        }
    }
    // sequential read-back of everything through a fresh read-only clone
    if let Ok(vec) = vec {
        let ro = vec.read_only_clone();
        let l = ro.len();
        let all = catch_unwind(AssertUnwindSafe(|| ro.collect_range_at(0, l))).unwrap_or_default();
        let total: usize = sum_a(&c.pre) + sum_a(&c.w);
        let okv = all.len() == l && all.iter().enumerate().all(|(i, v)| V::val(v) == val(c.vf, i));
        let (rs, rl, rr) = region_tuple(&vec);
        out.lines.push(format!("final len={l} values={} region={rs},{rl},{rr}", if okv { "ok" } else { "bad" }));
        if !okv || (l != total && !aborted) {
            out.viol.push(format!("final-readback-differs len {l} expected {total} values {}", if okv { "ok" } else { "bad" }));
        }
    }
    if let Some(vb) = vecb {
        let ro = vb.read_only_clone();
        let l = ro.len();
        let all = catch_unwind(AssertUnwindSafe(|| ro.collect_range_at(0, l))).unwrap_or_default();
        let okv = all.len() == l && all.iter().enumerate().all(|(i, v)| V::val(v) == valb(c.vf, i));
        let (rs, rl, rr) = region_tuple(&vb);
        out.lines.push(format!("finalb len={l} values={} region={rs},{rl},{rr}", if okv { "ok" } else { "bad" }));
    }
    out.tags = sh.m.lock().unwrap().tags.clone();
    out
}

/// Stable key of a bad read, from where the reader's stops fell relative to the writer's.
/// Writer positions are counts of writer stops passed; every write() of the schedule is one window.
fn classify<V: VecKind>(c: &Cfg, marks: &[(String, usize)], wstops: &[String], status: &str) -> String
where
    V::ReadOnly: Send + Sync,
{
    if !V::COMP {
        return if status == "panic" { "raw-reader-panics-during-write".into() } else { "reader-sees-length-before-data".into() };
    }
    let sym = if status == "panic" { "-panic" } else { "" };
    // the reader's last operation: snapshot = the stop after its last after-len stop, entry = its pages-lock stop
    let snap = marks.iter().rposition(|(s, _)| s.ends_with(":after-len")).and_then(|i| marks.get(i + 1)).map(|(_, w)| *w);
    let entry = marks.iter().rev().find(|(s, _)| s.ends_with(":after-pages-lock")).map(|(_, w)| *w);
    let end = marks.last().map(|(_, w)| *w).unwrap_or(0);
    // windows of the writes
    let mut bounds = vec![0usize];
    for (i, s) in wstops.iter().enumerate() {
        if s == "h:op-start" { bounds.push(i + 1); }
    }
    bounds.push(wstops.len() + 1);
    let mut stored: usize = sum_a(&c.pre);
    let mut d2 = false;
    // the region was moved (by this or an EARLIER write of the schedule) after the reader took its snapshot
    let mut moved_after_snap = false;
    for k in 0..bounds.len() - 1 {
        if k >= c.w.len() { break; }
        if c.w[k].b { continue; }      // a write() of the second vector: none of a's pages is rewritten
        let (b, e) = (bounds[k], (bounds[k + 1] - 1).min(wstops.len()));
        let win = &wstops[b..e];
        let slow = stored % 2048 != 0 && stored % 2048 + c.w[k].n >= 2048;
        stored += c.w[k].n;
        let data_at = win.iter().position(|s| s == "write_with:fits:after-data" || s == "write_with:relocate:after-copy" || s.ends_with(":after-region-write")).map(|p| b + p + 1);
        let index_at = win.iter().position(|s| s.ends_with(":after-index")).map(|p| b + p + 1);
        let relocated = win.iter().any(|s| s.starts_with("write_with:relocate"));
        if let (Some(en), Some(d)) = (entry, data_at) {
            // the entry is the one this write replaces, and the bytes were rewritten before the read ended
            if slow && index_at.map(|i| en < i).unwrap_or(true) && end >= d {
                return format!("reader-decodes-page-being-rewritten{sym}");
            }
        }
        if let (Some(sn), Some(i)) = (snap, index_at) {
            let moved_at = win.iter().position(|s| s.ends_with(":after-region-write")).map(|p| b + p + 1).unwrap_or(i);
            if relocated && sn < moved_at { moved_after_snap = true; }
        }
        if let (Some(en), Some(i)) = (entry, index_at) {
            // a page entry written by a re-encoding write is used through a snapshot of the extent the region has left
            if slow && moved_after_snap && en >= i { d2 = true; }
        }
    }
    if d2 { return format!("reader-old-region-snapshot-new-page-entry{sym}"); }
    format!("comp-reader-bad-read{sym}")
}

// ------------------------------------------------------------------------------------------------
// schedule generation
type ReaderSet = Vec<Vec<(String, String)>>;

/// Regimes of the enumerated family.  The second component: reader sets of its own (None = the common ones) and
/// whether the directed schedule "every reader up to the stop at which it holds its rawdb Reader, the writer to
/// the end, the readers to the end" is run in addition to the (sampled) enumeration.
fn regimes() -> Vec<(Cfg, Option<Vec<ReaderSet>>)> {
    let mk = |fmt: &str, lay: &str, pad: bool, vf: u8, pre: &[usize], w: usize| (Cfg {
        fmt: fmt.into(), lay: lay.into(), pad, vf, st: false, fine: false, pre: pre.iter().map(|n| ia(*n)).collect(), w: vec![ia(w)], hasb: false,
        readers: vec![], hints: String::new(), sched: vec![],
    }, None);
    // two vectors: `a` relocates, then `b` needs an extent no larger than the one `a` vacated
    let mk2 = |fmt: &str, lay: &str, vf: u8, pre: &[Item], w: &[Item], rsets: &[&[(&str, &str)]]| (Cfg {
        fmt: fmt.into(), lay: lay.into(), pad: false, vf, st: false, fine: false, pre: pre.to_vec(), w: w.to_vec(), hasb: true,
        readers: vec![], hints: String::new(), sched: vec![],
    }, Some(rsets.chunks(2).map(|ch| ch.iter().map(|r| r.iter().map(|(k, a)| (k.to_string(), a.to_string())).collect()).collect()).collect()));
    vec![
        mk("raw", "blk", false, 0, &[100], 50),      // fast append, fits in the reserve
        mk("raw", "last", false, 0, &[500], 100),     // in-place extension of the last region
        mk("raw", "blk", false, 0, &[500], 100),      // relocation to the end of the layout
        mk("raw", "hole", false, 0, &[500], 100),     // relocation into a hole
        mk("raw", "adj", false, 0, &[500], 100),      // expansion into the adjacent hole
        mk("raw", "blk", true, 0, &[500], 100),       // relocation + file growth
        mk("raw", "last", true, 0, &[500], 100),      // extension + file growth
        mk("pco", "blk", false, 0, &[100], 50),       // fast raw append to the partial page
        mk("pco", "blk", false, 0, &[2048], 100),     // page-aligned start, no partial page
        mk("pco", "adj", false, 0, &[2000], 100),     // partial page re-encoded (page overflow), in place
        mk("pco", "blk", false, 1, &[400], 2000),     // page overflow + relocation
        mk("pco", "blk", false, 0, &[400], 200),      // fast append + relocation
        mk("pco", "blk", true, 1, &[400], 2000),      // page overflow + relocation + file growth
        mk("lz4", "adj", false, 0, &[2000], 100),     // lz4: page overflow in place
        // [a 4K][blk][b 4K] -> (pre) [.][blk][.][a 32K: 4000 values][b 8K: 1000 values]; then a -> 9000 values (relocated to the
        // end, vacating 32K), then b -> 3000 values (needs a 32K extent)
        mk2("raw", "blk", 0, &[ia(100), ib(100), ia(900), ia(3000), ib(900)], &[ia(5000), ib(2000)],
            &[&[("vr", "first")], &[("fold", "4000")], &[("vr", "mid")], &[("get", "first")]]),
        // the same from a layout with a reusable hole: [a 4K][x 4K][b 4K][hole 60K][c 4K]
        mk2("raw", "hole", 1, &[ia(100), ib(100), ia(900), ia(3000), ib(900)], &[ia(5000), ib(2000)],
            &[&[("vr", "mid")], &[("fold", "4000")], &[("cur", "first")], &[("rng", "4000")]]),
        // compressed (incompressible values): a = 2 full pages in a 64K extent, b behind it; a -> 4 pages (relocated,
        // page-aligned start: no page is rewritten), then b -> 2 pages (needs 64K)
        mk2("pco", "blk", 1, &[ia(2048), ib(100), ia(2048), ib(1948)], &[ia(4096), ib(2048)],
            &[&[("get", "first")], &[("fold", "3")], &[("rng", "3")], &[("cur", "first")]]),
        // (short reads: the model decodes a whole page per element read)
        mk2("lz4", "blk", 1, &[ia(2048), ib(100), ia(2048), ib(1948)], &[ia(4096), ib(2048)],
            &[&[("get", "first")], &[("fold", "3")]]),
        // raw format with a NON-native element (per-value serialisation in write(), per-value reads): the appending regimes
        mk("rawn", "blk", false, 0, &[100], 50),      // fits in the reserve
        mk("rawn", "last", false, 1, &[500], 100),    // in-place extension of the last region
        mk("rawn", "blk", false, 0, &[500], 100),     // relocation to the end of the layout
        mk("rawn", "hole", false, 1, &[500], 100),    // relocation into a hole
    ]
}

/// the directed schedule of a two-vector regime: readers to the stop after which they hold their Reader (and,
/// compressed, not yet the pages lock), the writer to its end, then every reader to its end
fn directed_schedule(wst: &[String], rst: &[Vec<String>]) -> Vec<usize> {
    let mut s = vec![];
    let mut left = vec![];
    for (ri, r) in rst.iter().enumerate() {
        let upto = r.iter().position(|x| x.contains(":after-reader")).map(|p| p + 1).unwrap_or(0);
        for _ in 0..upto { s.push(ri + 1); }
        left.push(r.len() - upto);
    }
    for _ in 0..wst.len() { s.push(0); }
    for (ri, n) in left.iter().enumerate() {
        for _ in 0..*n { s.push(ri + 1); }
    }
    s
}

fn with_hints(c: &Cfg) -> Cfg {
    let mut c = c.clone();
    c.hints = match c.fmt.as_str() {
        "raw" => hints_for::<BytesVec<usize, u64>>(&c),
        "rawn" => hints_for::<BytesVec<usize, Be8>>(&c),
        "pco" => hints_for::<PcoVec<usize, u64>>(&c),
        _ => hints_for::<LZ4Vec<usize, u64>>(&c),
    };
    c
}

fn run_any(c: &Cfg) -> CaseOut {
    match c.fmt.as_str() {
        "raw" => run_case::<BytesVec<usize, u64>>(c),
        "rawn" => run_case::<BytesVec<usize, Be8>>(c),
        "pco" => run_case::<PcoVec<usize, u64>>(c),
        _ => run_case::<LZ4Vec<usize, u64>>(c),
    }
}

/// Stop sequences of the writer alone and of one reader operation alone (on the initial state).
fn probe(c: &Cfg) -> (Vec<String>, Vec<Vec<String>>, bool) {
    let mut p = c.clone();
    p.sched = vec![];
    for _ in 0..90 {
        p.sched.push((0, false));
    }
    let nreaders = p.readers.len();
    for r in 1..=nreaders {
        for _ in 0..40 {
            p.sched.push((r, false));
        }
    }
    let o = run_any(&p);
    let grows = o.tags.iter().any(|t| t == "file-growth");
    (o.wstops, o.rstops, grows)
}

/// All interleavings of the threads' segment sequences, skipping those in which a step is
/// known to block (the blocked step would simply happen later: same outcome as another schedule).
fn enumerate(wst: &[String], rst: &[Vec<String>], limit: usize, grows: bool, por: bool) -> Vec<Vec<usize>> {
    let n = 1 + rst.len();
    let lens: Vec<usize> = std::iter::once(wst.len()).chain(rst.iter().map(|r| r.len())).collect();
    let mut out = vec![];
    let mut pos = vec![0usize; n];
    let mut cur = vec![];
    fn stop_at<'a>(wst: &'a [String], rst: &'a [Vec<String>], t: usize, p: usize) -> &'a str {
        if p == 0 { return "h:op-start"; }
        if t == 0 { &wst[p - 1] } else { &rst[t - 1][p - 1] }
    }
    fn rec(wst: &[String], rst: &[Vec<String>], lens: &[usize], pos: &mut Vec<usize>, cur: &mut Vec<usize>, out: &mut Vec<Vec<usize>>, limit: usize, grows: bool, por: bool) {
        if out.len() >= limit { return; }
        if (0..lens.len()).all(|t| pos[t] == lens[t]) {
            out.push(cur.clone());
            return;
        }
        for t in 0..lens.len() {
            if pos[t] == lens[t] { continue; }
            let here = stop_at(wst, rst, t, pos[t]);
            let next = stop_at(wst, rst, t, pos[t] + 1);
            // would this step block?
            let blocked = if t == 0 {
                let readers_hold_pages = (1..lens.len()).any(|r| pos[r] < lens[r] && holds_pages_read(stop_at(wst, rst, r, pos[r])));
                let readers_hold_mmap = (1..lens.len()).any(|r| pos[r] < lens[r] && holds_mmap_read(stop_at(wst, rst, r, pos[r])));
                (writer_wants_pages(here) && readers_hold_pages) || (here == "L:mmap:w" && readers_hold_mmap)
                    || (grows && readers_hold_mmap && (here == "h:op-start" || here.ends_with(":after-header")) && !wst.iter().any(|s| s == "L:mmap:w"))
            } else {
                pos[0] < lens[0] && reader_wants_pages(here) && writer_holds_pages(wst, pos[0])
            };
            let _ = next;
            if blocked { continue; }
            // partial-order reduction: steps of two different readers commute (they only load, take shared
            // locks and read), so of two adjacent reader steps only the order "lower reader first" is kept
            if por && t != 0 && cur.last().is_some_and(|l| *l != 0 && *l > t) { continue; }
            pos[t] += 1;
            cur.push(t);
            rec(wst, rst, lens, pos, cur, out, limit, grows, por);
            cur.pop();
            pos[t] -= 1;
        }
    }
    rec(wst, rst, &lens, &mut pos, &mut cur, &mut out, limit, grows, por);
    out
}

fn emit_case(id: &str, c: &Cfg) {
    println!("I {id} {}", cfg_line(c));
    let o = run_any(c);
    for l in &o.lines {
        println!("O {id} {l}");
    }
    let mut seen = std::collections::BTreeSet::new();
    for v in &o.viol {
        if seen.insert(v.split(' ').next().unwrap_or("").to_string()) {
            println!("V {id} {v}");
        }
    }
    let mut tags: Vec<String> = o.tags.clone();
    tags.sort();
    tags.dedup();
    println!("M {id} fmt:{} lay:{}{} regime:{}", c.fmt, c.lay, if c.pad { "+pad" } else { "" },
        if tags.is_empty() { "fits".to_string() } else { tags.join("+") });
}

pub fn run(args: &[String]) -> i32 {
    let a = crate::util::parse_args(args);
    crate::util::quiet_panics();
    verif_tap::set_sink(Some(Box::new(sink)));
    if let Some(path) = &a.replay {
        for (id, line) in crate::util::replay_inputs(path) {
            let c = parse_cfg(&line);
            emit_case(&id, &c);
        }
        return 0;
    }
    // --shards N (passed by the property definition): this process takes every N-th exhaustive schedule
    let mut shards = 1u64;
    let mut mode = "all".to_string();
    let mut xmax = u64::MAX;
    let mut only_regime: Option<usize> = None;
    let mut por = false;
    let mut i = 0;
    while i < a.rest.len() {
        match a.rest[i].as_str() {
            "--shards" => { shards = a.rest[i + 1].parse().unwrap(); i += 1 }
            "--mode" => { mode = a.rest[i + 1].clone(); i += 1 }
            "--xmax" => { xmax = a.rest[i + 1].parse().unwrap(); i += 1 }
            "--por" => { por = a.rest[i + 1] == "1"; i += 1 }
            "--regime" => { only_regime = Some(a.rest[i + 1].parse().unwrap()); i += 1 }
            _ => {}
        }
        i += 1;
    }
    let shard = a.seed % 1000 % shards.max(1);
    let budget = a.cases as usize;
    let mut rng = Rng::new(a.seed);
    let mut n = 0usize;
    let reader_sets: Vec<Vec<Vec<(String, String)>>> = vec![
        vec![vec![("get".into(), "last".into())], vec![("rng".into(), "3".into())]],
        vec![vec![("fold".into(), "2".into())], vec![("cur".into(), "last".into())]],
        vec![vec![("vr".into(), "last".into())], vec![("get".into(), "first".into())]],
        vec![vec![("get".into(), "first".into())], vec![("rng".into(), "2000".into())]],
    ];
    // (a) exhaustive: one write() × two reader operations, every regime
    let mut ex_total = 0usize;
    if mode != "random" {
        let mut k = 0u64;
        let mut cfg_no = 0u64;
        for (ri, (base, own_sets)) in regimes().into_iter().enumerate() {
            let mut base_h: Option<Cfg> = None;
            let directed = own_sets.is_some();
            let sets: &Vec<ReaderSet> = own_sets.as_ref().unwrap_or(&reader_sets);
            for (si, rs) in sets.iter().enumerate() {
                let is_raw = base.fmt.starts_with("raw");
                if !is_raw && rs.iter().any(|r| r.iter().any(|(k, _)| k == "vr")) {
                    continue;
                }
                if is_raw && si == 3 && !directed { continue; }
                if only_regime.is_some_and(|r| r != ri) { continue; }
                // each (regime, reader pair) configuration is enumerated by exactly one shard
                cfg_no += 1;
                if cfg_no % shards != shard { continue; }
                if base_h.is_none() { base_h = Some(with_hints(&base)); }
                let mut c = base_h.clone().unwrap();
                c.readers = rs.clone();
                let (wst, rst, grows) = probe(&c);
                let scheds = enumerate(&wst, &rst, 400000, grows, por);
                ex_total += scheds.len();
                eprintln!("schedvec: regime {ri} readers {si}: writer stops {} reader stops {:?} -> {} schedules", wst.len(), rst.iter().map(|r| r.len()).collect::<Vec<_>>(), scheds.len());
                if directed {
                    let mut cc = c.clone();
                    cc.sched = directed_schedule(&wst, &rst).iter().map(|t| (*t, false)).collect();
                    emit_case(&format!("x{ri}.{si}.d"), &cc);
                    n += 1;
                }
                let stride = ((scheds.len() as u64).div_ceil(xmax.max(1))).max(1);
                let phase = (a.seed / 1000) % stride;
                for (j, s) in scheds.iter().enumerate() {
                    k += 1;
                    if (j as u64) % stride != phase { continue; }
                    let mut cc = c.clone();
                    cc.sched = s.iter().map(|t| (*t, false)).collect();
                    emit_case(&format!("x{ri}.{si}.{j}"), &cc);
                    n += 1;
                }
            }
        }
    }
    // (b) random longer schedules: several writes, up to three readers with several operations, fine stops
    let mut j = 0;
    while n < budget && mode != "exhaustive" {
        j += 1;
        let fmt = *rng.pick(&["raw", "rawn", "pco", "pco", "lz4"]);
        let is_raw = fmt.starts_with("raw");
        let lay = *rng.pick(if is_raw { &["last", "blk", "hole", "adj"][..] } else { &["blk", "hole", "adj", "last"][..] });
        let mut c = Cfg { fmt: fmt.into(), lay: lay.into(), pad: rng.chance(1, 5), vf: rng.below(2) as u8, st: is_raw && rng.chance(1, 4), fine: rng.chance(1, 2),
                          pre: vec![], w: vec![], hasb: false, readers: vec![], hints: String::new(), sched: vec![] };
        let sizes: &[u64] = if is_raw { &[1, 7, 100, 400, 508, 600, 3000] } else { &[1, 50, 400, 1000, 2047, 2048, 2100, 4500] };
        // at least one stored element: the stop sequence of a reader operation must not depend on the schedule (len 0 = early return)
        for _ in 0..rng.range(1, 2) { c.pre.push(ia(*rng.pick(sizes) as usize)); }
        for _ in 0..rng.range(1, 3) { c.w.push(ia(*rng.pick(sizes) as usize)); }
        // a quarter of the cases: a second vector of the writer thread, created with an initial size in the pre phase and
        // written 1-2 times between / after the writes of `a` (its relocations and allocations compete for the same file)
        if rng.chance(1, 4) {
            c.hasb = true;
            let at = rng.below(c.pre.len() as u64 + 1) as usize;
            c.pre.insert(at, ib(*rng.pick(sizes) as usize));
            if rng.chance(1, 3) { c.pre.push(ib(*rng.pick(sizes) as usize)); }
            for _ in 0..rng.range(1, 2) {
                let at = rng.range(1, c.w.len() as u64) as usize;
                c.w.insert(at, ib(*rng.pick(sizes) as usize));
            }
        }
        let kinds: &[&str] = if is_raw { &["get", "rng", "fold", "vr", "cur", "len"] } else { &["get", "rng", "fold", "cur", "len"] };
        for _ in 0..rng.range(1, 3) {
            let mut ops = vec![];
            for _ in 0..rng.range(1, 3) {
                let k = *rng.pick(kinds);
                let arg = match k { "rng" | "fold" => rng.range(1, 5).to_string(), "len" => String::new(), _ => rng.pick(&["last", "first", "mid"]).to_string() };
                ops.push((k.to_string(), arg));
            }
            c.readers.push(ops);
        }
        let c = with_hints(&c);
        let (wst, rst, grows) = probe(&c);
        // random walk over the enabled steps
        let lens: Vec<usize> = std::iter::once(wst.len()).chain(rst.iter().map(|r| r.len())).collect();
        let mut pos = vec![0usize; lens.len()];
        let stop_at = |t: usize, p: usize| -> String { if p == 0 || (t == 0 && wst[p - 1] == "h:op-start") { "h:op-start".into() } else if t == 0 { wst[p - 1].clone() } else { rst[t - 1][p - 1].clone() } };
        let mut sched = vec![];
        loop {
            let live: Vec<usize> = (0..lens.len()).filter(|t| pos[*t] < lens[*t]).collect();
            if live.is_empty() { break; }
            let enabled: Vec<usize> = live.iter().cloned().filter(|&t| {
                let here = stop_at(t, pos[t]);
                if t == 0 {
                    let rp = (1..lens.len()).any(|r| pos[r] < lens[r] && holds_pages_read(&stop_at(r, pos[r])));
                    let rm = (1..lens.len()).any(|r| pos[r] < lens[r] && holds_mmap_read(&stop_at(r, pos[r])));
                    // without the L:mmap:w stop a growth inside the segment cannot be told apart: be conservative
                    !((writer_wants_pages(&here) && rp) || (rm && (here == "L:mmap:w" || (!c.fine && grows && (here == "h:op-start" || here.ends_with(":after-header"))))))
                } else {
                    !(pos[0] < lens[0] && reader_wants_pages(&here) && writer_holds_pages(&wst, pos[0]))
                }
            }).collect();
            if enabled.is_empty() { break; }
            let t = *rng.pick(&enabled);
            pos[t] += 1;
            sched.push((t, false));
        }
        let mut cc = c.clone();
        cc.sched = sched;
        emit_case(&format!("r{j}"), &cc);
        n += 1;
    }
    eprintln!("schedvec: {n} cases ({ex_total} exhaustive schedules enumerated over all shards)");
    0
}
