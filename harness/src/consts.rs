//! Values only the compiler knows, printed for tools/gen_consts.py (Gen/Sizes.v).
pub fn run() -> i32 {
    println!("HEADER_OFFSET={}", vecdb::HEADER_OFFSET);
    println!("SIZE_OF_PAGE={}", vecdb::verif_hooks::SIZE_OF_PAGE);
    println!("SIZE_OF_USIZE={}", std::mem::size_of::<usize>());
    0
}
