//! Rust side of the correspondence checks: runs the real anydb code on generated or
//! replayed inputs and prints observations in the line protocol of DESIGN.md appendix C.
//! Engines live in src/eng_<name>.rs (each exposes `pub fn run(args: &[String]) -> i32`).
#![allow(dead_code)]
mod consts;
pub mod rng;
pub mod util;

include!(concat!(env!("OUT_DIR"), "/engines.rs"));

/// Allocation watch: the harness's global allocator records the largest single request, so that
/// an engine can ask "how much did this decode try to allocate?" (C17: a decoder never allocates
/// beyond the size of its input).  Requests are passed to the system allocator unchanged.
pub mod allocwatch {
    use std::alloc::{GlobalAlloc, Layout, System};
    use std::sync::atomic::{AtomicUsize, Ordering};
    pub static MAX_REQ: AtomicUsize = AtomicUsize::new(0);
    pub struct Watch;
    unsafe impl GlobalAlloc for Watch {
        unsafe fn alloc(&self, l: Layout) -> *mut u8 { MAX_REQ.fetch_max(l.size(), Ordering::Relaxed); unsafe { System.alloc(l) } }
        unsafe fn alloc_zeroed(&self, l: Layout) -> *mut u8 { MAX_REQ.fetch_max(l.size(), Ordering::Relaxed); unsafe { System.alloc_zeroed(l) } }
        unsafe fn dealloc(&self, p: *mut u8, l: Layout) { unsafe { System.dealloc(p, l) } }
        unsafe fn realloc(&self, p: *mut u8, l: Layout, n: usize) -> *mut u8 { MAX_REQ.fetch_max(n, Ordering::Relaxed); unsafe { System.realloc(p, l, n) } }
    }
    pub fn reset() { MAX_REQ.store(0, Ordering::Relaxed); }
    pub fn max() -> usize { MAX_REQ.load(Ordering::Relaxed) }
}
#[global_allocator]
static GLOBAL: allocwatch::Watch = allocwatch::Watch;

fn main() {
    let args: Vec<String> = std::env::args().collect();
    if args.len() < 2 {
        eprintln!("usage: harness <engine> [--seed n] [--cases n] [--replay file]");
        std::process::exit(2);
    }
    let rest = &args[2..];
    let code = match args[1].as_str() {
        "consts" => consts::run(),
        other => match dispatch(other, rest) {
            Some(c) => c,
            None => {
                eprintln!("unknown engine {other}");
                2
            }
        },
    };
    std::process::exit(code);
}
