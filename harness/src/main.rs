//! Rust side of the correspondence checks: runs the real anydb code on generated or
//! replayed inputs and prints observations in the line protocol of DESIGN.md appendix C.
//! Engines live in src/eng_<name>.rs (each exposes `pub fn run(args: &[String]) -> i32`).
#![allow(dead_code)]
mod consts;
pub mod rng;
pub mod util;

include!(concat!(env!("OUT_DIR"), "/engines.rs"));

fn main() {
    let args: Vec<String> = std::env::args().collect();
    if args.len() < 2 {
        eprintln!("usage: harness <engine> [--seed n] [--cases n] [--replay file]");
        std::process::exit(2);
    }
    let rest = &args[2..];
    let code = match args[1].as_str() {
        "consts" => consts::run(),
        other => match dispatch(other, rest) {
            Some(c) => c,
            None => {
                eprintln!("unknown engine {other}");
                2
            }
        },
    };
    std::process::exit(code);
}
