//! Rust side of the correspondence checks: runs the real anydb code on generated or
//! replayed inputs and prints observations in the line protocol of DESIGN.md appendix C.
mod rng;
mod consts;
mod codec;

fn main() {
    let args: Vec<String> = std::env::args().collect();
    if args.len() < 2 {
        eprintln!("usage: harness <engine> [args]");
        std::process::exit(2);
    }
    let rest = &args[2..];
    let code = match args[1].as_str() {
        "consts" => consts::run(),
        "codec" => codec::run(rest),
        other => {
            eprintln!("unknown engine {other}");
            2
        }
    };
    std::process::exit(code);
}
