//! Engine `rawvec` (C03 raw half, C04, C16): runs generated or replayed histories on real
//! BytesVec / ZeroCopyVec / EagerVec<BytesVec> and prints, after EVERY step, the spec-level and
//! the model-level observation.  A plain Rust reference vector (Vec<Option<u64>> + a stack of
//! committed snapshots) is stepped alongside; the first disagreement becomes a `V` line.
//!
//! I line:  fmt=<bytes|zc|eager> ty=<u64|u8|u32|i64|a3> k=<n> <op> <op> …
//! ops:     p:<v>  P:<count>:<v0>  t:<i>  w  f  r  ru  ri  ro  u:<i>:<v>  d:<i>  k:<i>  h:<v>
//!          c:<stamp>  cn:<stamp>  rb  rbb:<stamp>  xd:<stamp>  xt:<stamp>:<n>  xo:<stamp>:<off>:<u64>
use crate::rng::Rng;
use crate::util;
use std::collections::BTreeMap;
use std::fmt::Debug;
use std::panic::{AssertUnwindSafe, catch_unwind};
use std::path::PathBuf;
use vecdb::{
    AnyStoredVec, AnyVec, BytesVec, BytesVecValue, Database, EagerVec, ImportOptions, ImportableVec,
    ReadableVec, Stamp, Version, WritableVec, ZeroCopyVec, ZeroCopyVecValue,
};

// ------------------------------------------------------------------------------------------ elements
pub trait Elem: Copy + Debug + PartialEq + Send + Sync + 'static {
    const W: usize;
    fn from_bits(b: u64) -> Self;
    fn bits(&self) -> u64;
}
macro_rules! int_elem {
    ($t:ty, $w:expr) => {
        impl Elem for $t {
            const W: usize = $w;
            fn from_bits(b: u64) -> Self { b as $t }
            fn bits(&self) -> u64 { (*self as u64) & (if $w == 8 { u64::MAX } else { (1u64 << ($w * 8)) - 1 }) }
        }
    };
}
int_elem!(u8, 1);
int_elem!(u32, 4);
int_elem!(u64, 8);
impl Elem for i64 {
    const W: usize = 8;
    fn from_bits(b: u64) -> Self { b as i64 }
    fn bits(&self) -> u64 { *self as u64 }
}
impl Elem for [u8; 3] {
    const W: usize = 3;
    fn from_bits(b: u64) -> Self { [b as u8, (b >> 8) as u8, (b >> 16) as u8] }
    fn bits(&self) -> u64 { self[0] as u64 | (self[1] as u64) << 8 | (self[2] as u64) << 16 }
}
const HUGE: usize = 4096;
fn mask(w: usize) -> u64 { if w >= 8 { u64::MAX } else { (1u64 << (w * 8)) - 1 } }

fn err_name(e: &vecdb::Error) -> &'static str {
    use vecdb::Error::*;
    match e {
        WrongLength { .. } => "WrongLength",
        Overflow => "Overflow",
        Underflow => "Underflow",
        IndexTooHigh { .. } => "IndexTooHigh",
        StampMismatch { .. } => "StampMismatch",
        IO(_) => "IO",
        RawDB(r) => match r {
            vecdb::RawDBError::WriteOutOfBounds { .. } => "WriteOutOfBounds",
            vecdb::RawDBError::TruncateInvalid { .. } => "TruncateInvalid",
            vecdb::RawDBError::RegionNotFound => "RegionNotFound",
            _ => "RawDBOther",
        },
        _ => "Other",
    }
}

// ------------------------------------------------------------------------------------------ vector facade
pub trait Vecish<T: Elem>: Sized {
    const RAW: bool;
    const RAW_DUMMY: bool = false;
    fn import(db: &Database, k: u16) -> vecdb::Result<Self>;
    fn push_(&mut self, v: T);
    fn truncate_(&mut self, i: usize) -> vecdb::Result<()>;
    fn write_(&mut self) -> vecdb::Result<bool>;
    fn flush_(&mut self) -> vecdb::Result<()>;
    fn reset_(&mut self) -> vecdb::Result<()>;
    fn reset_unsaved_(&mut self);
    fn update_(&mut self, i: usize, v: T) -> vecdb::Result<()>;
    fn delete_(&mut self, i: usize);
    fn take_(&mut self, i: usize) -> vecdb::Result<Option<T>>;
    fn fill_(&mut self, v: T) -> vecdb::Result<usize>;
    fn commit_(&mut self, s: u64) -> vecdb::Result<()>;
    fn stamped_write_(&mut self, s: u64) -> vecdb::Result<()>;
    fn rollback_(&mut self) -> vecdb::Result<()>;
    fn rollback_before_(&mut self, s: u64) -> vecdb::Result<u64>;
    fn len_(&self) -> usize;
    fn stamp_(&self) -> u64;
    fn view_(&self) -> Vec<Option<T>>;
    fn holes_(&self) -> Vec<usize>;
    fn stored_len_(&self) -> usize;
    fn real_stored_len_(&self) -> usize;
    fn pushed_(&self) -> Vec<T>;
    fn updated_(&self) -> Vec<(usize, T)>;
    fn prev_holes_(&self) -> Vec<usize>;
    fn prev_updated_(&self) -> Vec<(usize, T)>;
    fn has_stored_holes_(&self) -> bool;
    fn region_len_(&self) -> usize;
    fn region_id_(&self) -> String;
}

fn options<'a>(db: &'a Database, k: u16) -> ImportOptions<'a> {
    ImportOptions::new(db, "v", Version::ONE).with_saved_stamped_changes(k)
}

macro_rules! raw_vecish {
    ($ty:ident, $bound:ident) => {
        impl<T: Elem + $bound> Vecish<T> for $ty<usize, T> {
            const RAW: bool = true;
            fn import(db: &Database, k: u16) -> vecdb::Result<Self> { Self::import_with(options(db, k)) }
            fn push_(&mut self, v: T) { WritableVec::push(self, v) }
            fn truncate_(&mut self, i: usize) -> vecdb::Result<()> { self.truncate_if_needed_at(i) }
            fn write_(&mut self) -> vecdb::Result<bool> { self.write() }
            fn flush_(&mut self) -> vecdb::Result<()> { self.flush() }
            fn reset_(&mut self) -> vecdb::Result<()> { WritableVec::reset(self) }
            fn reset_unsaved_(&mut self) { WritableVec::reset_unsaved(self) }
            fn update_(&mut self, i: usize, v: T) -> vecdb::Result<()> { self.update_at(i, v) }
            fn delete_(&mut self, i: usize) { self.delete_at(i) }
            fn take_(&mut self, i: usize) -> vecdb::Result<Option<T>> {
                let reader = self.create_reader();
                self.take_at(i, &reader)
            }
            fn fill_(&mut self, v: T) -> vecdb::Result<usize> { self.fill_first_hole_or_push(v) }
            fn commit_(&mut self, s: u64) -> vecdb::Result<()> { WritableVec::stamped_write_with_changes(self, Stamp::new(s)) }
            fn stamped_write_(&mut self, s: u64) -> vecdb::Result<()> { self.stamped_write(Stamp::new(s)) }
            fn rollback_(&mut self) -> vecdb::Result<()> { WritableVec::rollback(self) }
            fn rollback_before_(&mut self, s: u64) -> vecdb::Result<u64> { self.rollback_before(Stamp::new(s)).map(u64::from) }
            fn len_(&self) -> usize { AnyVec::len(self) }
            fn stamp_(&self) -> u64 { u64::from(self.stamp()) }
            fn view_(&self) -> Vec<Option<T>> { self.collect_holed().unwrap() }
            fn holes_(&self) -> Vec<usize> { self.holes().iter().copied().collect() }
            fn stored_len_(&self) -> usize { self.stored_len() }
            fn real_stored_len_(&self) -> usize { self.real_stored_len() }
            fn pushed_(&self) -> Vec<T> { WritableVec::pushed(self).to_vec() }
            fn updated_(&self) -> Vec<(usize, T)> { self.updated().iter().map(|(k, v)| (*k, *v)).collect() }
            fn prev_holes_(&self) -> Vec<usize> { self.prev_holes().iter().copied().collect() }
            fn prev_updated_(&self) -> Vec<(usize, T)> { self.prev_updated().iter().map(|(k, v)| (*k, *v)).collect() }
            fn has_stored_holes_(&self) -> bool { self.region_names().len() == 2 }
            fn region_len_(&self) -> usize { self.region().meta().len() }
            fn region_id_(&self) -> String { self.region().meta().id().to_string() }
        }
    };
}
raw_vecish!(BytesVec, BytesVecValue);
raw_vecish!(ZeroCopyVec, ZeroCopyVecValue);

impl<T: Elem + BytesVecValue> Vecish<T> for EagerVec<BytesVec<usize, T>> {
    const RAW: bool = false;
    fn import(db: &Database, k: u16) -> vecdb::Result<Self> { Self::import_with(options(db, k)) }
    fn push_(&mut self, v: T) { WritableVec::push(self, v) }
    fn truncate_(&mut self, i: usize) -> vecdb::Result<()> { self.truncate_if_needed_at(i) }
    fn write_(&mut self) -> vecdb::Result<bool> { self.write() }
    fn flush_(&mut self) -> vecdb::Result<()> { self.flush() }
    fn reset_(&mut self) -> vecdb::Result<()> { WritableVec::reset(self) }
    fn reset_unsaved_(&mut self) { WritableVec::reset_unsaved(self) }
    fn update_(&mut self, _i: usize, _v: T) -> vecdb::Result<()> { unreachable!("raw-only op on eager") }
    fn delete_(&mut self, _i: usize) { unreachable!("raw-only op on eager") }
    fn take_(&mut self, _i: usize) -> vecdb::Result<Option<T>> { unreachable!("raw-only op on eager") }
    fn fill_(&mut self, _v: T) -> vecdb::Result<usize> { unreachable!("raw-only op on eager") }
    fn commit_(&mut self, s: u64) -> vecdb::Result<()> { WritableVec::stamped_write_with_changes(self, Stamp::new(s)) }
    fn stamped_write_(&mut self, s: u64) -> vecdb::Result<()> { self.stamped_write(Stamp::new(s)) }
    fn rollback_(&mut self) -> vecdb::Result<()> { WritableVec::rollback(self) }
    fn rollback_before_(&mut self, s: u64) -> vecdb::Result<u64> { self.rollback_before(Stamp::new(s)).map(u64::from) }
    fn len_(&self) -> usize { AnyVec::len(self) }
    fn stamp_(&self) -> u64 { u64::from(self.stamp()) }
    fn view_(&self) -> Vec<Option<T>> { self.collect().into_iter().map(Some).collect() }
    fn holes_(&self) -> Vec<usize> { vec![] }
    fn stored_len_(&self) -> usize { self.stored_len() }
    fn real_stored_len_(&self) -> usize { self.real_stored_len() }
    fn pushed_(&self) -> Vec<T> { WritableVec::pushed(self).to_vec() }
    fn updated_(&self) -> Vec<(usize, T)> { vec![] }
    fn prev_holes_(&self) -> Vec<usize> { vec![] }
    fn prev_updated_(&self) -> Vec<(usize, T)> { vec![] }
    fn has_stored_holes_(&self) -> bool { self.region_names().len() == 2 }
    fn region_len_(&self) -> usize { self.region().meta().len() }
    fn region_id_(&self) -> String { self.region().meta().id().to_string() }
}

// ------------------------------------------------------------------------------------------ ops
#[derive(Clone, Debug, PartialEq)]
pub enum Op {
    Push(u64), PushN(usize, u64), Trunc(usize), Write, Flush, Reset, ResetUnsaved, Reimport, Reopen,
    Update(usize, u64), Delete(usize), Take(usize), Fill(u64), Commit(u64), StampedWrite(u64),
    Rollback, RollbackBefore(u64), XDelete(u64), XTrunc(u64, usize), XOver(u64, usize, u64),
}
impl Op {
    pub fn tok(&self) -> String {
        use Op::*;
        match self {
            Push(v) => format!("p:{v}"), PushN(c, v) => format!("P:{c}:{v}"), Trunc(i) => format!("t:{i}"),
            Write => "w".into(), Flush => "f".into(), Reset => "r".into(), ResetUnsaved => "ru".into(),
            Reimport => "ri".into(), Reopen => "ro".into(), Update(i, v) => format!("u:{i}:{v}"),
            Delete(i) => format!("d:{i}"), Take(i) => format!("k:{i}"), Fill(v) => format!("h:{v}"),
            Commit(s) => format!("c:{s}"), StampedWrite(s) => format!("cn:{s}"), Rollback => "rb".into(),
            RollbackBefore(s) => format!("rbb:{s}"), XDelete(s) => format!("xd:{s}"),
            XTrunc(s, n) => format!("xt:{s}:{n}"), XOver(s, o, v) => format!("xo:{s}:{o}:{v}"),
        }
    }
    pub fn parse(t: &str) -> Op {
        use Op::*;
        let p: Vec<&str> = t.split(':').collect();
        let n = |i: usize| p[i].parse::<u64>().unwrap();
        match p[0] {
            "p" => Push(n(1)), "P" => PushN(n(1) as usize, n(2)), "t" => Trunc(n(1) as usize), "w" => Write,
            "f" => Flush, "r" => Reset, "ru" => ResetUnsaved, "ri" => Reimport, "ro" => Reopen,
            "u" => Update(n(1) as usize, n(2)), "d" => Delete(n(1) as usize), "k" => Take(n(1) as usize),
            "h" => Fill(n(1)), "c" => Commit(n(1)), "cn" => StampedWrite(n(1)), "rb" => Rollback,
            "rbb" => RollbackBefore(n(1)), "xd" => XDelete(n(1)), "xt" => XTrunc(n(1), n(2) as usize),
            "xo" => XOver(n(1), n(2) as usize, n(3)),
            _ => panic!("bad op {t}"),
        }
    }
    fn name(&self) -> &'static str {
        use Op::*;
        match self {
            Push(_) | PushN(..) => "push", Trunc(_) => "truncate", Write => "write", Flush => "flush", Reset => "reset",
            ResetUnsaved => "reset_unsaved", Reimport => "reimport", Reopen => "reopen", Update(..) => "update",
            Delete(_) => "delete", Take(_) => "take", Fill(_) => "fill", Commit(_) => "commit",
            StampedWrite(_) => "stamped_write", Rollback => "rollback", RollbackBefore(_) => "rollback_before",
            XDelete(_) => "fault_delete", XTrunc(..) => "fault_truncate", XOver(..) => "fault_overwrite",
        }
    }
}

#[derive(Clone, Debug, PartialEq)]
enum Res { Unit, Bool(bool), Idx(usize), Val(Option<u64>), St(u64), Err(&'static str), Panic }
impl Res {
    fn show(&self) -> String {
        match self {
            Res::Unit => "ok".into(), Res::Bool(b) => format!("ok:{b}"), Res::Idx(i) => format!("ok:{i}"),
            Res::Val(None) => "ok:_".into(), Res::Val(Some(v)) => format!("ok:{v}"), Res::St(s) => format!("ok:{s}"),
            Res::Err(e) => format!("err:{e}"), Res::Panic => "panic".into(),
        }
    }
    fn is_err(&self) -> bool { matches!(self, Res::Err(_) | Res::Panic) }
}

// ------------------------------------------------------------------------------------------ reference vector (spec)
#[derive(Clone, Debug, PartialEq)]
struct Snap { contents: Vec<Option<u64>>, stamp: u64, after_plain_rb: bool }
#[derive(Clone, Debug)]
struct RefVec {
    contents: Vec<Option<u64>>,
    stamp: u64,
    base: Snap,
    committed: Vec<Snap>, // newest first
    k: usize,
    mask: u64,
    /// an edit operation was issued since the last commit / rollback / reset / import
    edited: bool,
    /// a plain rollback() happened and nothing re-based the baseline since (rollback_before / re-import / reset)
    plain_rb_pending: bool,
    /// the entry consumed by the last rollback was committed right after a plain rollback()
    last_popped_after_plain_rb: bool,
    /// stamps of records left behind by rollbacks (abandoned branch) that a later commit with a HIGHER stamp kept
    abandoned: Vec<u64>,
    stale_kept: bool,
    /// the states the last rollback_before passed through (including where it started)
    passed: Vec<Snap>,
    /// why rollback results are no longer comparable (history left the discipline C04/C16 quantify over)
    taint: Option<&'static str>,
    /// every snapshot that was ever committed (C16_only_committed)
    ever: Vec<Snap>,
}
impl RefVec {
    fn new(k: usize, mask: u64) -> Self {
        let e = Snap { contents: vec![], stamp: 0, after_plain_rb: false };
        RefVec { contents: vec![], stamp: 0, base: e.clone(), committed: vec![], k, mask, edited: false, plain_rb_pending: false, last_popped_after_plain_rb: false, passed: vec![], abandoned: vec![], stale_kept: false, taint: None, ever: vec![e] }
    }
    fn dirty(&self) -> bool { self.edited }
    fn rollback(&mut self) -> bool {
        if self.committed.is_empty() { return false; }
        let s = self.committed.remove(0);
        self.abandoned.push(self.base.stamp);
        self.last_popped_after_plain_rb |= self.base.after_plain_rb;
        self.contents = s.contents.clone();
        self.stamp = s.stamp;
        self.base = s;
        true
    }
    /// expected result; None = not determined by the spec (not compared)
    fn step(&mut self, op: &Op) -> Option<Res> {
        use Op::*;
        let r = self.step0(op);
        match op {
            Push(_) | PushN(..) | Trunc(_) | Update(..) | Delete(_) | Take(_) | Fill(_) => self.edited = true,
            Commit(_) | Rollback | RollbackBefore(_) | Reset => self.edited = false,
            _ => {}
        }
        r
    }
    fn step0(&mut self, op: &Op) -> Option<Res> {
        use Op::*;
        match op {
            Push(v) => { self.contents.push(Some(*v)); Some(Res::Unit) }
            PushN(c, v0) => { for i in 0..*c { self.contents.push(Some(v0.wrapping_add(i as u64) & self.mask)); } Some(Res::Unit) }
            Trunc(i) => { if *i < self.contents.len() { self.contents.truncate(*i); } Some(Res::Unit) }
            Write | Flush | Reimport | Reopen => {
                if self.k > 0 && self.dirty() { self.taint.get_or_insert("plain-write-between-commits"); }
                if matches!(op, Reimport | Reopen) { self.plain_rb_pending = false; Some(Res::Unit) } else { None }
            }
            Reset => {
                let k = self.k; let ever = std::mem::take(&mut self.ever);
                let m = self.mask; *self = RefVec::new(k, m); self.ever = ever; Some(Res::Unit)
            }
            ResetUnsaved => { self.taint.get_or_insert("reset-unsaved"); None }
            Update(i, v) => {
                if *i < self.contents.len() { self.contents[*i] = Some(*v); Some(Res::Unit) } else { Some(Res::Err("IndexTooHigh")) }
            }
            Delete(i) => { if *i < self.contents.len() { self.contents[*i] = None; } Some(Res::Unit) }
            Take(i) => {
                if *i < self.contents.len() { let o = self.contents[*i].take(); Some(Res::Val(o)) } else { Some(Res::Val(None)) }
            }
            Fill(v) => match self.contents.iter().position(|x| x.is_none()) {
                Some(h) => { self.contents[h] = Some(*v); Some(Res::Idx(h)) }
                None => { self.contents.push(Some(*v)); Some(Res::Idx(self.contents.len() - 1)) }
            },
            Commit(s) => {
                if *s <= self.stamp { self.taint.get_or_insert("non-increasing-stamp"); }
                if self.k > 0 {
                    self.abandoned.retain(|a| a < s);          // save_change_file removes the records >= s
                    if !self.abandoned.is_empty() { self.stale_kept = true; }
                    self.committed.insert(0, self.base.clone());
                    self.committed.truncate(self.k);
                    self.base = Snap { contents: self.contents.clone(), stamp: *s, after_plain_rb: self.plain_rb_pending };
                    self.plain_rb_pending = false;
                    self.ever.push(self.base.clone());
                }
                self.stamp = *s;
                Some(Res::Unit)
            }
            StampedWrite(s) => {
                if self.k > 0 { self.taint.get_or_insert("stamped-write-without-changes"); }
                self.stamp = *s; Some(Res::Unit)
            }
            Rollback => {
                if self.dirty() { self.taint.get_or_insert("rollback-while-dirty"); }
                self.last_popped_after_plain_rb = false;
                if self.rollback() { self.plain_rb_pending = true; Some(Res::Unit) } else { Some(Res::Err("any")) }
            }
            RollbackBefore(s) => {
                if self.dirty() { self.taint.get_or_insert("rollback-while-dirty"); }
                self.last_popped_after_plain_rb = false;
                self.passed = vec![Snap { contents: self.contents.clone(), stamp: self.stamp, after_plain_rb: false }];
                while self.stamp >= *s && self.rollback() { self.passed.push(self.base.clone()); }
                self.plain_rb_pending = false;
                Some(Res::St(self.stamp))
            }
            XDelete(_) | XTrunc(..) | XOver(..) => { self.taint.get_or_insert("fault"); Some(Res::Unit) }
        }
    }
}

// ------------------------------------------------------------------------------------------ running one case
pub struct Cfg { pub fmt: String, pub ty: String, pub k: u16, pub big: bool }

struct Runner<T: Elem, V: Vecish<T>> {
    dir: tempfile::TempDir,
    db: Option<Database>,
    vec: Option<V>,
    k: u16,
    big: bool,
    last_fault: Option<String>,
    refv: RefVec,
    out: Vec<String>,
    viol: Vec<String>,
    tags: Vec<String>,
    nstep: usize,
    dead: bool,
    oracle_off: bool,
    _t: std::marker::PhantomData<T>,
}

fn show_list<A>(l: &[A], f: impl Fn(&A) -> String) -> String {
    if l.is_empty() { return "-".into(); }
    let s = l.iter().map(f).collect::<Vec<_>>().join(",");
    // long lists: count + FNV-1a of the text (computed identically by the driver)
    if l.len() > 64 { format!("#{}:{}:{:016x}", l.len(), s.len(), crate::rng::fnv(s.as_bytes())) } else { s }
}
fn show_opt(o: &Option<u64>) -> String { match o { None => "_".into(), Some(v) => v.to_string() } }

impl<T: Elem, V: Vecish<T>> Runner<T, V> {
    fn new(k: u16) -> Self {
        let dir = tempfile::tempdir().unwrap();
        let db = Database::open(dir.path()).unwrap();
        let vec = V::import(&db, k).unwrap();
        Runner { dir, db: Some(db), vec: Some(vec), k, big: false, last_fault: None, refv: RefVec::new(k as usize, mask(T::W)), out: vec![], viol: vec![],
                 tags: vec![], nstep: 0, dead: false, oracle_off: false, _t: Default::default() }
    }
    fn v(&mut self) -> &mut V { self.vec.as_mut().unwrap() }
    fn changes_dir(&self) -> PathBuf {
        self.dir.path().join("changes").join(self.vec.as_ref().unwrap().region_id_())
    }
    fn listing(&self) -> String {
        let d = self.changes_dir();
        match std::fs::read_dir(&d) {
            Err(_) => "none".into(),
            Ok(rd) => {
                let mut m: BTreeMap<u64, Vec<u8>> = BTreeMap::new();
                for e in rd.flatten() {
                    if let Some(s) = e.file_name().to_str().and_then(|s| s.parse::<u64>().ok()) {
                        m.insert(s, std::fs::read(e.path()).unwrap_or_default());
                    }
                }
                let l: Vec<(u64, Vec<u8>)> = m.into_iter().collect();
                show_list(&l, |(s, b)| format!("{}:{}:{:016x}", s, b.len(), util_fnv(b)))
            }
        }
    }
    fn is_huge(&self) -> bool {
        let v = self.vec.as_ref().unwrap();
        v.stored_len_().checked_add(v.pushed_().len()).map_or(true, |l| l > HUGE)
    }
    fn view_bits(&self) -> Vec<Option<u64>> {
        // a length no honest history of this engine reaches: reading it would walk off the mapping
        if self.is_huge() { return vec![]; }
        self.vec.as_ref().unwrap().view_().iter().map(|o| o.map(|v| v.bits())).collect()
    }
    fn observe(&self, tok: &str, r: &Res) -> String {
        let v = self.vec.as_ref().unwrap();
        if *r == Res::Panic { return format!("{} {} r=panic", self.nstep, tok); }
        if self.is_huge() { return format!("{} {} r={} | len=huge", self.nstep, tok, r.show()); }
        let view = self.view_bits();
        let mut s = format!("{} {} r={} | len={} st={} v={}", self.nstep, tok, r.show(), v.len_(), v.stamp_(),
                            if v.len_() > HUGE { "huge".to_string() } else { show_list(&view, show_opt) });
        if V::RAW { s += &format!(" h={}", show_list(&v.holes_(), |x| x.to_string())); }
        s += &format!(" | sl={} rsl={} pu={}", v.stored_len_(), v.real_stored_len_(),
                      show_list(&v.pushed_(), |x| x.bits().to_string()));
        if V::RAW {
            s += &format!(" up={} ph={} pup={} hsh={}",
                          show_list(&v.updated_(), |(i, x)| format!("{}={}", i, x.bits())),
                          show_list(&v.prev_holes_(), |x| x.to_string()),
                          show_list(&v.prev_updated_(), |(i, x)| format!("{}={}", i, x.bits())),
                          v.has_stored_holes_() as u8);
        }
        let hr = match self.db.as_ref().unwrap().get_region(&format!("{}_holes", v.region_id_())) {
            None => "none".to_string(),
            Some(r) => r.meta().len().to_string(),
        };
        s += &format!(" rl={} hr={} ch={}", v.region_len_(), hr, self.listing());
        s
    }
    fn changes_size(&self) -> usize {
        std::fs::read_dir(self.changes_dir()).map(|rd| rd.flatten().map(|e| e.metadata().map_or(0, |m| m.len() as usize)).sum()).unwrap_or(0)
    }
    fn exec(&mut self, op: &Op) -> Res {
        use Op::*;
        let r = catch_unwind(AssertUnwindSafe(|| -> Res {
            let e = |x: vecdb::Error| Res::Err(err_name(&x));
            match op {
                Push(v) => { self.v().push_(T::from_bits(*v)); Res::Unit }
                PushN(c, v0) => { for i in 0..*c { self.v().push_(T::from_bits(v0.wrapping_add(i as u64))); } Res::Unit }
                Trunc(i) => self.v().truncate_(*i).map(|_| Res::Unit).unwrap_or_else(e),
                Write => self.v().write_().map(Res::Bool).unwrap_or_else(e),
                Flush => match self.v().flush_() {
                    Ok(()) => { let _ = self.db.as_ref().unwrap().flush(); Res::Unit }
                    Err(x) => e(x),
                },
                Reset => self.v().reset_().map(|_| Res::Unit).unwrap_or_else(e),
                ResetUnsaved => { self.v().reset_unsaved_(); Res::Unit }
                Reimport | Reopen => {
                    match self.v().flush_() {
                        Err(x) => e(x),
                        Ok(()) => {
                            self.db.as_ref().unwrap().flush().unwrap();
                            self.vec = None;
                            if *op == Reopen {
                                self.db = None;
                                self.db = Some(Database::open(self.dir.path()).unwrap());
                            }
                            match V::import(self.db.as_ref().unwrap(), self.k) {
                                Ok(v) => { self.vec = Some(v); Res::Unit }
                                Err(x) => { self.dead = true; e(x) }
                            }
                        }
                    }
                }
                Update(i, v) => self.v().update_(*i, T::from_bits(*v)).map(|_| Res::Unit).unwrap_or_else(e),
                Delete(i) => { self.v().delete_(*i); Res::Unit }
                Take(i) => self.v().take_(*i).map(|o| Res::Val(o.map(|x| x.bits()))).unwrap_or_else(e),
                Fill(v) => self.v().fill_(T::from_bits(*v)).map(Res::Idx).unwrap_or_else(e),
                Commit(s) => self.v().commit_(*s).map(|_| Res::Unit).unwrap_or_else(e),
                StampedWrite(s) => self.v().stamped_write_(*s).map(|_| Res::Unit).unwrap_or_else(e),
                Rollback => self.v().rollback_().map(|_| Res::Unit).unwrap_or_else(e),
                RollbackBefore(s) => self.v().rollback_before_(*s).map(Res::St).unwrap_or_else(e),
                XDelete(s) => { let _ = std::fs::remove_file(self.changes_dir().join(s.to_string())); Res::Unit }
                XTrunc(s, n) => {
                    let p = self.changes_dir().join(s.to_string());
                    if let Ok(mut b) = std::fs::read(&p) { b.truncate(*n); std::fs::write(&p, b).unwrap(); }
                    Res::Unit
                }
                XOver(s, off, v) => {
                    let p = self.changes_dir().join(s.to_string());
                    if let Ok(mut b) = std::fs::read(&p) {
                        let names = ["prev_stored_len", "stored_len", "truncated", "prev_pushed", "pushed", "modified", "prev_holes"];
                        let fields = record_fields(&b, T::W);
                        if let Some(j) = fields.iter().position(|(o, _)| o == off) {
                            let old = fields[j].1;
                            let kind = if *v == 0 { "0".to_string() } else if *v == 1 { "1".into() } else if *v == 1 << 32 { "2^32".into() }
                                else if *v == 1 << 63 { "2^63".into() } else if *v == u64::MAX { "max".into() }
                                else if *v == old.wrapping_add(1) { "+1".into() } else if *v == old.wrapping_sub(1) { "-1".into() } else { "other".into() };
                            self.last_fault = Some(format!("{}:{}", names[j.min(6)], kind));
                        }
                        if b.len() >= off + 8 { b[*off..off + 8].copy_from_slice(&v.to_le_bytes()); std::fs::write(&p, b).unwrap(); }
                    }
                    Res::Unit
                }
            }
        }));
        r.unwrap_or(Res::Panic)
    }

    /// the key of a spec-level disagreement: names the operation, what differs and the history shape
    fn oracle(&mut self, op: &Op, r: &Res, pre: &PreState) {
        if self.oracle_off { return; }
        if *op == Op::ResetUnsaved { self.oracle_off = true; self.tags.push("taint:reset-unsaved".into()); return; }
        let was_tainted = self.refv.taint;
        let pre_ref = self.refv.clone();
        let exp = self.refv.step(op);
        let rollbackish = matches!(op, Op::Rollback | Op::RollbackBefore(_));
        if *r == Res::Panic {
            self.viol.push(format!("{}:{}-panics step {} {}", prop_of(op), op.name(), self.nstep, op.tok()));
            return;
        }
        if rollbackish && (was_tainted.is_some() || self.refv.taint.is_some()) {
            // outside the histories C04/C16 quantify over: only the unconditional clauses are checked
            self.tags.push(format!("taint:{}", self.refv.taint.or(was_tainted).unwrap()));
            self.check_unconditional(op, r, pre, &pre_ref);
            self.oracle_off = true;
            return;
        }
        let v = self.vec.as_ref().unwrap();
        let view = self.view_bits();
        let holes: Vec<usize> = self.refv.contents.iter().enumerate().filter(|(_, x)| x.is_none()).map(|(i, _)| i).collect();
        let mut ctx = pre.context(op);
        let _ = &mut ctx; // (the classes of the repaired defects A, B1, B2 no longer get a context of their own)
        // result
        if let Some(e) = &exp {
            let same = match (e, r) {
                (Res::Err("any"), Res::Err(_)) => true,
                (Res::St(_), Res::Err(en)) if matches!(op, Op::RollbackBefore(_)) => {
                    // C16_fail_before: a failed rollback_before must stand on one of the committed states it
                    // passed through (no change directory yet / retention 0: the code reports IO at the start)
                    self.tags.push(format!("rbb-err:{en}"));
                    let here = Snap { contents: view.clone(), stamp: v.stamp_(), after_plain_rb: false };
                    let hit = self.refv.passed.iter().position(|p| p.contents == here.contents && p.stamp == here.stamp);
                    let full = self.refv.clone();
                    match hit {
                        Some(j) => {
                            // re-run the reference up to that state
                            self.refv = pre_ref.clone();
                            for _ in 0..j { self.refv.rollback(); }
                            self.refv.plain_rb_pending = true; // save_rollback_state is skipped on the error path
                            if *en == "StampMismatch" && self.refv.taint.is_none() && !V::RAW_DUMMY {
                                self.viol.push(format!("C04:rollback_before-refuses-with-stamp-mismatch at step {} {}: stopped at stamp {} (reference: ok:{})",
                                                       self.nstep, op.tok(), here.stamp, full.stamp));
                            }
                            true
                        }
                        None => false,
                    }
                }
                (a, b) => a == b,
            };
            if !same && rollbackish && !ctx.is_empty() {
                let key = if ctx.contains("plain-rollback") { "rollback-of-commit-made-after-plain-rollback" } else { "rollback-with-stale-record-of-abandoned-branch" };
                self.viol.push(format!("{} in {} result expected {} got {} at step {} {}", key, op.name(), e.show(), r.show(), self.nstep, op.tok()));
                self.oracle_off = true;
                return;
            }
            if !same {
                if *r == Res::Err("WriteOutOfBounds") {
                    self.viol.push(format!("C04:write-out-of-bounds{} in {} at step {} {}", ctx, op.name(), self.nstep, op.tok()));
                } else {
                    self.viol.push(format!("{}:{}-result{} expected {} got {} at step {} {}", prop_of(op), op.name(), ctx, e.show(), r.show(), self.nstep, op.tok()));
                }
                self.oracle_off = true;
                return;
            }
        } else if r.is_err() {
            if *r == Res::Err("WriteOutOfBounds") {
                self.viol.push(format!("C04:write-out-of-bounds{} in {} at step {} {}", ctx, op.name(), self.nstep, op.tok()));
            } else {
                self.viol.push(format!("{}:{}-fails{}-{} at step {} {}", prop_of(op), op.name(), ctx, r.show().replace(':', "-"), self.nstep, op.tok()));
            }
            self.oracle_off = true;
            return;
        }
        let what = if v.len_() != self.refv.contents.len() { Some("len") }
            else if V::RAW && view != self.refv.contents { Some("contents") }
            else if !V::RAW && view != self.refv.contents.iter().filter(|x| x.is_some()).cloned().collect::<Vec<_>>() { Some("contents") }
            else if V::RAW && v.holes_() != holes { Some("holes") }
            else if v.stamp_() != self.refv.stamp { Some("stamp") }
            else { None };
        if let Some(w) = what {
            let head = if rollbackish && ctx.contains("plain-rollback") { format!("rollback-of-commit-made-after-plain-rollback in {} {}", op.name(), w) }
                else if rollbackish && ctx.contains("stale-record") { format!("rollback-with-stale-record-of-abandoned-branch in {} {}", op.name(), w) }
                else { format!("{}:{}-{}{}", prop_of(op), op.name(), w, ctx) };
            let msg = (format!("{} at step {} {}: expected len={} st={} v={} got len={} st={} v={}", head, self.nstep, op.tok(),
                                     self.refv.contents.len(), self.refv.stamp, show_list(&self.refv.contents, show_opt),
                                     v.len_(), v.stamp_(), show_list(&view, show_opt)));
            let key = msg.split(' ').next().unwrap().to_string();
            if !self.viol.iter().any(|m| m.split(' ').next() == Some(&key)) { self.viol.push(msg); }
            if V::RAW && !rollbackish && w != "stamp" {
                // follow the implementation from here so that later steps are still compared
                self.refv.contents = view.clone();
                self.tags.push("resync".into());
            } else { self.oracle_off = true; }
        }
    }

    /// C16 clauses that hold for every history, tainted or not: a failed single rollback changes
    /// nothing; no panic.
    fn check_unconditional(&mut self, op: &Op, r: &Res, pre: &PreState, _pre_ref: &RefVec) {
        let rollbackish = matches!(op, Op::Rollback | Op::RollbackBefore(_));
        if rollbackish && self.refv.taint == Some("fault") {
            let v = self.vec.as_ref().unwrap();
            let (view, st, len) = (self.view_bits(), v.stamp_(), if self.is_huge() { usize::MAX } else { v.len_() });
            let unchanged = view == pre.view && st == pre.stamp && len == pre.len;
            if let Some(f) = self.last_fault.take() {
                let effect = if unchanged { "unchanged" } else if len <= HUGE && self.refv.ever.iter().any(|s| s.stamp == st && (if V::RAW { s.contents == view }
                    else { s.contents.iter().filter(|x| x.is_some()).cloned().collect::<Vec<_>>() == view })) { "committed-state" }
                    else if len <= HUGE && self.refv.ever.iter().any(|s| if V::RAW { s.contents == view }
                    else { s.contents.iter().filter(|x| x.is_some()).cloned().collect::<Vec<_>>() == view }) { "committed-contents-other-stamp" } else { "UNCOMMITTED" };
                self.tags.push(format!("xo:{}:{}:{}", f, if r.is_err() { r.show() } else { "ok".into() }, effect));
            }
            let committed = len <= HUGE && self.refv.ever.iter().any(|s| s.stamp == st && (if V::RAW { s.contents == view }
                else { s.contents.iter().filter(|x| x.is_some()).cloned().collect::<Vec<_>>() == view }));
            if !unchanged && !committed {
                self.viol.push(format!("{} in {} at step {} ({}): len={} st={}",
                                       if r.is_err() && *op == Op::Rollback { "C16:rollback-refused-after-partial-undo" } else { "C16:rollback-of-damaged-record-accepted" },
                                       op.name(), self.nstep, r.show(), len, st));
                return;
            }
        }
        if let (Op::Rollback, Res::Err(_)) = (op, r) {
            let v = self.vec.as_ref().unwrap();
            if self.view_bits() != pre.view || v.stamp_() != pre.stamp || v.len_() != pre.len {
                self.viol.push(format!("C16:rollback-refused-after-partial-undo in rollback at step {} ({})", self.nstep, r.show()));
            }
        }
    }

    fn step(&mut self, op: &Op) {
        if self.dead { return; }
        let pre = PreState::of(self);
        // C17: decoding a damaged change record neither panics nor allocates beyond the size of its input
        let decode_of_damaged = matches!(op, Op::Rollback | Op::RollbackBefore(_)) && self.refv.taint == Some("fault");
        let input_size = if decode_of_damaged { self.changes_size() + self.vec.as_ref().map_or(0, |v| v.region_len_()) } else { 0 };
        if decode_of_damaged { crate::allocwatch::reset(); }
        let r = self.exec(op);
        if decode_of_damaged {
            let req = crate::allocwatch::max();
            if r == Res::Panic { self.viol.push(format!("C17:decode-of-damaged-change-record-panics in {} at step {}", op.name(), self.nstep)); }
            if req > 8 * input_size + (1 << 20) {
                self.viol.push(format!("C17:decode-of-damaged-change-record-allocates-beyond-input in {} at step {}: one request of {} bytes, change files + region = {} bytes",
                                       op.name(), self.nstep, req, input_size));
            }
            self.tags.push(format!("decode-alloc:{}", if req <= input_size { "<=input" } else if req <= 8 * input_size + (1 << 20) { "<=8x+1M" } else { "BEYOND" }));
        }
        if self.dead { self.out.push(format!("{} {} r={} dead", self.nstep, op.tok(), r.show())); self.nstep += 1; return; }
        let line = self.observe(&op.tok(), &r);
        self.out.push(line);
        if self.is_huge() {
            // a length no history of this engine can reach honestly (only a damaged record sets it): stop here
            if !self.oracle_off {
                self.viol.push(format!("{} in {} at step {} ({}): absurd length",
                                       if r.is_err() { "C16:rollback-refused-after-partial-undo" } else { "C16:rollback-of-damaged-record-accepted" },
                                       op.name(), self.nstep, r.show()));
            }
            self.dead = true; self.nstep += 1; return;
        }
        self.oracle(op, &r, &pre);
        self.tags.push(format!("op:{}:{}", op.name(), if r.is_err() { r.show() } else { "ok".into() }));
        if matches!(op, Op::Write | Op::Flush) { self.tags.push(pre.regime()); }
        self.nstep += 1;
        if r == Res::Panic { self.dead = true; }
    }
}

/// the property a disagreement at this operation concerns (the coordinator's check filters on it)
fn prop_of(op: &Op) -> &'static str {
    match op {
        // the outcome of a rollback concerns both "a rollback restores the previous committed state" (C04)
        // and "exactly the retained records can be rolled back; a refusal rather than a guess" (C16)
        Op::Rollback | Op::RollbackBefore(_) => "C04+C16",
        Op::Commit(_) | Op::StampedWrite(_) => "C04",
        Op::XDelete(_) | Op::XTrunc(..) | Op::XOver(..) => "C16",
        _ => "C03",
    }
}
fn util_fnv(b: &[u8]) -> u64 { crate::rng::fnv(b) }

/// what the harness knows about the implementation right before a step (for violation keys and tags)
struct PreState { view: Vec<Option<u64>>, stamp: u64, len: usize, sl: usize, rsl: usize, npushed: usize, holes: Vec<usize>, nupd: usize, hsh: bool }
impl PreState {
    fn of<T: Elem, V: Vecish<T>>(r: &Runner<T, V>) -> Self {
        let v = r.vec.as_ref().unwrap();
        PreState { view: r.view_bits(), stamp: v.stamp_(), len: v.len_(), sl: v.stored_len_(), rsl: v.real_stored_len_(),
                   npushed: v.pushed_().len(), holes: v.holes_(), nupd: v.updated_().len(), hsh: v.has_stored_holes_() }
    }
    fn context(&self, op: &Op) -> String {
        let mut c = String::new();
        match op {
            Op::Write | Op::Flush | Op::Reimport | Op::Reopen | Op::Commit(_) | Op::StampedWrite(_) => {
                if self.sl > self.rsl && self.npushed > 0 { c += "-with-pushed-while-stored-len-above-disk"; }
                else if self.sl > self.rsl { c += "-while-stored-len-above-disk"; }
            }
            Op::Update(i, _) => {
                if self.holes.contains(i) { c += if *i >= self.sl { "-deleted-buffered-slot" } else { "-deleted-stored-slot" }; }
            }
            _ => {}
        }
        c
    }
    fn regime(&self) -> String {
        format!("write:{}{}{}{}{}{}", if self.sl < self.rsl { "T" } else { "" }, if self.sl > self.rsl { "E" } else { "" },
                if self.npushed > 0 { "N" } else { "" }, if self.nupd > 0 { "U" } else { "" },
                if !self.holes.is_empty() { "H" } else { "" }, if self.hsh { "h" } else { "" })
    }
}

fn input_line(cfg: &Cfg, ops: &[Op]) -> String {
    format!("fmt={} ty={} k={}{} {}", cfg.fmt, cfg.ty, cfg.k, if cfg.big { " big=1" } else { "" }, ops.iter().map(|o| o.tok()).collect::<Vec<_>>().join(" "))
}

fn emit<T: Elem, V: Vecish<T>>(id: &str, cfg: &Cfg, ops: &[Op], r: Runner<T, V>) {
    let mut s = String::new();
    s += &format!("I {} {}\n", id, input_line(cfg, ops));
    for o in &r.out { s += &format!("O {} {}\n", id, o); }
    for v in &r.viol { s += &format!("V {} {}\n", id, v); }
    let mut tags = r.tags.clone(); tags.sort(); tags.dedup();
    for t in tags { s += &format!("M {} {}\n", id, t); }
    print!("{s}");
}

fn replay_case<T: Elem, V: Vecish<T>>(id: &str, cfg: &Cfg, ops: &[Op]) {
    util::running(id, &input_line(cfg, ops));
    let mut r = Runner::<T, V>::new(cfg.k);
    r.big = cfg.big;
    for o in ops { r.step(o); }
    emit(id, cfg, ops, r);
}

// ------------------------------------------------------------------------------------------ generation
#[derive(Clone, Copy, PartialEq, Debug)]
enum Profile { C03, C04, C16, Wild, Safe }

struct Gen<'a> { rng: &'a mut Rng, w: usize, next_val: u64, next_stamp: u64 }
impl<'a> Gen<'a> {
    fn val(&mut self) -> u64 {
        let v = if self.rng.chance(1, 12) { *self.rng.pick(&[0u64, 1, u64::MAX, 1 << 63, 0xff, 0x100, 0xffff_ffff]) } else { self.next_val += 1; 1000 + self.next_val };
        v & mask(self.w)
    }
}

fn gen_case<T: Elem, V: Vecish<T>>(id: &str, cfg: &Cfg, prof: Profile, rng: &mut Rng, nops: usize) -> (Vec<Op>, Runner<T, V>) {
    let mut r = Runner::<T, V>::new(cfg.k);
    r.big = cfg.big;
    let maxlen = if cfg.big { 3000 } else { 60 };
    let mut g = Gen { rng, w: T::W, next_val: 0, next_stamp: 0 };
    let mut ops = vec![];
    let raw = V::RAW;
    let mut since_rb = 100usize;  // steps since the last rollback
    let _ = id;
    for _ in 0..nops {
        if r.dead { break; }
        let len = r.refv.contents.len().max(r.vec.as_ref().unwrap().len_());
        let sl = r.vec.as_ref().unwrap().stored_len_();
        let dirty = r.refv.dirty();
        let k = cfg.k as usize;
        let rollbacks = matches!(prof, Profile::C04 | Profile::C16 | Profile::Wild | Profile::Safe) && k > 0 || prof == Profile::C16;
        let mut cands: Vec<(u32, Op)> = vec![];
        let idx = |g: &mut Gen, len: usize, sl: usize| -> usize {
            // bias: boundary between stored and buffered, ends, beyond
            match g.rng.below(10) {
                0 => len, 1 => len + 1 + g.rng.below(3) as usize, 2 => sl, 3 => sl.saturating_sub(1), 4 => 0,
                5 if len > sl => sl + g.rng.below((len - sl) as u64) as usize,
                _ => if len == 0 { 0 } else { g.rng.below(len as u64) as usize },
            }
        };
        // growth (bounded: the model keeps the region inside its first 4096-byte reservation)
        if len < maxlen {
            cands.push((10, Op::Push(g.val())));
            let c = 1 + g.rng.below(6) as usize; cands.push((6, Op::PushN(c, g.val())));
            if cfg.big { let c = 100 + g.rng.below(900) as usize; cands.push((8, Op::PushN(c, g.val()))); }
        }
        let ti = idx(&mut g, len, sl); cands.push((6, Op::Trunc(ti)));
        if len > 0 && sl > 0 { cands.push((3, Op::Trunc(g.rng.below(sl as u64 + 1) as usize))); }
        if raw {
            let (i1, v1) = (idx(&mut g, len, sl), g.val()); cands.push((7, Op::Update(i1, v1)));
            cands.push((6, Op::Delete(idx(&mut g, len, sl))));
            cands.push((3, Op::Take(idx(&mut g, len, sl))));
            cands.push((4, Op::Fill(g.val())));
            if prof != Profile::Safe {
                // delete then update on the same slot (stored AND buffered): queued as a pair
                if len > 0 && g.rng.chance(1, 30) {
                    let i = idx(&mut g, len, sl).min(len - 1);
                    let op1 = Op::Delete(i); ops.push(op1.clone()); r.step(&op1);
                    cands.clear(); cands.push((1, Op::Update(i, g.val())));
                }
            }
        }
        let plain_ok = match prof { Profile::C03 | Profile::Wild => true, _ => !dirty || k == 0 };
        if plain_ok && cands.len() > 1 {
            cands.push((6, Op::Write)); cands.push((3, Op::Flush)); cands.push((3, Op::Reimport)); cands.push((1, Op::Reopen));
        }
        if cands.len() > 1 { cands.push((1, Op::Reset)); }
        if prof == Profile::Wild && cands.len() > 1 { cands.push((1, Op::ResetUnsaved)); cands.push((1, Op::StampedWrite(r.refv.stamp + 1))); }
        if prof != Profile::C03 && cands.len() > 1 {
            let cur = r.refv.stamp;
            let s = match g.rng.below(10) { 0 => cur + 1 + g.rng.below(5), 1 if prof == Profile::Wild => cur, 2 if prof == Profile::Wild && cur > 0 => cur - 1, _ => cur + 1 };
            cands.push((if prof == Profile::C16 { 14 } else if dirty { 12 } else { 6 }, Op::Commit(s)));
            g.next_stamp = g.next_stamp.max(s);
            if rollbacks && (prof == Profile::Wild || !dirty) {
                let safe_rb = prof != Profile::Safe; // Safe: only rollback_before (which re-bases the baseline)
                if safe_rb { cands.push((if since_rb < 3 { 12 } else { 8 }, Op::Rollback)); }
                let t = match g.rng.below(4) { 0 => cur, 1 => cur.saturating_sub(1), 2 => cur + 1, _ => g.rng.below(cur + 2) };
                cands.push((5, Op::RollbackBefore(t)));
            }
        }
        let total: u32 = cands.iter().map(|c| c.0).sum();
        let mut x = g.rng.below(total as u64) as u32;
        let mut chosen = cands[0].1.clone();
        for (wgt, o) in &cands { if x < *wgt { chosen = o.clone(); break; } x -= *wgt; }
        if matches!(chosen, Op::Rollback | Op::RollbackBefore(_)) { since_rb = 0; } else { since_rb += 1; }
        if chosen == Op::Reset { since_rb = 100; }
        ops.push(chosen.clone());
        r.step(&chosen);
    }
    (ops, r)
}

/// layout of a raw change record: (offsets of the length fields, their values)
fn record_fields(b: &[u8], w: usize) -> Vec<(usize, u64)> {
    let rd = |o: usize| -> Option<u64> { b.get(o..o + 8).map(|s| u64::from_le_bytes(s.try_into().unwrap())) };
    let mut f = vec![];
    let mut pos = 8; // stamp
    (|| -> Option<()> {
        f.push((pos, rd(pos)?)); pos += 8;           // prev_stored_len
        f.push((pos, rd(pos)?)); pos += 8;           // stored_len
        let t = rd(pos)?; f.push((pos, t)); pos += 8 + w * t as usize;      // truncated count
        let pp = rd(pos)?; f.push((pos, pp)); pos += 8 + w * pp as usize;   // prev_pushed len
        let p = rd(pos)?; f.push((pos, p)); pos += 8 + w * p as usize;      // pushed len
        let m = rd(pos)?; f.push((pos, m)); pos += 8 + (8 + w) * m as usize; // modified len
        let h = rd(pos)?; f.push((pos, h)); pos += 8 + 8 * h as usize;       // prev_holes len
        let _ = pos;
        Some(())
    })();
    f
}

fn run_family<T: Elem, V: Vecish<T>>(cfg: &Cfg, rng: &mut Rng, case_no: &mut u64, seed: u64, budget: usize) {
    // base history: commits with edits in between, ending right after a commit
    let nbase = 14 + rng.below(10) as usize;
    let (mut base, mut r) = gen_case::<T, V>("", cfg, Profile::C16, rng, nbase);
    // the fault hits the record of the state the vector stands on: end the base right after a commit
    if !r.dead {
        let c = Op::Commit(r.refv.stamp + 1);
        r.step(&c);
        base.push(c);
    }
    let stamp_now = r.vec.as_ref().map(|v| v.stamp_()).unwrap_or(0);
    if r.dead || !r.viol.is_empty() || cfg.k == 0 {
        let id = format!("{}-{}", seed, *case_no); *case_no += 1; emit(&id, cfg, &base, r); return;
    }
    let file = std::fs::read(r.changes_dir().join(stamp_now.to_string())).ok();
    drop(r);
    let Some(bytes) = file else {
        base.push(Op::Rollback);
        let id = format!("{}-{}", seed, *case_no); *case_no += 1; replay_case::<T, V>(&id, cfg, &base); return;
    };
    let mut faults: Vec<Op> = vec![Op::XDelete(stamp_now)];
    if bytes.len() <= 512 { for n in 0..bytes.len() { faults.push(Op::XTrunc(stamp_now, n)); } }
    else { for _ in 0..64 { faults.push(Op::XTrunc(stamp_now, rng.below(bytes.len() as u64) as usize)); } }
    for (off, val) in record_fields(&bytes, T::W) {
        for v in [0u64, 1, 1 << 32, 1 << 63, u64::MAX, val.wrapping_add(1), val.wrapping_sub(1)] {
            if v != val { faults.push(Op::XOver(stamp_now, off, v)); }
        }
    }
    // keep the family within its budget by sampling when necessary (truncations first: they are the exhaustive part)
    let mut n = 0;
    for (j, f) in faults.iter().enumerate() {
        if n >= budget { break; }
        let mut ops = base.clone();
        ops.push(f.clone());
        ops.push(if j % 3 == 2 { Op::RollbackBefore(rng.below(stamp_now + 1)) } else { Op::Rollback });
        // continuation: the vector must still be usable
        ops.push(Op::Push(7)); ops.push(Op::Write);
        let id = format!("{}-{}", seed, *case_no); *case_no += 1; n += 1;
        replay_case::<T, V>(&id, cfg, &ops);
    }
}

macro_rules! dispatch {
    ($cfg:expr, $f:ident, $($args:expr),*) => {
        match ($cfg.fmt.as_str(), $cfg.ty.as_str()) {
            ("bytes", "u64") => $f::<u64, BytesVec<usize, u64>>($($args),*),
            ("bytes", "u8") => $f::<u8, BytesVec<usize, u8>>($($args),*),
            ("bytes", "u32") => $f::<u32, BytesVec<usize, u32>>($($args),*),
            ("bytes", "i64") => $f::<i64, BytesVec<usize, i64>>($($args),*),
            ("bytes", "a3") => $f::<[u8; 3], BytesVec<usize, [u8; 3]>>($($args),*),
            ("zc", "u64") => $f::<u64, ZeroCopyVec<usize, u64>>($($args),*),
            ("zc", "u8") => $f::<u8, ZeroCopyVec<usize, u8>>($($args),*),
            ("zc", "u32") => $f::<u32, ZeroCopyVec<usize, u32>>($($args),*),
            ("zc", "i64") => $f::<i64, ZeroCopyVec<usize, i64>>($($args),*),
            ("zc", "a3") => $f::<[u8; 3], ZeroCopyVec<usize, [u8; 3]>>($($args),*),
            ("eager", "u64") => $f::<u64, EagerVec<BytesVec<usize, u64>>>($($args),*),
            ("eager", "u8") => $f::<u8, EagerVec<BytesVec<usize, u8>>>($($args),*),
            ("eager", "u32") => $f::<u32, EagerVec<BytesVec<usize, u32>>>($($args),*),
            ("eager", "i64") => $f::<i64, EagerVec<BytesVec<usize, i64>>>($($args),*),
            ("eager", "a3") => $f::<[u8; 3], EagerVec<BytesVec<usize, [u8; 3]>>>($($args),*),
            (f, t) => panic!("unsupported fmt/ty {f}/{t}"),
        }
    };
}

fn gen_and_emit<T: Elem, V: Vecish<T>>(id: &str, cfg: &Cfg, prof: Profile, rng: &mut Rng, nops: usize) {
    let (ops, mut r) = gen_case::<T, V>(id, cfg, prof, rng, nops);
    r.tags.push(format!("profile:{:?}", prof));
    r.tags.push(format!("cfg:{}:{}:k{}", cfg.fmt, cfg.ty, cfg.k));
    if cfg.big { r.tags.push("big".into()); }
    if r.vec.as_ref().map_or(false, |v| v.region_len_() > 4096) { r.tags.push("relocated".into()); }
    emit(id, cfg, &ops, r);
}

pub fn run(args: &[String]) -> i32 {
    let a = util::parse_args(args);
    util::quiet_panics();
    if let Some(path) = &a.replay {
        for (id, body) in util::replay_inputs(path) {
            let toks: Vec<&str> = body.split_whitespace().collect();
            let get = |k: &str| toks.iter().find_map(|t| t.strip_prefix(&format!("{k}="))).unwrap().to_string();
            let cfg = Cfg { fmt: get("fmt"), ty: get("ty"), k: get("k").parse().unwrap(), big: toks.iter().any(|t| *t == "big=1") };
            let ops: Vec<Op> = toks.iter().filter(|t| !t.contains('=')).map(|t| Op::parse(t)).collect();
            dispatch!(cfg, replay_case, &id, &cfg, &ops);
        }
        return 0;
    }
    let faults_only = a.rest.iter().any(|x| x == "--faults");
    let no_faults = a.rest.iter().any(|x| x == "--no-faults");
    let mut rng = Rng::new(a.seed);
    let mut n: u64 = 0;
    let fmts = ["bytes", "zc", "eager"];
    let tys = ["u64", "u64", "u8", "u32", "i64", "a3"];
    while n < a.cases {
        let fmt = fmts[(n % 3) as usize].to_string();
        let ty = tys[rng.below(tys.len() as u64) as usize].to_string();
        let k = match rng.below(10) { 0 => 0, 1 => 1, 2 => 2, 9 => 10, _ => rng.below(7) } as u16;
        let big = !faults_only && n % 10 == 7;
        let cfg = Cfg { fmt, ty, k, big };
        let fam = faults_only || (!no_faults && n % 97 == 13);
        if fam {
            let mut cfg = cfg; if cfg.k == 0 { cfg.k = 3; } cfg.big = false;
            let budget = ((a.cases - n) as usize).min(700);
            dispatch!(cfg, run_family, &cfg, &mut rng, &mut n, a.seed, budget);
            continue;
        }
        let mut prof = match rng.below(20) { 0..=5 => Profile::C03, 6..=11 => Profile::C04, 12..=15 => Profile::C16, 16..=17 => Profile::Safe, _ => Profile::Wild };
        if cfg.big && prof == Profile::Wild { prof = Profile::C04; }
        let nops = 12 + rng.below(50) as usize;
        let id = format!("{}-{}", a.seed, n);
        n += 1;
        dispatch!(cfg, gen_and_emit, &id, &cfg, prof, &mut rng, nops);
    }
    0
}
