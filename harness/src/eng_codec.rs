//! Engine `codec` (C17): feeds valid, boundary and malformed inputs to the real decoders
//! and encoders and prints one observation line per input.
use crate::rng::{Rng, hex};
use std::panic::{AssertUnwindSafe, catch_unwind};
use vecdb::Bytes;

/// compact byte-string syntax shared with the OCaml driver:
/// segments separated by ',' : h<hex> | z<count> | r<byte>x<count>
pub fn spec_to_bytes(spec: &str) -> Vec<u8> {
    let mut out = vec![];
    if spec == "-" {
        return out;
    }
    for seg in spec.split(',') {
        let (k, rest) = seg.split_at(1);
        match k {
            "h" => out.extend(crate::rng::unhex(rest)),
            "z" => out.extend(std::iter::repeat(0u8).take(rest.parse().unwrap())),
            "r" => {
                let (b, c) = rest.split_once('x').unwrap();
                out.extend(std::iter::repeat(b.parse::<u8>().unwrap()).take(c.parse().unwrap()));
            }
            _ => panic!("bad spec"),
        }
    }
    out
}

fn seg_h(b: &[u8]) -> String {
    format!("h{}", hex(b)).replace("h-", "z0")
}

fn rawdb_err(e: &rawdb::Error) -> &'static str {
    use rawdb::Error::*;
    match e {
        InvalidMetadataSize { .. } => "InvalidMetadataSize",
        EmptyMetadata => "EmptyMetadata",
        CorruptedMetadata(_) => "CorruptedMetadata",
        InvalidRegionId => "InvalidRegionId",
        _ => "Other",
    }
}

pub fn vecdb_err(e: &vecdb::Error) -> &'static str {
    use vecdb::Error::*;
    match e {
        WrongLength { .. } => "WrongLength",
        InvalidFormat(_) => "InvalidFormat",
        Overflow => "Overflow",
        Underflow => "Underflow",
        _ => "Other",
    }
}

fn guard<F: FnOnce() -> String>(f: F) -> String {
    match catch_unwind(AssertUnwindSafe(f)) {
        Ok(s) => s,
        Err(_) => "panic".into(),
    }
}

fn meta_dec(bytes: &[u8]) -> String {
    guard(|| match rawdb::RegionMetadata::from_bytes(bytes) {
        Ok(m) => format!(
            "ok {} {} {} {}",
            m.start(),
            m.len(),
            m.reserved(),
            hex(m.id().as_bytes())
        ),
        Err(e) => format!("err {}", rawdb_err(&e)),
    })
}

fn meta_enc(start: usize, len: usize, reserved: usize, id: &[u8]) -> String {
    guard(|| {
        let id = String::from_utf8(id.to_vec()).expect("caller passes utf8");
        let m = rawdb::RegionMetadata::new(id, start, len, reserved);
        format!("ok {}", fnv_hex(&m.verif_to_bytes()))
    })
}

fn fnv_hex(b: &[u8]) -> String {
    format!("{}:{:016x}", b.len(), crate::rng::fnv(b))
}

fn hdr_dec(bytes: &[u8]) -> String {
    guard(|| match vecdb::verif_header_from_bytes(bytes) {
        Ok((hv, vv, cv, st, f)) => format!("ok {hv} {vv} {cv} {st} {f}"),
        Err(e) => format!("err {}", vecdb_err(&e)),
    })
}

fn fmt_of(code: u8) -> Option<vecdb::Format> {
    vecdb::Format::from_bytes(&[code]).ok()
}

fn page_dec(bytes: &[u8]) -> String {
    guard(|| match vecdb::verif_hooks::page_from_bytes(bytes) {
        Ok((s, b, v, raw, cnt, end)) => format!("ok {s} {b} {v} {} {cnt} {end}", raw as u8),
        Err(e) => format!("err {}", vecdb_err(&e)),
    })
}

fn num_dec(w: usize, bytes: &[u8]) -> String {
    fn one<T: Bytes, F: Fn(T) -> u128>(bytes: &[u8], f: F) -> String {
        match T::from_bytes(bytes) {
            Ok(v) => format!("ok {}", f(v)),
            Err(e) => format!("err {}", vecdb_err(&e)),
        }
    }
    guard(|| {
        // unsigned, signed and float of the same width must agree on the bit pattern
        let outs: Vec<String> = match w {
            1 => vec![one::<u8, _>(bytes, |v| v as u128), one::<i8, _>(bytes, |v| v as u8 as u128)],
            2 => vec![one::<u16, _>(bytes, |v| v as u128), one::<i16, _>(bytes, |v| v as u16 as u128)],
            4 => vec![
                one::<u32, _>(bytes, |v| v as u128),
                one::<i32, _>(bytes, |v| v as u32 as u128),
                one::<f32, _>(bytes, |v| v.to_bits() as u128),
            ],
            8 => vec![
                one::<u64, _>(bytes, |v| v as u128),
                one::<i64, _>(bytes, |v| v as u64 as u128),
                one::<f64, _>(bytes, |v| v.to_bits() as u128),
                one::<usize, _>(bytes, |v| v as u128),
                one::<isize, _>(bytes, |v| v as usize as u128),
            ],
            16 => vec![one::<u128, _>(bytes, |v| v), one::<i128, _>(bytes, |v| v as u128)],
            _ => vec!["err BadWidth".into()],
        };
        if outs.iter().all(|o| *o == outs[0]) {
            outs[0].clone()
        } else {
            format!("mixed {}", outs.join("|"))
        }
    })
}

fn num_enc(w: usize, v: u128) -> String {
    guard(|| {
        let b: Vec<u8> = match w {
            1 => (v as u8).to_bytes().to_vec(),
            2 => (v as u16).to_bytes().to_vec(),
            4 => {
                let a = (v as u32).to_bytes().to_vec();
                let b = f32::from_bits(v as u32).to_bytes().to_vec();
                let c = (v as u32 as i32).to_bytes().to_vec();
                assert!(a == b && a == c);
                a
            }
            8 => {
                let a = (v as u64).to_bytes().to_vec();
                let b = f64::from_bits(v as u64).to_bytes().to_vec();
                let c = (v as u64 as i64).to_bytes().to_vec();
                assert!(a == b && a == c);
                a
            }
            16 => v.to_bytes().to_vec(),
            _ => vec![],
        };
        format!("ok {}", hex(&b))
    })
}

fn arr_dec(n: usize, bytes: &[u8]) -> String {
    fn one<const N: usize>(bytes: &[u8]) -> String
    where
        [u8; N]: Bytes,
    {
        match <[u8; N]>::from_bytes(bytes) {
            Ok(a) => format!("ok {}", hex(a.to_bytes().as_ref())),
            Err(e) => format!("err {}", vecdb_err(&e)),
        }
    }
    guard(|| match n {
        1 => one::<1>(bytes),
        3 => one::<3>(bytes),
        16 => one::<16>(bytes),
        33 => one::<33>(bytes),
        65 => one::<65>(bytes),
        _ => "err BadWidth".into(),
    })
}

/// Open a database whose regions file is `file`; print the decoded live slots.
fn fill(file: &[u8]) -> String {
    guard(|| {
        let dir = tempfile::tempdir().unwrap();
        std::fs::write(dir.path().join("regions"), file).unwrap();
        match rawdb::Database::open(dir.path()) {
            Ok(db) => {
                let regions = db.regions();
                let mut parts = vec![];
                for (i, r) in regions.index_to_region().iter().enumerate() {
                    match r {
                        Some(r) => {
                            let m = r.meta();
                            parts.push(format!(
                                "{}:{}:{}:{}:{}",
                                i,
                                m.start(),
                                m.len(),
                                m.reserved(),
                                hex(m.id().as_bytes())
                            ));
                        }
                        None => parts.push(format!("{}:none", i)),
                    }
                }
                format!("ok {}", if parts.is_empty() { "-".into() } else { parts.join(" ") })
            }
            Err(e) => format!("err {}", rawdb_err(&e)),
        }
    })
}

struct Gen {
    rng: Rng,
}

const LIMITS: [u64; 22] = [
    0, 1, 2, 255, 256, 4095, 4096, 4097, 8191, 8192, 8193, 65535, 65536,
    (1 << 32) - 1, 1 << 32, (1 << 32) + 1, (1 << 40), 1 << 62, (1 << 63) - 1, 1 << 63, u64::MAX - 1, u64::MAX,
];

impl Gen {
    fn limit(&mut self) -> u64 {
        match self.rng.below(4) {
            0 => *self.rng.pick(&LIMITS),
            1 => self.rng.below(64) * 4096,
            2 => self.rng.next(),
            _ => self.rng.below(20000),
        }
    }
    fn aligned(&mut self) -> u64 {
        match self.rng.below(3) {
            0 => self.rng.below(1 << 20) * 4096,
            1 => self.rng.below(16) * 4096,
            _ => (self.rng.next() >> 12 >> self.rng.below(40)) * 4096,
        }
    }
    fn id(&mut self) -> Vec<u8> {
        let n = match self.rng.below(8) {
            0 => 0,
            1 => 1,
            2 => 1024,
            3 => 1025,
            4 => self.rng.range(1000, 1030) as usize,
            _ => self.rng.range(1, 40) as usize,
        };
        let kind = self.rng.below(10);
        let mut out = Vec::new();
        while out.len() < n {
            match kind {
                0..=5 => out.push(self.rng.range(0x21, 0x7e) as u8),
                6 => {
                    // multi-byte UTF-8 scalars
                    let c = loop {
                        let v = match self.rng.below(3) {
                            0 => self.rng.range(0x80, 0x7ff),
                            1 => self.rng.range(0x800, 0xffff),
                            _ => self.rng.range(0x10000, 0x10ffff),
                        } as u32;
                        if let Some(c) = char::from_u32(v) {
                            break c;
                        }
                    };
                    let mut buf = [0u8; 4];
                    out.extend(c.encode_utf8(&mut buf).as_bytes());
                }
                7 => out.push(self.rng.next() as u8), // mostly invalid utf-8
                8 => out.push(*self.rng.pick(&[0x00, 0x1f, 0x7f, 0x41, 0x20])), // control chars
                _ => out.extend(self.rng.pick(&[
                    &[0xc0u8, 0x80][..], &[0xed, 0xa0, 0x80], &[0xf4, 0x90, 0x80, 0x80], &[0xe0, 0x80, 0x80],
                    &[0xc2, 0x80], &[0xc2, 0x9f], &[0xc2, 0xa0], &[0xef, 0xbf, 0xbf], &[0xf0, 0x90, 0x80, 0x80],
                    &[0xf8, 0x88, 0x80, 0x80, 0x80], &[0x80], &[0xe2, 0x82],
                ]).iter()),
            }
        }
        if kind <= 5 || kind == 8 {
            out.truncate(n);
        }
        out
    }

    /// a metadata slot as compact spec; mostly-valid stream and malformed stream
    fn meta_slot(&mut self) -> String {
        let valid = self.rng.chance(6, 10);
        let (start, len, reserved, id) = if valid {
            let reserved = (self.rng.below(64) + 1) * 4096 << self.rng.below(20).min(28);
            let len = match self.rng.below(3) { 0 => reserved, 1 => 0, _ => self.rng.below(reserved + 1) };
            let mut id = self.id();
            if self.rng.chance(9, 10) && (id.is_empty() || id.len() > 1024) { id = b"region_x".to_vec(); }
            (self.aligned(), len, reserved, id)
        } else {
            (self.limit(), self.limit(), self.limit(), self.id())
        };
        let id_len = if self.rng.chance(1, 12) { self.limit() } else { id.len() as u64 };
        let mut head = vec![];
        head.extend(start.to_le_bytes());
        head.extend(len.to_le_bytes());
        head.extend(reserved.to_le_bytes());
        head.extend(id_len.to_le_bytes());
        head.extend(&id);
        if head.len() > 4096 { head.truncate(4096); }
        let total = match self.rng.below(20) { 0 => self.rng.below(5000) as usize, 1 => 4095, 2 => 4097, _ => 4096 };
        if self.rng.chance(1, 25) {
            // all-zero and near-zero slots
            return if self.rng.chance(1, 2) { "z4096".into() } else { format!("z{},h01,z{}", self.rng.below(4095), 0) };
        }
        if head.len() >= total {
            head.truncate(total);
            seg_h(&head)
        } else if self.rng.chance(1, 10) {
            let tail = self.rng.bytes((total - head.len()).min(64));
            let rest = total - head.len() - tail.len();
            format!("{},{},z{}", seg_h(&head), seg_h(&tail), rest)
        } else {
            format!("{},z{}", seg_h(&head), total - head.len())
        }
    }
}

pub fn run(args: &[String]) -> i32 {
    let mut seed = 1u64;
    let mut n = 2000u64;
    let mut replay: Option<String> = None;
    let mut i = 0;
    while i < args.len() {
        match args[i].as_str() {
            "--seed" => { seed = args[i + 1].parse().unwrap(); i += 1 }
            "--cases" => { n = args[i + 1].parse().unwrap(); i += 1 }
            "--replay" => { replay = Some(args[i + 1].clone()); i += 1 }
            _ => {}
        }
        i += 1;
    }
    // silence panic messages; panics are reported as observations
    std::panic::set_hook(Box::new(|_| {}));
    if let Some(path) = replay {
        let text = std::fs::read_to_string(path).unwrap();
        for line in text.lines() {
            let t: Vec<&str> = line.split_whitespace().collect();
            if t.len() >= 3 && t[0] == "I" {
                println!("R{}", &line[1..]);
                println!("{}", line);
                println!("O {} {}", t[1], exec(&t[2..]));
            }
        }
        return 0;
    }
    let mut g = Gen { rng: Rng::new(seed) };
    for id in 0..n {
        let input = gen_case(&mut g, id);
        crate::util::running(&id.to_string(), &input);
        println!("I {} {}", id, input);
        let toks: Vec<&str> = input.split_whitespace().collect();
        let obs = exec(&toks);
        println!("O {} {}", id, obs);
        if let Some(v) = oracle(&toks, &obs) {
            println!("V {} {}", id, v);
        }
    }
    0
}

/// Spec-level oracle (the property itself, no model involved): decoders never panic, a
/// decoded value satisfies the validity rules, re-encoding / re-decoding round-trips, and a
/// regions file's valid slots are found whatever the other slots contain.
fn oracle(t: &[&str], obs: &str) -> Option<String> {
    let o: Vec<&str> = obs.split_whitespace().collect();
    let dec = t[0].ends_with("_dec") || t[0] == "fill";
    if dec && obs == "panic" {
        return Some("decoder-panicked".into());
    }
    if obs.starts_with("mixed") {
        return Some("types-of-one-width-disagree".into());
    }
    match t[0] {
        "meta_dec" if o[0] == "ok" => {
            let (start, len, reserved): (u64, u64, u64) = (o[1].parse().unwrap(), o[2].parse().unwrap(), o[3].parse().unwrap());
            let id = crate::rng::unhex(o[4]);
            if start % 4096 != 0 || reserved < 4096 || reserved % 4096 != 0 || len > reserved || id.len() > 1024 {
                return Some("decoded-metadata-violates-validity-rules".into());
            }
            // a decoded value that the constructor accepts must re-encode to a slot that decodes to itself
            let s = String::from_utf8(id).ok()?;
            let r = catch_unwind(AssertUnwindSafe(|| rawdb::RegionMetadata::new(s, start as usize, len as usize, reserved as usize).verif_to_bytes()));
            if let Ok(bytes) = r {
                if meta_dec(&bytes) != obs {
                    return Some("metadata-roundtrip-differs".into());
                }
            }
            None
        }
        "meta_enc" if o[0] == "ok" => {
            let id = String::from_utf8(crate::rng::unhex(t[4])).unwrap();
            let bytes = rawdb::RegionMetadata::new(id, t[1].parse().unwrap(), t[2].parse().unwrap(), t[3].parse().unwrap()).verif_to_bytes();
            let want = format!("ok {} {} {} {}", t[1], t[2], t[3], t[4]);
            if bytes.len() != 4096 || meta_dec(&bytes) != want {
                return Some("metadata-roundtrip-differs".into());
            }
            None
        }
        "hdr_enc" if o[0] == "ok" => {
            let want = format!("ok {} {} {} {} {}", t[1], t[2], t[3], t[4], t[5]);
            if hdr_dec(&crate::rng::unhex(o[1])) != want { Some("header-roundtrip-differs".into()) } else { None }
        }
        "hdr_dec" if o[0] == "ok" => {
            if ![0u8, 1, 64, 65, 66].contains(&o[5].parse().unwrap()) { Some("decoded-header-has-invalid-format".into()) } else { None }
        }
        "page_enc" if o[0] == "ok" => {
            let d = page_dec(&crate::rng::unhex(o[1]));
            let d: Vec<&str> = d.split_whitespace().collect();
            if d.len() < 6 || d[1] != t[1] || d[2] != t[2] || d[5] != t[3] || d[4] != t[4] { Some("page-roundtrip-differs".into()) } else { None }
        }
        "num_enc" if o[0] == "ok" => {
            let w: usize = t[1].parse().unwrap();
            if num_dec(w, &crate::rng::unhex(o[1])) != format!("ok {}", t[2]) { Some("numeric-roundtrip-differs".into()) } else { None }
        }
        "num_dec" if o[0] == "ok" => {
            let w: usize = t[1].parse().unwrap();
            let input = spec_to_bytes(t[2]);
            if num_enc(w, o[1].parse().unwrap()) != format!("ok {}", hex(&input)) { Some("numeric-reencode-differs".into()) } else { None }
        }
        "arr_dec" if o[0] == "ok" => {
            if crate::rng::unhex(o[1]) != spec_to_bytes(t[2]) { Some("array-roundtrip-differs".into()) } else { None }
        }
        "fill" if o[0] == "ok" => {
            // every slot that decodes on its own must be listed, every other slot must be absent
            let file = spec_to_bytes(t[1]);
            for (i, chunk) in file.chunks(4096).enumerate() {
                let alone = meta_dec(chunk);
                let listed = o.iter().skip(1).find(|p| p.starts_with(&format!("{}:", i)));
                let a: Vec<&str> = alone.split_whitespace().collect();
                let want = if a[0] == "ok" { format!("{}:{}:{}:{}:{}", i, a[1], a[2], a[3], a[4]) } else { format!("{}:none", i) };
                if listed.map(|s| s.to_string()) != Some(want) {
                    return Some(format!("slot-{}-disturbed-by-other-slots", i));
                }
            }
            None
        }
        _ => None,
    }
}

fn gen_case(g: &mut Gen, id: u64) -> String {
    match id % 12 {
        0 | 1 | 2 => format!("meta_dec {}", g.meta_slot()),
        3 => {
            // encoder: arguments RegionMetadata::new accepts or rejects (panic = assert)
            let reserved = if g.rng.chance(8, 10) { (g.rng.below(1 << 16) + 1) * 4096 } else { g.limit() };
            let len = if g.rng.chance(8, 10) { g.rng.below(reserved.saturating_add(1).max(1)) } else { g.limit() };
            let start = if g.rng.chance(8, 10) { g.aligned() } else { g.limit() };
            let mut id = g.id();
            if std::str::from_utf8(&id).is_err() { id = "é✓x".as_bytes().to_vec(); }
            format!("meta_enc {} {} {} {}", start, len, reserved, hex(&id))
        }
        4 => {
            let mut b = vec![];
            let valid = g.rng.chance(7, 10);
            b.extend((if valid { g.rng.below(5) } else { g.limit() } as u32).to_le_bytes());
            b.extend((g.limit() as u32).to_le_bytes());
            b.extend((g.limit() as u32).to_le_bytes());
            b.extend(g.limit().to_le_bytes());
            b.push(if valid { *g.rng.pick(&[0u8, 1, 64, 65, 66]) } else { g.rng.next() as u8 });
            let pad = if g.rng.chance(8, 10) { vec![0u8; 11] } else { g.rng.bytes(g.rng.clone().below(24) as usize) };
            b.extend(pad);
            if g.rng.chance(1, 8) { let k = g.rng.below(b.len() as u64 + 1) as usize; b.truncate(k); }
            format!("hdr_dec {}", seg_h(&b))
        }
        5 => format!("hdr_enc {} {} {} {} {}", g.limit() as u32, g.limit() as u32, g.limit() as u32, g.limit(), g.rng.pick(&[0u8, 1, 64, 65, 66])),
        6 => {
            let mut b = vec![];
            b.extend(g.limit().to_le_bytes());
            b.extend((g.limit() as u32).to_le_bytes());
            let v = match g.rng.below(4) { 0 => 1u32 << 31, 1 => (1 << 31) | g.rng.below(5000) as u32, 2 => g.rng.below(5000) as u32, _ => g.limit() as u32 };
            b.extend(v.to_le_bytes());
            if g.rng.chance(1, 6) { b.extend(g.rng.bytes(3)); }
            if g.rng.chance(1, 6) { let k = g.rng.below(b.len() as u64 + 1) as usize; b.truncate(k); }
            format!("page_dec {}", seg_h(&b))
        }
        7 => format!("page_enc {} {} {} {}", g.limit(), g.limit() as u32, g.limit() as u32 & 0x7fff_ffff, g.rng.below(2)),
        8 => {
            let w = *g.rng.pick(&[1usize, 2, 4, 8, 16]);
            let n = if g.rng.chance(8, 10) { w } else { g.rng.below(20) as usize };
            let b = match g.rng.below(4) { 0 => vec![0xffu8; n], 1 => vec![0u8; n], _ => g.rng.bytes(n) };
            format!("num_dec {} {}", w, seg_h(&b))
        }
        9 => {
            let w = *g.rng.pick(&[1usize, 2, 4, 8, 16]);
            let v: u128 = match g.rng.below(4) {
                0 => u128::MAX, 1 => g.limit() as u128, 2 => ((g.rng.next() as u128) << 64) | g.rng.next() as u128,
                _ => *g.rng.pick(&[0x7ff8_0000_0000_0001u128, 0xfff0_0000_0000_0000, 0x8000_0000_0000_0000, 0x7fc0_0001, 0xffc0_0000, 1, 0x8000_0000]),
            };
            let v = if w == 16 { v } else { v & ((1u128 << (8 * w)) - 1) };
            format!("num_enc {} {}", w, v)
        }
        10 => {
            let n = *g.rng.pick(&[1usize, 3, 16, 33, 65]);
            let k = if g.rng.chance(8, 10) { n } else { g.rng.below(70) as usize };
            format!("arr_dec {} {}", n, seg_h(&g.rng.bytes(k)))
        }
        _ => {
            // regions file: slots with disjoint extents, some invalid
            let slots = g.rng.range(0, 6);
            let mut segs = vec![];
            let mut next_start = 0u64;
            for s in 0..slots {
                match g.rng.below(5) {
                    0 => segs.push("z4096".to_string()),
                    1 => { let b = g.rng.bytes(40); segs.push(format!("{},z{}", seg_h(&b), 4096 - 40)); }
                    2 => { // invalid: misaligned / len > reserved / bad utf8
                        let mut head = vec![];
                        let which = g.rng.below(3);
                        head.extend((if which == 0 { next_start + 1 } else { next_start }).to_le_bytes());
                        head.extend((if which == 1 { 8192u64 } else { 10 }).to_le_bytes());
                        head.extend(4096u64.to_le_bytes());
                        head.extend(2u64.to_le_bytes());
                        head.extend(if which == 2 { [0xffu8, 0xfe] } else { [b'q', b'0' + s as u8] });
                        segs.push(format!("{},z{}", seg_h(&head), 4096 - head.len()));
                    }
                    _ => {
                        let reserved = (g.rng.below(4) + 1) * 4096;
                        let gap = g.rng.below(3) * 4096;
                        let start = next_start + gap;
                        next_start = start + reserved;
                        let len = g.rng.below(reserved + 1);
                        let mut head = vec![];
                        head.extend(start.to_le_bytes());
                        head.extend(len.to_le_bytes());
                        head.extend(reserved.to_le_bytes());
                        let id = format!("r{}", s);
                        head.extend((id.len() as u64).to_le_bytes());
                        head.extend(id.as_bytes());
                        segs.push(format!("{},z{}", seg_h(&head), 4096 - head.len()));
                    }
                }
            }
            if g.rng.chance(1, 10) { segs.push(format!("z{}", g.rng.range(1, 4095))); }
            format!("fill {}", if segs.is_empty() { "-".to_string() } else { segs.join(",") })
        }
    }
}

fn exec(t: &[&str]) -> String {
    match t[0] {
        "meta_dec" => meta_dec(&spec_to_bytes(t[1])),
        "meta_enc" => meta_enc(t[1].parse().unwrap(), t[2].parse().unwrap(), t[3].parse().unwrap(), &crate::rng::unhex(t[4])),
        "hdr_dec" => hdr_dec(&spec_to_bytes(t[1])),
        "hdr_enc" => guard(|| {
            let f = fmt_of(t[5].parse().unwrap()).unwrap();
            format!("ok {}", hex(&vecdb::verif_header_to_bytes(t[1].parse().unwrap(), t[2].parse().unwrap(), t[3].parse().unwrap(), t[4].parse().unwrap(), f)))
        }),
        "page_dec" => page_dec(&spec_to_bytes(t[1])),
        "page_enc" => guard(|| format!("ok {}", hex(&vecdb::verif_hooks::page_to_bytes(t[1].parse().unwrap(), t[2].parse().unwrap(), t[3].parse().unwrap(), t[4] == "1")))),
        "num_dec" => num_dec(t[1].parse().unwrap(), &spec_to_bytes(t[2])),
        "num_enc" => num_enc(t[1].parse().unwrap(), t[2].parse().unwrap()),
        "arr_dec" => arr_dec(t[1].parse().unwrap(), &spec_to_bytes(t[2])),
        "fill" => fill(&spec_to_bytes(t[1])),
        _ => "err UnknownCase".into(),
    }
}
