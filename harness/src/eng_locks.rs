//! Engine `locks` (C11): lock-acquisition programs of the public operations, recorded through the
//! lock tap; deadlock search over pairs/triples of programs; replay of every hit on the real code.
//!
//!   harness locks --dump            canonical programs, one `P <name> <tokens…>` line per scenario
//!   harness locks --seed S --cases N   line protocol: `prog` cases (tie between the tap and the
//!                                   generated coq/Gen/LockSeqs.v), `combo` cases (model deadlock
//!                                   search, cross-checked by the extracted Coq semantics) and the
//!                                   replays of every deadlock class on real threads (`V` lines)
//!   harness locks --child <scenario>   one replay in its own process (threads that deadlock can
//!                                   only be got rid of by leaving the process)
//!
//! Recording is single-threaded: the sink sees `Lock{class, instance, write}` just BEFORE every
//! acquisition and probes which locks are held at that moment (`verif_lock_state` hooks; in a
//! single-threaded run "held by anyone" = held by the driving thread).  Releases are
//! reconstructed: a lock that is no longer held at the next acquisition was released in between.
//! Token syntax of a program: `+class.inst:r|w` acquire, `-class.inst` release, `J<d>` join.
//! Instances are canonical per program: 0 for the database-level locks, 1,2,… in order of first
//! appearance for regions (`meta` and `dirty_bounds` of one region share the id) and, per class,
//! for the vecdb locks.
use crate::util::{parse_args, quiet_panics};
use rawdb::verif_tap::{self, Event};
use rawdb::{Database, Region, PAGE_SIZE};
use std::collections::{BTreeMap, BTreeSet, HashMap, HashSet, VecDeque};
use std::sync::{Arc, Condvar, Mutex, OnceLock};
use std::thread::{self, ThreadId};
use std::time::{Duration, Instant};

use crate::eng_lockscen::{record_scenarios, regression_table, replay_scenario, replay_table};

// ------------------------------------------------------------------------------------------------
// programs
#[derive(Clone, Debug, PartialEq, Eq, Hash, PartialOrd, Ord)]
pub struct Lk {
    pub class: String,
    pub inst: usize,
}

#[derive(Clone, Debug, PartialEq, Eq, Hash)]
pub enum Ins {
    Acq(Lk, bool),
    Rel(Lk),
    Join(usize),
}

#[derive(Clone, Debug)]
pub struct Prog {
    pub name: String,
    pub ins: Vec<Ins>,
    pub notes: Vec<String>,
}

pub fn show_ins(i: &Ins) -> String {
    match i {
        Ins::Acq(l, w) => format!("+{}.{}:{}", l.class, l.inst, if *w { 'w' } else { 'r' }),
        Ins::Rel(l) => format!("-{}.{}", l.class, l.inst),
        Ins::Join(d) => format!("J{d}"),
    }
}

pub fn show_prog(p: &[Ins]) -> String {
    if p.is_empty() { "-".into() } else { p.iter().map(show_ins).collect::<Vec<_>>().join(" ") }
}

pub fn parse_prog(s: &str) -> Vec<Ins> {
    s.split_whitespace()
        .filter(|t| *t != "-")
        .map(|t| {
            if let Some(r) = t.strip_prefix('J') {
                return Ins::Join(r.parse().unwrap());
            }
            let (sign, rest) = t.split_at(1);
            let (cl, mode) = match rest.split_once(':') {
                Some((a, b)) => (a, Some(b)),
                None => (rest, None),
            };
            let (class, inst) = cl.rsplit_once('.').unwrap();
            let l = Lk { class: class.to_string(), inst: inst.parse().unwrap() };
            if sign == "+" { Ins::Acq(l, mode == Some("w")) } else { Ins::Rel(l) }
        })
        .collect()
}

// ------------------------------------------------------------------------------------------------
// the sink: off / recording (single thread, with probes) / replay (controller parks threads)
struct RawEv {
    class: &'static str,
    inst: usize,
    write: bool,
    held: Vec<(Lk, bool)>,
}

type RegionProbe = Box<dyn Fn() -> Option<(usize, [u8; 2])> + Send + Sync>;

#[derive(Default)]
struct Probes {
    db: Option<Database>,
    regions: Vec<RegionProbe>,
}

enum Mode {
    Off,
    Record { tid: ThreadId, evs: Vec<RawEv> },
    Replay(Arc<Ctrl>),
}

struct Global {
    mode: Mode,
    probes: Probes,
}

fn global() -> &'static Mutex<Global> {
    static G: OnceLock<Mutex<Global>> = OnceLock::new();
    G.get_or_init(|| Mutex::new(Global { mode: Mode::Off, probes: Probes::default() }))
}

fn probe(p: &Probes) -> Vec<(Lk, bool)> {
    let mut h = vec![];
    let mut push = |c: &str, i: usize, s: u8| {
        if s != 0 {
            h.push((Lk { class: c.to_string(), inst: i }, s == 2));
        }
    };
    if let Some(db) = &p.db {
        let s = db.verif_lock_state();
        for (i, c) in ["layout", "regions", "mmap", "file"].iter().enumerate() {
            push(c, 0, s[i]);
        }
        let b = db.verif_bg_lock_state();
        push("bg_tasks", 0, b[0]);
        push("bg_sync", 0, b[1]);
    }
    for r in &p.regions {
        if let Some((idx, [m, d])) = r() {
            push("meta", idx + 1, m);
            push("dirty_bounds", idx + 1, d);
        }
    }
    for (c, i, s) in vecdb::verif_locks::lock_states() {
        push(c, i, s);
    }
    h
}

fn install_sink() {
    static ONCE: OnceLock<()> = OnceLock::new();
    ONCE.get_or_init(|| {
        vecdb::verif_locks::enable(true);
        verif_tap::set_sink(Some(Box::new(|e: &Event| {
            let Event::Lock { class, instance, write } = e else { return };
            let me = thread::current().id();
            let mut g = global().lock().unwrap();
            let ctrl = match &mut g.mode {
                Mode::Off => return,
                Mode::Record { tid, .. } if *tid != me => return,
                Mode::Record { .. } => None,
                Mode::Replay(c) => Some(c.clone()),
            };
            match ctrl {
                None => {
                    let held = probe(&g.probes);
                    if let Mode::Record { evs, .. } = &mut g.mode {
                        evs.push(RawEv { class, inst: *instance, write: *write, held });
                    }
                }
                Some(c) => {
                    drop(g);
                    c.on_event(me, class, *write);
                }
            }
        })));
    });
}

fn set_probes(db: &Database) {
    let regions: Vec<RegionProbe> = db.regions().index_to_region().iter().flatten().map(|r| r.verif_lock_probe()).collect();
    let mut g = global().lock().unwrap();
    g.probes = Probes { db: Some(db.clone()), regions };
}

/// Runs `f` on this thread with the recorder on and returns its program (actual instances).
pub fn record<R>(db: &Database, f: impl FnOnce() -> R) -> (Vec<Ins>, Vec<String>, R) {
    install_sink();
    set_probes(db);
    global().lock().unwrap().mode = Mode::Record { tid: thread::current().id(), evs: vec![] };
    let r = f();
    let (evs, fin) = {
        let mut g = global().lock().unwrap();
        let evs = match std::mem::replace(&mut g.mode, Mode::Off) {
            Mode::Record { evs, .. } => evs,
            _ => vec![],
        };
        let fin = probe(&g.probes);
        g.probes = Probes::default();
        (evs, fin)
    };
    let (ins, notes) = reconstruct(&evs, &fin);
    (ins, notes, r)
}

/// Acq/Rel structure from the held-sets: a lock no longer held at the next acquisition was
/// released in between (most recent first); a balanced program ends with nothing held.
fn reconstruct(evs: &[RawEv], fin: &[(Lk, bool)]) -> (Vec<Ins>, Vec<String>) {
    let mut out = vec![];
    let mut notes = vec![];
    let mut cur: Vec<(Lk, bool)> = vec![];
    let mut sync = |cur: &mut Vec<(Lk, bool)>, out: &mut Vec<Ins>, notes: &mut Vec<String>, held: &[(Lk, bool)], at: &str| {
        // released since the last event
        let mut i = cur.len();
        while i > 0 {
            i -= 1;
            let l = cur[i].0.clone();
            let still = held.iter().any(|(h, _)| *h == l);
            let dup = cur.iter().filter(|(c, _)| *c == l).count();
            if !still || dup > 1 {
                // not held any more, or a recursive acquisition (assumed to be the temporary one)
                cur.remove(i);
                out.push(Ins::Rel(l));
            }
        }
        for (h, w) in held {
            match cur.iter().find(|(c, _)| c == h) {
                None => notes.push(format!("untapped-acquisition {}.{} held at {at}", h.class, h.inst)),
                Some((_, cw)) if cw != w => notes.push(format!("mode-mismatch {}.{} at {at}", h.class, h.inst)),
                _ => {}
            }
        }
    };
    for e in evs {
        let at = format!("{}.{}", e.class, e.inst);
        sync(&mut cur, &mut out, &mut notes, &e.held, &at);
        if e.class == "join" {
            out.push(Ins::Join(0));
            continue;
        }
        let l = Lk { class: e.class.to_string(), inst: e.inst };
        if cur.iter().any(|(c, _)| *c == l) {
            notes.push(format!("recursive-acquisition {at}"));
        }
        out.push(Ins::Acq(l.clone(), e.write));
        cur.push((l, e.write));
    }
    // the last acquisition itself is not visible in any later probe unless it is still held
    sync(&mut cur, &mut out, &mut notes, fin, "end");
    for (l, _) in cur.iter().rev() {
        notes.push(format!("held-at-end {}.{}", l.class, l.inst));
        out.push(Ins::Rel(l.clone()));
    }
    (out, notes)
}

const REGION_CLASSES: [&str; 2] = ["meta", "dirty_bounds"];
const DB_CLASSES: [&str; 7] = ["layout", "regions", "mmap", "file", "bg_tasks", "bg_sync", "join"];

pub fn canonical(ins: &[Ins]) -> Vec<Ins> {
    let mut reg: Vec<usize> = vec![];
    let mut per: HashMap<String, Vec<usize>> = HashMap::new();
    let mut map = |l: &Lk| -> Lk {
        if DB_CLASSES.contains(&l.class.as_str()) {
            return Lk { class: l.class.clone(), inst: 0 };
        }
        let tab = if REGION_CLASSES.contains(&l.class.as_str()) { &mut reg } else { per.entry(l.class.clone()).or_default() };
        let k = match tab.iter().position(|x| *x == l.inst) {
            Some(k) => k,
            None => {
                tab.push(l.inst);
                tab.len() - 1
            }
        };
        Lk { class: l.class.clone(), inst: k + 1 }
    };
    ins.iter()
        .map(|i| match i {
            Ins::Acq(l, w) => Ins::Acq(map(l), *w),
            Ins::Rel(l) => Ins::Rel(map(l)),
            Ins::Join(d) => Ins::Join(*d),
        })
        .collect()
}

// ------------------------------------------------------------------------------------------------
// the model (mirror of Conc/RwLock.v, FIFO semantics), in macro steps: a thread that gets a lock
// runs on, through its releases, to its next acquisition.  That is what a controller that parks
// threads at `Lock` events can enforce.  Every result is expanded into a schedule of the
// fine-grained Coq semantics and re-checked there (`check_deadlock`, OCaml side).
#[derive(Clone)]
struct MProg {
    /// the acquisition / join events, with the held list just before each and the number of
    /// release instructions that follow it
    evs: Vec<(Ins, Vec<(Lk, bool)>, usize)>,
}

fn mprog(ins: &[Ins]) -> MProg {
    let mut evs: Vec<(Ins, Vec<(Lk, bool)>, usize)> = vec![];
    let mut held: Vec<(Lk, bool)> = vec![];
    for i in ins {
        match i {
            Ins::Acq(l, w) => {
                evs.push((i.clone(), held.clone(), 0));
                held.push((l.clone(), *w));
            }
            Ins::Join(_) => evs.push((i.clone(), held.clone(), 0)),
            Ins::Rel(l) => {
                if let Some(p) = held.iter().rposition(|(h, _)| h == l) {
                    held.remove(p);
                }
                if let Some(last) = evs.last_mut() {
                    last.2 += 1;
                }
            }
        }
    }
    MProg { evs }
}

#[derive(Clone, PartialEq, Eq, Hash, Debug)]
struct MState {
    k: Vec<u8>,
    granted: Vec<bool>,
    order: Vec<u8>,
}

#[derive(Clone, Debug, PartialEq)]
pub struct Action {
    pub thread: usize,
    pub auto: bool,    // a granted thread gets its lock without a new grant
    pub advance: bool, // the thread gets the lock and runs on to its next event; false: it blocks
}

struct Model {
    progs: Vec<MProg>,
}

impl Model {
    fn new(progs: &[Vec<Ins>]) -> Self {
        Model { progs: progs.iter().map(|p| mprog(p)).collect() }
    }
    fn n(&self) -> usize {
        self.progs.len()
    }
    fn init(&self) -> MState {
        MState { k: vec![0; self.n()], granted: vec![false; self.n()], order: vec![] }
    }
    fn finished(&self, s: &MState, i: usize) -> bool {
        s.k[i] as usize >= self.progs[i].evs.len()
    }
    fn held<'a>(&'a self, s: &MState, j: usize) -> &'a [(Lk, bool)] {
        if self.finished(s, j) { &[] } else { &self.progs[j].evs[s.k[j] as usize].1 }
    }
    fn enabled(&self, s: &MState, i: usize) -> bool {
        if self.finished(s, i) {
            return false;
        }
        match &self.progs[i].evs[s.k[i] as usize].0 {
            Ins::Join(d) => {
                let t = i + 1 + d;
                t >= self.n() || self.finished(s, t)
            }
            Ins::Acq(l, w) => {
                let waiting_writer = |j: usize| -> bool {
                    j != i && s.granted[j] && !self.finished(s, j)
                        && matches!(&self.progs[j].evs[s.k[j] as usize].0, Ins::Acq(l2, true) if l2 == l)
                };
                if *w {
                    if (0..self.n()).any(|j| self.held(s, j).iter().any(|(h, _)| h == l)) {
                        return false;
                    }
                    if s.granted[i] {
                        // first registered writer on l
                        let first = s.order.iter().map(|x| *x as usize).find(|j| *j == i || waiting_writer(*j));
                        first == Some(i)
                    } else {
                        !(0..self.n()).any(waiting_writer)
                    }
                } else {
                    if (0..self.n()).any(|j| self.held(s, j).iter().any(|(h, hw)| h == l && *hw)) {
                        return false;
                    }
                    !(0..self.n()).any(waiting_writer)
                }
            }
            Ins::Rel(_) => true,
        }
    }
    fn advance(&self, s: &MState, i: usize) -> MState {
        let mut t = s.clone();
        t.k[i] += 1;
        t.granted[i] = false;
        t.order.retain(|x| *x as usize != i);
        t
    }
    fn succ(&self, s: &MState) -> Vec<(Action, MState)> {
        let mut out = vec![];
        for i in 0..self.n() {
            if s.granted[i] && self.enabled(s, i) {
                out.push((Action { thread: i, auto: true, advance: true }, self.advance(s, i)));
            }
        }
        if !out.is_empty() {
            return out; // a granted thread that can take its lock takes it before anything else happens
        }
        for i in 0..self.n() {
            if s.granted[i] || self.finished(s, i) {
                continue;
            }
            if self.enabled(s, i) {
                out.push((Action { thread: i, auto: false, advance: true }, self.advance(s, i)));
            } else {
                let mut t = s.clone();
                t.granted[i] = true;
                t.order.push(i as u8);
                out.push((Action { thread: i, auto: false, advance: false }, t));
            }
        }
        out
    }
    fn unfinished(&self, s: &MState) -> bool {
        (0..self.n()).any(|i| !self.finished(s, i))
    }
    /// all reachable deadlocks (distinct positions), each with a shortest plan
    fn search(&self, limit: usize) -> (Vec<(MState, Vec<Action>)>, usize, bool) {
        let mut seen: HashMap<MState, Option<(MState, Action)>> = HashMap::new();
        let mut q = VecDeque::new();
        let s0 = self.init();
        seen.insert(s0.clone(), None);
        q.push_back(s0);
        let mut dead: Vec<MState> = vec![];
        let mut complete = true;
        while let Some(s) = q.pop_front() {
            if seen.len() > limit {
                complete = false;
                break;
            }
            let su = self.succ(&s);
            if su.is_empty() {
                if self.unfinished(&s) && !dead.iter().any(|d| d.k == s.k) {
                    dead.push(s.clone());
                }
                continue;
            }
            for (a, t) in su {
                if !seen.contains_key(&t) {
                    seen.insert(t.clone(), Some((s.clone(), a)));
                    q.push_back(t);
                }
            }
        }
        let n = seen.len();
        let out = dead
            .into_iter()
            .map(|d| {
                let mut plan = vec![];
                let mut cur = d.clone();
                while let Some(Some((p, a))) = seen.get(&cur) {
                    plan.push(a.clone());
                    cur = p.clone();
                }
                plan.reverse();
                (d, plan)
            })
            .collect();
        (out, n, complete)
    }
    /// runs a plan; None if some action is not possible as stated
    fn run_plan(&self, plan: &[Action]) -> Option<MState> {
        let mut s = self.init();
        for a in plan {
            let su = self.succ(&s);
            let (_, t) = su.into_iter().find(|(b, _)| b == a)?;
            s = t;
        }
        Some(s)
    }
    /// schedule of the fine-grained semantics (one thread index per instruction step)
    fn fine_schedule(&self, plan: &[Action]) -> Vec<usize> {
        let mut s = self.init();
        let mut out = vec![];
        for a in plan {
            let i = a.thread;
            let (ins, _, rels) = &self.progs[i].evs[s.k[i] as usize];
            if a.advance {
                out.push(i);
                for _ in 0..*rels {
                    out.push(i);
                }
                s = self.advance(&s, i);
            } else {
                if matches!(ins, Ins::Acq(_, true)) {
                    out.push(i); // registration of the writer
                }
                s.granted[i] = true;
                s.order.push(i as u8);
            }
        }
        out
    }
    /// stable description of a deadlock: for each blocked thread, the held classes that somebody
    /// else waits for and the class it waits for
    fn cycle_key(&self, s: &MState) -> String {
        let mut awaited: Vec<(usize, Lk, bool)> = vec![];
        for i in 0..self.n() {
            if !self.finished(s, i) {
                if let Ins::Acq(l, w) = &self.progs[i].evs[s.k[i] as usize].0 {
                    awaited.push((i, l.clone(), *w));
                }
            }
        }
        let mut parts: Vec<String> = vec![];
        for i in 0..self.n() {
            if self.finished(s, i) {
                continue;
            }
            let w = match &self.progs[i].evs[s.k[i] as usize].0 {
                Ins::Acq(l, w) => format!("{}:{}", l.class, if *w { 'w' } else { 'r' }),
                Ins::Join(_) => "join".to_string(),
                _ => "?".into(),
            };
            let mut hs: Vec<String> = self
                .held(s, i)
                .iter()
                .filter(|(h, _)| awaited.iter().any(|(j, l, _)| *j != i && l == h))
                .map(|(h, hw)| format!("{}:{}", h.class, if *hw { 'w' } else { 'r' }))
                .collect();
            hs.sort();
            hs.dedup();
            parts.push(format!("{}>{}", hs.join("+"), w));
        }
        parts.sort();
        parts.join("|")
    }
}

/// does the union of the programs' lock-order edges (held -> acquired) contain a cycle?
fn has_cycle(progs: &[&Vec<Ins>]) -> bool {
    let mut edges: BTreeSet<(Lk, Lk)> = BTreeSet::new();
    for p in progs {
        let mut held: Vec<Lk> = vec![];
        for i in p.iter() {
            match i {
                Ins::Acq(l, _) => {
                    for h in &held {
                        edges.insert((h.clone(), l.clone()));
                    }
                    held.push(l.clone());
                }
                Ins::Rel(l) => {
                    if let Some(p) = held.iter().rposition(|h| h == l) {
                        held.remove(p);
                    }
                }
                Ins::Join(_) => {}
            }
        }
    }
    let nodes: BTreeSet<Lk> = edges.iter().flat_map(|(a, b)| [a.clone(), b.clone()]).collect();
    // DFS for a cycle (self-loops count: a recursive acquisition)
    let adj = |n: &Lk| -> Vec<Lk> { edges.iter().filter(|(a, _)| a == n).map(|(_, b)| b.clone()).collect() };
    let mut color: HashMap<Lk, u8> = HashMap::new();
    fn dfs(n: &Lk, adj: &dyn Fn(&Lk) -> Vec<Lk>, color: &mut HashMap<Lk, u8>) -> bool {
        color.insert(n.clone(), 1);
        for m in adj(n) {
            match color.get(&m).copied().unwrap_or(0) {
                1 => return true,
                0 => {
                    if dfs(&m, adj, color) {
                        return true;
                    }
                }
                _ => {}
            }
        }
        color.insert(n.clone(), 2);
        false
    }
    for n in &nodes {
        if color.get(n).copied().unwrap_or(0) == 0 && dfs(n, &adj, &mut color) {
            return true;
        }
    }
    false
}

// ------------------------------------------------------------------------------------------------
// replay controller: parks real threads at their `Lock` events and lets them go one at a time.
// Timing.  Whether a thread that was let into an acquisition is BLOCKED can only be told from
// the absence of its next report.  The waiting time adapts to the machine: a thread counts as
// blocked when it has been inside the acquisition, without any report from any participant,
// for max(150 ms, 10 x the median time a let-go thread needed to report again in this run) —
// times a scale factor that the parent raises when it retries a replay that diverged.
#[derive(Default, Clone)]
struct Slot {
    parked: bool,    // inside the sink, waiting for a permit
    in_acq: bool,    // released into the acquisition, has not reported anything since
    finished: bool,
    seen: usize,     // number of Lock events reported so far
    permits: usize,
    last: Option<(String, bool)>,
    trace: Vec<String>,
    granted_at: Option<Instant>,
}

struct CtrlState {
    tids: HashMap<ThreadId, usize>,
    slots: Vec<Slot>,
    gaps: Vec<Duration>,   // grant -> next report of the same thread
    last_report: Instant,  // last report (event or finish) of any participant
}

pub struct Ctrl {
    m: Mutex<CtrlState>,
    cv: Condvar,
    scale: u32,
}

impl Ctrl {
    fn new(n: usize, scale: u32) -> Arc<Self> {
        Arc::new(Ctrl {
            m: Mutex::new(CtrlState { tids: HashMap::new(), slots: vec![Slot::default(); n], gaps: vec![], last_report: Instant::now() }),
            cv: Condvar::new(),
            scale: scale.max(1),
        })
    }
    fn register(&self, i: usize) {
        self.m.lock().unwrap().tids.insert(thread::current().id(), i);
    }
    fn finish(&self, i: usize) {
        let mut g = self.m.lock().unwrap();
        if let Some(t) = g.slots[i].granted_at.take() {
            g.gaps.push(t.elapsed());
        }
        g.slots[i].finished = true;
        g.slots[i].in_acq = false;
        g.last_report = Instant::now();
        self.cv.notify_all();
    }
    fn on_event(&self, me: ThreadId, class: &str, write: bool) {
        let mut g = self.m.lock().unwrap();
        let Some(&i) = g.tids.get(&me) else { return };
        if let Some(t) = g.slots[i].granted_at.take() {
            g.gaps.push(t.elapsed());
        }
        g.last_report = Instant::now();
        {
            let s = &mut g.slots[i];
            s.parked = true;
            s.in_acq = false;
            s.seen += 1;
            s.last = Some((class.to_string(), write));
            s.trace.push(format!("{class}:{}", if write { 'w' } else { 'r' }));
        }
        self.cv.notify_all();
        while g.slots[i].permits == 0 {
            g = self.cv.wait(g).unwrap();
        }
        let s = &mut g.slots[i];
        s.permits -= 1;
        s.parked = false;
        s.in_acq = true;
        if s.granted_at.is_none() {
            s.granted_at = Some(Instant::now());
        }
        self.cv.notify_all();
    }
    fn grant(&self, i: usize, permits: usize) {
        let mut g = self.m.lock().unwrap();
        g.slots[i].permits += permits;
        g.slots[i].granted_at = Some(Instant::now());
        self.cv.notify_all();
    }
    fn snapshot(&self) -> Vec<Slot> {
        self.m.lock().unwrap().slots.clone()
    }
    /// max(150 ms, 10 x median report gap) x scale
    fn quiet_time(&self) -> Duration {
        let g = self.m.lock().unwrap();
        let mut v = g.gaps.clone();
        v.sort();
        let med = if v.is_empty() { Duration::ZERO } else { v[v.len() / 2] };
        (med * 10).max(Duration::from_millis(150)) * self.scale
    }
    fn since_last_report(&self) -> Duration {
        self.m.lock().unwrap().last_report.elapsed()
    }
    /// waits until `pred` holds for the slots, or `timeout`
    fn wait_for(&self, timeout: Duration, pred: impl Fn(&[Slot]) -> bool) -> bool {
        let t0 = Instant::now();
        loop {
            if pred(&self.snapshot()) {
                return true;
            }
            if t0.elapsed() > timeout {
                return false;
            }
            thread::sleep(Duration::from_millis(2));
        }
    }
    /// thread `i` was let into an acquisition: Some(true) = it is blocked there (nothing reported
    /// by anybody for the adaptive quiet time), Some(false) = it reported again
    fn wait_blocked(&self, i: usize, seen_before: usize) -> bool {
        let t0 = Instant::now();
        loop {
            let sl = self.snapshot();
            if sl[i].finished || sl[i].seen != seen_before {
                return false;
            }
            let q = self.quiet_time();
            if sl[i].in_acq && t0.elapsed() >= q && self.since_last_report() >= q {
                return true;
            }
            thread::sleep(Duration::from_millis(5));
        }
    }
    /// nobody reports anything for max(2 s, quiet time): Some(snapshot) of the stuck state
    fn wait_stuck(&self, min: Duration) -> Option<Vec<Slot>> {
        let before = self.snapshot();
        let t0 = Instant::now();
        loop {
            thread::sleep(Duration::from_millis(20));
            let now = self.snapshot();
            if (0..now.len()).any(|i| now[i].seen != before[i].seen || now[i].finished != before[i].finished) {
                return None;
            }
            if t0.elapsed() >= min.max(self.quiet_time()) {
                return Some(now);
            }
        }
    }
}

pub struct Scenario {
    pub key: &'static str,
    /// names of the programs of P the threads are expected to follow
    pub progs: Vec<&'static str>,
    pub threads: Vec<Box<dyn FnOnce() + Send>>,
    /// kept alive until the process exits
    pub keep: Box<dyn std::any::Any + Send>,
    /// regression of a repaired deadlock: the acquisition (class, write) each thread is moved to
    /// — the positions of the former deadlock — and the order in which the threads are then let
    /// go for good; all of them must run to completion
    pub regress: Option<(Vec<(&'static str, bool)>, Vec<usize>)>,
}

/// a plan that moves the threads, one after the other in index order, to the positions of the
/// deadlock `target` and then lets them into their blocked acquisitions in a suitable order
fn sequential_plan(model: &Model, target: &MState) -> Option<Vec<Action>> {
    let n = model.n();
    let mut plan = vec![];
    let mut s = model.init();
    for i in 0..n {
        while s.k[i] < target.k[i] {
            if !model.enabled(&s, i) {
                return None;
            }
            plan.push(Action { thread: i, auto: false, advance: true });
            s = model.advance(&s, i);
        }
    }
    let blocked: Vec<usize> = (0..n).filter(|i| !model.finished(&s, *i)).collect();
    let mut perms: Vec<Vec<usize>> = vec![vec![]];
    for _ in 0..blocked.len() {
        perms = perms
            .into_iter()
            .flat_map(|p| blocked.iter().filter(|b| !p.contains(b)).map(|b| { let mut q = p.clone(); q.push(*b); q }).collect::<Vec<_>>())
            .collect();
    }
    'perm: for p in perms {
        let mut t = s.clone();
        let mut tail = vec![];
        for &i in &p {
            if model.enabled(&t, i) {
                continue 'perm;
            }
            t.granted[i] = true;
            t.order.push(i as u8);
            tail.push(Action { thread: i, auto: false, advance: false });
        }
        if model.succ(&t).is_empty() && model.unfinished(&t) {
            let mut full = plan.clone();
            full.extend(tail);
            if model.run_plan(&full).is_some() {
                return Some(full);
            }
        }
    }
    None
}

const LONG: Duration = Duration::from_secs(90);

fn spawn_threads(ctrl: &Arc<Ctrl>, threads: Vec<Box<dyn FnOnce() + Send>>) -> bool {
    global().lock().unwrap().mode = Mode::Replay(ctrl.clone());
    for (i, f) in threads.into_iter().enumerate() {
        let c = ctrl.clone();
        thread::spawn(move || {
            c.register(i);
            f();
            c.finish(i);
        });
    }
    // every thread parks at its first Lock event
    ctrl.wait_for(LONG, |s| s.iter().all(|x| x.parked || x.finished))
}

fn show_pos(progs: &[&'static str], sl: &[Slot]) -> String {
    (0..sl.len())
        .map(|i| format!("t{i}={}@{}", progs[i], if sl[i].finished { "done".to_string() } else { sl[i].last.as_ref().map(|(c, w)| format!("{c}:{}", if *w { 'w' } else { 'r' })).unwrap_or("-".into()) }))
        .collect::<Vec<_>>()
        .join(" ")
}

/// Executes one scenario on real threads.  Prints `R <outcome> …` lines; never returns normally
/// when threads are deadlocked (the caller leaves the process).
fn child(name: &str, table: &BTreeMap<String, Vec<Ins>>, scale: u32) -> i32 {
    install_sink();
    let Some(sc) = replay_scenario(name) else {
        println!("R error unknown-scenario {name}");
        return 2;
    };
    if sc.regress.is_some() {
        return child_regress(name, sc, scale);
    }
    let progs: Vec<Vec<Ins>> = match sc.progs.iter().map(|p| table.get(*p).cloned()).collect::<Option<Vec<_>>>() {
        Some(p) => p,
        None => {
            println!("R error scenario {name} names a program that was not recorded: {:?}", sc.progs);
            return 2;
        }
    };
    // the gate locks of the model (`vecmut`) have no counterpart the tap could report
    let progs: Vec<Vec<Ins>> = progs.into_iter().map(|p| p.into_iter().filter(|i| !matches!(i, Ins::Acq(l, _) | Ins::Rel(l) if l.class == "vecmut")).collect()).collect();
    let model = Model::new(&progs);
    let (dead, _, _) = model.search(2_000_000);
    // the deadlock this scenario is about (a scenario may reach several)
    let wanted = replay_table().into_iter().find(|(_, s)| *s == name).map(|(k, _)| k.to_string());
    let dead: Vec<_> = dead.into_iter().filter(|(d, _)| wanted.as_ref().is_none_or(|k| *k == model.cycle_key(d))).collect();
    if dead.is_empty() {
        println!("R no-model-deadlock {name}");
        return 0;
    }
    // preferably move the threads to their positions one after the other (robust against data
    // dependences between the operations); otherwise the shortest plan of the search
    let (target, plan) = dead
        .iter()
        .find_map(|(d, _)| sequential_plan(&model, d).map(|p| (d.clone(), p)))
        .unwrap_or_else(|| dead[0].clone());
    let key = model.cycle_key(&target);
    let n = model.n();
    let ctrl = Ctrl::new(n, scale);
    if !spawn_threads(&ctrl, sc.threads) {
        println!("R diverged {name} threads did not reach their first acquisition");
        return 0;
    }
    let expect_ev = |i: usize, k: usize| -> Option<(String, bool)> {
        match model.progs[i].evs.get(k).map(|e| &e.0) {
            Some(Ins::Acq(l, w)) => Some((l.class.clone(), *w)),
            Some(Ins::Join(_)) => Some(("join".into(), false)),
            _ => None,
        }
    };
    let mut s = model.init();
    for (step, a) in plan.iter().enumerate() {
        let i = a.thread;
        // the thread must be parked at the event the model says it is at
        let snap = ctrl.snapshot();
        let want = expect_ev(i, s.k[i] as usize);
        let seen_before = snap[i].seen;
        if !a.auto {
            if !snap[i].parked || snap[i].last != want {
                println!("R diverged {name} step {step}: thread {i} at {:?} (parked={}), model expects {:?}; trace {:?}", snap[i].last, snap[i].parked, want, snap[i].trace);
                return 0;
            }
            ctrl.grant(i, 1);
        } // else: the thread is inside the acquisition already and gets the lock now
        let t = model.run_plan(&plan[..=step]).unwrap();
        let exp_seen = t.k[i] as usize + 1; // parked at its next event …
        let fin = model.finished(&t, i);
        let ok = if a.advance {
            ctrl.wait_for(LONG, |sl| if fin { sl[i].finished } else { sl[i].parked && sl[i].seen == exp_seen })
        } else {
            // … or blocked inside the acquisition
            ctrl.wait_blocked(i, seen_before)
        };
        if !ok {
            let sl = ctrl.snapshot();
            println!("R diverged {name} step {step}: thread {i} expected to {} but parked={} in_acq={} finished={} seen={} trace {:?}",
                if a.advance { "advance" } else { "block" }, sl[i].parked, sl[i].in_acq, sl[i].finished, sl[i].seen, sl[i].trace);
            return 0;
        }
        s = t;
    }
    // all participants are inside lock acquisitions: no report from anybody for 2 s (or the
    // adaptive quiet time, whichever is longer) = deadlock
    let plan_s: Vec<String> = plan.iter().map(|a| format!("{}{}", a.thread, if a.advance { "" } else { "!" })).collect();
    match ctrl.wait_stuck(Duration::from_millis(2000)) {
        Some(after) if (0..n).all(|i| model.finished(&s, i) || (after[i].in_acq && !after[i].finished)) => {
            println!("R deadlocked {} cycle={} {} plan={} quiet={}ms", sc.key, key, show_pos(&sc.progs, &after), plan_s.join(","), ctrl.quiet_time().as_millis());
        }
        _ => {
            let ok = ctrl.wait_for(LONG, |sl| sl.iter().all(|x| x.finished));
            println!("R completed {name} all-finished={ok} {} plan={}", show_pos(&sc.progs, &ctrl.snapshot()), plan_s.join(","));
        }
    }
    let _keep = sc.keep;
    0
}

/// Regression of a repaired deadlock: move every thread to its position in the former deadlock,
/// let them go in the order that used to close the cycle, and require that all of them finish.
fn child_regress(name: &str, sc: Scenario, scale: u32) -> i32 {
    let (targets, release) = sc.regress.clone().unwrap();
    let n = sc.threads.len();
    let ctrl = Ctrl::new(n, scale);
    if !spawn_threads(&ctrl, sc.threads) {
        println!("R diverged {name} threads did not reach their first acquisition");
        return 0;
    }
    let mut notes = vec![];
    for i in 0..n {
        let want = Some((targets[i].0.to_string(), targets[i].1));
        loop {
            let sl = ctrl.snapshot();
            if sl[i].finished {
                notes.push(format!("t{i}-finished-before-position"));
                break;
            }
            if sl[i].parked && sl[i].last == want {
                break;
            }
            let seen = sl[i].seen;
            ctrl.grant(i, 1);
            if ctrl.wait_blocked(i, seen) {
                notes.push(format!("t{i}-blocked-before-position"));
                break;
            }
        }
    }
    let at = show_pos(&sc.progs, &ctrl.snapshot());
    for &i in &release {
        let seen = ctrl.snapshot()[i].seen;
        ctrl.grant(i, 1_000_000);
        let _ = ctrl.wait_blocked(i, seen); // gives a blocked thread time to queue before the next one goes
    }
    for i in 0..n {
        ctrl.grant(i, 1_000_000);
    }
    let t0 = Instant::now();
    loop {
        let sl = ctrl.snapshot();
        if sl.iter().all(|x| x.finished) {
            println!("R not-realisable {} positions {at} reached, all threads ran to completion {}", sc.key, notes.join(","));
            break;
        }
        if let Some(after) = ctrl.wait_stuck(Duration::from_millis(2000)) {
            if after.iter().all(|x| x.finished) {
                continue;
            }
            if after.iter().all(|x| x.finished || x.in_acq) {
                println!("R deadlocked {} cycle=regression {} from positions {at}", sc.key, show_pos(&sc.progs, &after));
                break;
            }
        }
        if t0.elapsed() > LONG {
            println!("R error {name} regression run neither finished nor got stuck");
            break;
        }
    }
    let _keep = sc.keep;
    0
}

// ------------------------------------------------------------------------------------------------
fn record_all() -> Vec<Prog> {
    install_sink();
    let mut out: Vec<Prog> = vec![];
    record_scenarios(&mut out);
    for p in &mut out {
        p.ins = canonical(&p.ins);
    }
    out
}

fn run_child_once(name: &str, progs: &[Prog], scale: u32) -> String {
    let exe = std::env::current_exe().unwrap();
    let handed: String = progs.iter().map(|p| format!("{}={}", p.name, show_prog(&p.ins))).collect::<Vec<_>>().join(";");
    let mut ch = std::process::Command::new(exe)
        .args(["locks", "--child", name, "--scale", &scale.to_string()])
        .env("ANYDB_LOCKS_PROGS", handed)
        .stdout(std::process::Stdio::piped())
        .stderr(std::process::Stdio::null())
        .spawn()
        .unwrap();
    let t0 = Instant::now();
    loop {
        match ch.try_wait() {
            Ok(Some(_)) => break,
            Ok(None) if t0.elapsed() > Duration::from_secs(300) => {
                let _ = ch.kill();
                let _ = ch.wait();
                return "R error timeout".into();
            }
            _ => thread::sleep(Duration::from_millis(20)),
        }
    }
    let mut s = String::new();
    use std::io::Read;
    let _ = ch.stdout.take().unwrap().read_to_string(&mut s);
    s.lines().find(|l| l.starts_with("R ")).unwrap_or("R error no-result").to_string()
}

/// a replay that diverged or failed for a technical reason is repeated with longer waiting times
/// before it is reported
fn run_child(name: &str, progs: &[Prog]) -> String {
    let mut last = String::new();
    for scale in [1u32, 4, 16] {
        last = run_child_once(name, progs, scale);
        let outcome = last.split_whitespace().nth(1).unwrap_or("error");
        if !matches!(outcome, "diverged" | "error" | "completed") {
            break;
        }
    }
    last
}

pub fn run(args: &[String]) -> i32 {
    quiet_panics();
    let a = parse_args(args);
    if a.rest.iter().any(|x| x == "--child") {
        let name = a.rest.iter().skip_while(|x| *x != "--child").nth(1).cloned().unwrap_or_default();
        let scale: u32 = a.rest.iter().skip_while(|x| *x != "--scale").nth(1).and_then(|x| x.parse().ok()).unwrap_or(1);
        let table: BTreeMap<String, Vec<Ins>> = match std::env::var("ANYDB_LOCKS_PROGS") {
            Ok(s) if !s.is_empty() => s.split(';').filter_map(|e| e.split_once('=')).map(|(n, p)| (n.to_string(), parse_prog(p))).collect(),
            _ => record_all().iter().map(|p| (p.name.clone(), p.ins.clone())).collect(),
        };
        let rc = child(&name, &table, scale);
        use std::io::Write;
        let _ = std::io::stdout().flush();
        // threads may be deadlocked for good: leave without joining or unwinding anything
        unsafe { libc::_exit(rc) }
    }
    let progs = record_all();
    if a.rest.iter().any(|x| x == "--dump") {
        for p in &progs {
            println!("P {} {}", p.name, show_prog(&p.ins));
            for n in &p.notes {
                println!("N {} {}", p.name, n);
            }
        }
        return 0;
    }
    let quick = a.cases < 1000;
    let mut id = 0usize;
    // 1. the tie: every program the tap produces now must be the one in coq/Gen/LockSeqs.v
    for p in &progs {
        println!("I p{id} prog {} {}", p.name, show_prog(&p.ins));
        println!("O p{id} ok");
        for n in &p.notes {
            println!("M p{id} note:{}", n.split_whitespace().next().unwrap_or(""));
            if n.starts_with("untapped-acquisition") || n.starts_with("mode-mismatch") {
                println!("V p{id} tap-{}-{} {}", n.split_whitespace().next().unwrap(), p.name, n);
            }
        }
        id += 1;
    }
    // 2. deadlock search over pairs and triples of distinct programs (multisets).  Instances are
    // canonical per program, so for every combination each way of sharing objects between the
    // threads is explored: threads in the same group work on the same regions / vectors
    // (instance k = instance k), threads in different groups on disjoint ones.
    let mut distinct: Vec<(Vec<Ins>, Vec<String>)> = vec![];
    for p in &progs {
        if p.ins.is_empty() {
            continue;
        }
        match distinct.iter_mut().find(|(i, _)| *i == p.ins) {
            Some((_, names)) => names.push(p.name.clone()),
            None => distinct.push((p.ins.clone(), vec![p.name.clone()])),
        }
    }
    let nd = distinct.len();
    let shift = |ins: &Vec<Ins>, g: usize| -> Vec<Ins> {
        let f = |l: &Lk| if l.inst == 0 || g == 0 { l.clone() } else { Lk { class: l.class.clone(), inst: l.inst + 1000 * g } };
        ins.iter().map(|i| match i { Ins::Acq(l, w) => Ins::Acq(f(l), *w), Ins::Rel(l) => Ins::Rel(f(l)), Ins::Join(d) => Ins::Join(*d) }).collect()
    };
    let has_inst: Vec<bool> = distinct.iter().map(|(p, _)| p.iter().any(|i| matches!(i, Ins::Acq(l, _) if l.inst != 0))).collect();
    let mut classes: BTreeMap<String, (Vec<usize>, Vec<usize>)> = BTreeMap::new(); // cycle key -> (combo, schedule)
    let mut n_combos = 0usize;
    let mut n_states = 0usize;
    let mut deadly_pairs: HashSet<(usize, usize)> = HashSet::new();
    let mut emit = |combo: &[usize], ps: &[Vec<Ins>], groups: &[usize], id: &mut usize, classes: &mut BTreeMap<String, (Vec<usize>, Vec<usize>)>, n_states: &mut usize| -> bool {
        let model = Model::new(ps);
        let (dead, n, complete) = model.search(400_000);
        *n_states += n;
        let names: Vec<String> = combo.iter().zip(groups).map(|(c, g)| format!("{}#{}", distinct[*c].1[0], g)).collect();
        if dead.is_empty() {
            if !complete {
                println!("I c{id} combo {} | {} | sched -", names.join(" "), ps.iter().map(|p| show_prog(p)).collect::<Vec<_>>().join(" | "));
                println!("O c{id} dl ?");
                println!("M c{id} search:incomplete");
                *id += 1;
            }
            return false;
        }
        for (d, plan) in &dead {
            let key = model.cycle_key(d);
            let sched = model.fine_schedule(plan);
            if !classes.contains_key(&key) {
                classes.insert(key.clone(), (combo.to_vec(), sched.clone()));
                println!("I c{id} combo {} | {} | sched {}", names.join(" "), ps.iter().map(|p| show_prog(p)).collect::<Vec<_>>().join(" | "), sched.iter().map(|x| x.to_string()).collect::<Vec<_>>().join(","));
                println!("O c{id} dl 1");
                println!("M c{id} cycle:{key}");
                *id += 1;
            }
        }
        true
    };
    for i in 0..nd {
        for j in i..nd {
            for groups in [[0usize, 0], [0, 1]] {
                if groups[1] == 1 && !(has_inst[i] && has_inst[j]) {
                    continue; // nothing to separate
                }
                n_combos += 1;
                let ps = vec![shift(&distinct[i].0, groups[0]), shift(&distinct[j].0, groups[1])];
                if !has_cycle(&[&ps[0], &ps[1]]) {
                    continue;
                }
                if emit(&[i, j], &ps, &groups, &mut id, &mut classes, &mut n_states) {
                    deadly_pairs.insert((i, j));
                }
            }
        }
    }
    let writers: Vec<usize> = (0..nd).filter(|k| distinct[*k].0.iter().any(|x| matches!(x, Ins::Acq(_, true)))).collect();
    for i in 0..nd {
        for j in i..nd {
            if deadly_pairs.contains(&(i, j)) {
                continue;
            }
            for k in 0..nd {
                if [(i, k), (k, i), (j, k), (k, j)].iter().any(|p| deadly_pairs.contains(p)) {
                    continue;
                }
                for groups in [[0usize, 0, 0], [0, 0, 1], [0, 1, 0], [0, 1, 1], [0, 1, 2]] {
                    // skip groupings that separate nothing
                    let sep = |a: usize, b: usize, x: usize, y: usize| groups[a] != groups[b] && !(has_inst[x] && has_inst[y]);
                    if sep(0, 1, i, j) || sep(0, 2, i, k) || sep(1, 2, j, k) {
                        continue;
                    }
                    let ps = vec![shift(&distinct[i].0, groups[0]), shift(&distinct[j].0, groups[1]), shift(&distinct[k].0, groups[2])];
                    let pair_cyclic = has_cycle(&[&ps[0], &ps[1]]);
                    if !pair_cyclic && k < j {
                        continue; // non-cyclic pairs: each multiset once
                    }
                    n_combos += 1;
                    if pair_cyclic {
                        // a cyclic pair that does not deadlock by itself can be closed by a third
                        // thread that queues as a writer
                        if !writers.contains(&k) {
                            continue;
                        }
                    } else if !has_cycle(&[&ps[0], &ps[1], &ps[2]]) || has_cycle(&[&ps[0], &ps[2]]) || has_cycle(&[&ps[1], &ps[2]]) {
                        continue; // genuine three-cycles only; the cyclic pairs come with their own (i, j)
                    }
                    emit(&[i, j, k], &ps, &groups, &mut id, &mut classes, &mut n_states);
                }
            }
        }
    }
    println!("# {} scenarios, {} distinct programs, {} combos considered, {} model states, {} deadlock classes", progs.len(), nd, n_combos, n_states, classes.len());
    // a sample of combos without a model deadlock, for the Coq-side cross-check (bounded BFS there)
    let sample = if quick { 6 } else { 40 };
    let mut taken = 0;
    'outer: for i in 0..nd {
        for j in (i..nd).rev() {
            if taken >= sample {
                break 'outer;
            }
            if deadly_pairs.contains(&(i, j)) || distinct[i].0.len() + distinct[j].0.len() > 16 {
                continue;
            }
            println!("I c{id} combo {} {} | {} | {} | sched -", distinct[i].1[0], distinct[j].1[0], show_prog(&distinct[i].0), show_prog(&distinct[j].0));
            println!("O c{id} dl 0");
            id += 1;
            taken += 1;
        }
    }
    // 3. replay every deadlock class on the real code
    let scen = replay_table();
    for (key, (combo, _)) in &classes {
        let names: Vec<String> = combo.iter().map(|c| distinct[*c].1[0].clone()).collect();
        println!("I r{id} replay {key}");
        match scen.iter().find(|(k, _)| *k == key.as_str()) {
            None => {
                println!("O r{id} no-scenario");
                println!("V r{id} deadlock-model-unreplayed:{} cycle {key} first seen with {}", short_key(key), names.join(" + "));
            }
            Some((_, sname)) => {
                let r = run_child(sname, &progs);
                let outcome = r.split_whitespace().nth(1).unwrap_or("error").to_string();
                println!("O r{id} {outcome}");
                println!("M r{id} replay:{outcome}");
                match outcome.as_str() {
                    "deadlocked" => {
                        let rest: Vec<&str> = r.split_whitespace().skip(2).collect();
                        println!("V r{id} {} real threads blocked for 2 s: {}", rest[0], rest[1..].join(" "));
                    }
                    "completed" => {}
                    _ => println!("V r{id} deadlock-replay-failed:{} {r}", short_key(key)),
                }
            }
        }
        id += 1;
    }
    // 4. regressions: repaired deadlocks must not come back
    for (key, sname) in regression_table() {
        if scen.iter().any(|(k, s)| *s == sname && classes.contains_key(*k)) {
            continue; // the cycle is back in the model: replayed above
        }
        println!("I g{id} regress {sname}");
        let r = run_child(sname, &progs);
        let outcome = r.split_whitespace().nth(1).unwrap_or("error").to_string();
        println!("O g{id} {outcome}");
        println!("M g{id} regress:{outcome}");
        match outcome.as_str() {
            "not-realisable" => {}
            "deadlocked" => println!("V g{id} {key} regression: real threads blocked again: {}", r.split_whitespace().skip(3).collect::<Vec<_>>().join(" ")),
            _ => println!("V g{id} deadlock-regression-run-failed:{sname} {r}"),
        }
        id += 1;
    }
    0
}

fn short_key(k: &str) -> String {
    k.replace(['>', '|', '+', ':'], "-")
}
