//! Engine `compvec` (C07, compressed half of C03): random, state-aware operation histories on the
//! real PcoVec / LZ4Vec / ZstdVec and EagerVec wrappers of them.
//!
//! Line protocol (see AGENT_GUIDE.md):
//!   I <id> <fmt> <ty> v=<version> <op>...     (ops: p:<vspec> t:<n> w:<hints> f:<hints> s:<stamp>:<hints> r i o)
//!   O <id> <k> <res> rg=.. len=.. st=.. c=<count:fnv> sl=.. pl=.. rl=.. dl=.. hd=<hex> pg=<hex>   one per step
//!   V <id> <key> <text>      spec-level oracles evaluated here, without any model:
//!                            (a) a plain reference vector stepped alongside;
//!                            (b) the page-index well-formedness predicate of C07 on the on-disk index
//!   M <id> <tag>             distribution tags (write regimes, truncate kinds, …)
//! The `hints` of a write are the `bytes` fields of every page entry found on disk after it; they
//! are the only thing the model cannot know (the real compressor's output lengths).
use crate::rng::{Rng, hex};
use crate::util::{parse_args, replay_inputs};
use rawdb::Database;
use std::panic::{AssertUnwindSafe, catch_unwind};
use vecdb::{
    AnyStoredVec, EagerVec, LZ4Vec, PcoVec, Stamp, StoredVec,
    Version, ZstdVec,
};

const HEADER_OFFSET: usize = vecdb::HEADER_OFFSET;
const PAGE_BYTES: usize = 16 * 1024;

// ------------------------------------------------------------------------------------------------
// element types as bit patterns
pub trait Elem: Copy + std::fmt::Debug + Send + Sync + 'static {
    const W: usize;
    fn from_bits(lo: u64, hi: u64) -> Self;
    fn le(&self, out: &mut Vec<u8>);
}
macro_rules! elem_int {
    ($($t:ty),*) => {$(
        impl Elem for $t {
            const W: usize = std::mem::size_of::<$t>();
            fn from_bits(lo: u64, _hi: u64) -> Self { lo as $t }
            fn le(&self, out: &mut Vec<u8>) { out.extend_from_slice(&self.to_le_bytes()) }
        }
    )*};
}
elem_int!(u8, u16, u32, u64, i64);
impl Elem for u128 {
    const W: usize = 16;
    fn from_bits(lo: u64, hi: u64) -> Self { (lo as u128) | ((hi as u128) << 64) }
    fn le(&self, out: &mut Vec<u8>) { out.extend_from_slice(&self.to_le_bytes()) }
}
impl Elem for f32 {
    const W: usize = 4;
    fn from_bits(lo: u64, _hi: u64) -> Self { f32::from_bits(lo as u32) }
    fn le(&self, out: &mut Vec<u8>) { out.extend_from_slice(&self.to_bits().to_le_bytes()) }
}
impl Elem for f64 {
    const W: usize = 8;
    fn from_bits(lo: u64, _hi: u64) -> Self { f64::from_bits(lo) }
    fn le(&self, out: &mut Vec<u8>) { out.extend_from_slice(&self.to_bits().to_le_bytes()) }
}
impl Elem for [u8; 3] {
    const W: usize = 3;
    fn from_bits(lo: u64, _hi: u64) -> Self { [lo as u8, (lo >> 8) as u8, (lo >> 16) as u8] }
    fn le(&self, out: &mut Vec<u8>) { out.extend_from_slice(self) }
}

// ------------------------------------------------------------------------------------------------
// value classes, identical to ocaml/eng_compvec.ml
fn sm_next(st: &mut u64) -> u64 {
    *st = st.wrapping_add(0x9E37_79B9_7F4A_7C15);
    let mut z = *st;
    z = (z ^ (z >> 30)).wrapping_mul(0xBF58_476D_1CE4_E5B9);
    z = (z ^ (z >> 27)).wrapping_mul(0x94D0_49BB_1331_11EB);
    z ^ (z >> 31)
}
fn mask_w(w: usize, x: u64) -> u64 {
    if w >= 8 { x } else { x & ((1u64 << (8 * w)) - 1) }
}
fn gen_value(cls: u8, w: usize, seed: u64, i: usize, st: &mut u64) -> (u64, u64) {
    let bits = 8 * w.min(8);
    let maxv = mask_w(w, u64::MAX);
    let sign = 1u64 << (bits - 1);
    let lo = match cls {
        b'q' => mask_w(w, seed.wrapping_add(i as u64)),
        b'c' => mask_w(w, seed),
        b's' => sm_next(st) & 0xff,
        b'e' => {
            let x = sm_next(st);
            match x % 8 {
                0 => 0,
                1 => 1,
                2 => maxv,
                3 => maxv - 1,
                4 => sign,
                5 => mask_w(w, sign - 1),
                6 => mask_w(w, sign + 1),
                _ => mask_w(w, x >> 3),
            }
        }
        b'f' if w == 4 || w == 8 => {
            let x = sm_next(st);
            let mant = if w == 4 { 23 } else { 52 };
            let expmask = ((1u64 << (bits - 1 - mant)) - 1) << mant;
            let mantmask = (1u64 << mant) - 1;
            let payload = ((x >> 8) & mantmask) | 1;
            let quiet = 1u64 << (mant - 1);
            match x % 12 {
                0 => 0,
                1 => sign,
                2 => expmask,
                3 => sign | expmask,
                4 => expmask | quiet,
                5 => expmask | (payload & !quiet),
                6 => sign | expmask | payload,
                7 => 1,
                8 => mantmask,
                9 => 1u64 << mant,
                10 => (expmask & !(1u64 << mant)) | mantmask,
                _ => mask_w(w, x >> 4),
            }
        }
        _ => mask_w(w, sm_next(st)),
    };
    let hi = if w > 8 {
        match cls {
            b'q' | b'c' | b's' => 0,
            _ => sm_next(st),
        }
    } else {
        0
    };
    (lo, hi)
}

fn parse_vspec<E: Elem>(spec: &str) -> Vec<E> {
    if let Some(h) = spec.strip_prefix('x') {
        let raw = crate::rng::unhex(h);
        return raw
            .chunks_exact(E::W)
            .map(|c| {
                let mut b = [0u8; 16];
                b[..E::W].copy_from_slice(c);
                let v = u128::from_le_bytes(b);
                E::from_bits(v as u64, (v >> 64) as u64)
            })
            .collect();
    }
    let p: Vec<&str> = spec.split('.').collect();
    let cls = p[0].as_bytes()[0];
    let seed: u64 = p[1].parse().unwrap();
    let count: usize = p[2].parse().unwrap();
    let mut st = seed ^ 0x9E37_79B9_7F4A_7C15;
    (0..count)
        .map(|i| {
            let (lo, hi) = gen_value(cls, E::W, seed, i, &mut st);
            E::from_bits(lo, hi)
        })
        .collect()
}

fn le_bytes<E: Elem>(v: &[E]) -> Vec<u8> {
    let mut out = Vec::with_capacity(v.len() * E::W);
    for x in v {
        x.le(&mut out);
    }
    out
}
fn digest(bytes: &[u8], w: usize) -> String {
    format!("{}:{:016x}", bytes.len() / w, crate::rng::fnv(bytes))
}

fn err_name(e: &vecdb::Error) -> String {
    use vecdb::Error::*;
    match e {
        CorruptedRegion { .. } => "CorruptedRegion".into(),
        UnexpectedIndex { .. } => "UnexpectedIndex".into(),
        ExpectVecToHaveIndex => "ExpectVecToHaveIndex".into(),
        DecompressionMismatch { .. } => "DecompressionMismatch".into(),
        WrongLength { .. } => "WrongLength".into(),
        DifferentVersion { .. } => "DifferentVersion".into(),
        DifferentFormat { .. } => "DifferentFormat".into(),
        InvalidFormat(_) => "InvalidFormat".into(),
        Underflow => "Underflow".into(),
        Overflow => "Overflow".into(),
        IO(_) => "IO".into(),
        RawDB(rawdb::Error::WriteOutOfBounds { .. }) => "WriteOutOfBounds".into(),
        RawDB(rawdb::Error::TruncateInvalid { .. }) => "TruncateInvalid".into(),
        PCO(_) => "PCO".into(),
        LZ4(_) => "LZ4".into(),
        _ => "Other".into(),
    }
}

// ------------------------------------------------------------------------------------------------
#[derive(Clone, Copy, Debug)]
struct DPage {
    start: u64,
    bytes: u32,
    count: u32,
    raw: bool,
}
fn decode_index(b: &[u8]) -> Vec<DPage> {
    b.chunks_exact(16)
        .map(|c| {
            let start = u64::from_le_bytes(c[0..8].try_into().unwrap());
            let bytes = u32::from_le_bytes(c[8..12].try_into().unwrap());
            let v = u32::from_le_bytes(c[12..16].try_into().unwrap());
            DPage { start, bytes, count: v & !(1 << 31), raw: v & (1 << 31) != 0 }
        })
        .collect()
}

struct Out {
    ops: Vec<String>,
    obs: Vec<String>,
    viol: Vec<String>,
    tags: Vec<String>,
}

/// the reference vector of oracle (a)
struct Reference {
    cur: Vec<u8>, // little-endian bytes of the logical contents
    stamp: u64,
    saved: Vec<u8>, // contents as of the last write()/flush()
    saved_stamp: u64,
    reset_pending: bool, // a reset() whose effect has not reached the disk yet
    reset_stale: bool,   // … and a write()/flush() returned without persisting it
}

fn read_regions<V: AnyStoredVec>(db: &Database, vec: &V) -> (usize, Vec<u8>, Vec<u8>) {
    let names = vec.region_names();
    let data_len = vec.region().meta().len();
    let hdr = vec.region().create_reader().read_all()[..HEADER_OFFSET.min(data_len)].to_vec();
    let pg = match db.get_region(&names[1]) {
        Some(r) => r.create_reader().read_all().to_vec(),
        None => vec![],
    };
    (data_len, hdr, pg)
}

fn open_db(path: &std::path::Path) -> Database {
    Database::open(path).expect("open database")
}

fn run_case<V, E>(fmt: &str, ty: &str, ops_in: &[String], out: &mut Out)
where
    E: Elem,
    V: StoredVec<I = usize, T = E>,
{
    let w = E::W;
    let pp = PAGE_BYTES / w;
    let tmp = tempfile::TempDir::new().expect("tempdir");
    let mut db: Option<Database> = Some(open_db(tmp.path()));
    let version = Version::TWO;
    let mut vec: Option<V> = match V::forced_import_with((db.as_ref().unwrap(), "vec", version).into()) {
        Ok(v) => Some(v),
        Err(e) => {
            out.obs.push(format!("0 err:{}", err_name(&e)));
            return;
        }
    };
    let mut rf = Reference { cur: vec![], stamp: 0, saved: vec![], saved_stamp: 0, reset_pending: false, reset_stale: false };
    let _ = (fmt, ty);

    let observe = |k: usize, res: &str, rg: &str, db: &Database, v: &V| -> (String, Vec<u8>, Vec<u8>, usize) {
        let vals = v.collect();
        let bytes = le_bytes(&vals);
        let (dl, hd, pg) = read_regions(db, v);
        let line = format!(
            "{} {} rg={} len={} st={} c={} sl={} pl={} rl={} dl={} hd={} pg={}",
            k,
            res,
            rg,
            v.len(),
            u64::from(v.stamp()),
            digest(&bytes, w),
            v.stored_len(),
            v.pushed_len(),
            v.real_stored_len(),
            dl,
            hex(&hd),
            hex(&pg)
        );
        (line, bytes, pg, dl)
    };

    {
        let v = vec.as_ref().unwrap();
        let (line, _, _, _) = observe(0, "ok0", "-", db.as_ref().unwrap(), v);
        out.obs.push(line);
    }
    let mut disk_pages: Vec<DPage> = vec![];

    for (i, tok) in ops_in.iter().enumerate() {
        let k = i + 1;
        let parts: Vec<&str> = tok.split(':').collect();
        let kind = parts[0];
        let mut tok_out = tok.clone();
        let mut rg = "-".to_string();
        // facts before the step, for the regime tag and the truncate classification
        let (sl0, pl0, rl0) = {
            let v = vec.as_ref().unwrap();
            (v.stored_len(), v.pushed_len(), v.real_stored_len())
        };
        let is_write = matches!(kind, "w" | "f" | "s");
        // Pages::has_changes() is not observable; it is true exactly while a reset() is pending
        let reset_pending0 = rf.reset_pending;
        if is_write {
            rg = if pl0 == 0 && sl0 == rl0 && !rf.reset_pending {
                "noop"
            } else {
                let spi = sl0 / pp;
                let npages = rl0.div_ceil(pp);
                let partial_len = sl0 % pp;
                if spi < npages && partial_len != 0 {
                    match disk_pages.get(spi) {
                        Some(p) if p.raw && partial_len == p.count as usize && partial_len + pl0 < pp => "fast",
                        _ => "reenc",
                    }
                } else if pl0 == 0 {
                    "trunc"
                } else {
                    "fresh"
                }
            }
            .to_string();
            out.tags.push(format!("regime:{rg}"));
            if rg != "noop" {
                let tot = sl0 % pp + pl0;
                if tot == pp { out.tags.push("fill:exact".into()) }
                else if tot == pp + 1 { out.tags.push("fill:overflow-by-one".into()) }
                else if tot + 1 == pp { out.tags.push("fill:one-short".into()) }
                else if tot > 2 * pp { out.tags.push("fill:multi-page".into()) }
            }
        }
        if kind == "t" {
            let n: usize = parts[1].parse().unwrap();
            let len0 = sl0 + pl0;
            let t = if n >= len0 { "noop" }
                else if n > sl0 { "pushed" }
                else if n == sl0 { "pushed-all" }
                else if n % pp == 0 { if n == 0 { "to-zero" } else { "boundary" } }
                else if n / pp + 1 == rl0.div_ceil(pp) && disk_pages.last().is_some_and(|p| p.raw) { "into-raw" }
                else { "into-compressed" };
            out.tags.push(format!("trunc:{t}"));
        }

        // ---- execute on the real vector -----------------------------------------------------
        let step = catch_unwind(AssertUnwindSafe(|| -> Result<bool, String> {
            match kind {
                "p" => {
                    let vals: Vec<E> = parse_vspec::<E>(parts[1]);
                    let v = vec.as_mut().unwrap();
                    for x in &vals {
                        v.push(*x);
                    }
                    rf.cur.extend_from_slice(&le_bytes(&vals));
                    Ok(false)
                }
                "t" => {
                    let n: usize = parts[1].parse().unwrap();
                    vec.as_mut().unwrap().truncate_if_needed_at(n).map_err(|e| err_name(&e))?;
                    if n * w < rf.cur.len() {
                        rf.cur.truncate(n * w);
                    }
                    Ok(false)
                }
                "w" => vec.as_mut().unwrap().write().map_err(|e| err_name(&e)),
                "f" => {
                    let v = vec.as_mut().unwrap();
                    // AnyStoredVec::flush = write() + region flush; write()'s own result is not
                    // returned, it is inferred from the documented early-return condition
                    v.flush().map_err(|e| err_name(&e))?;
                    db.as_ref().unwrap().flush().map_err(|e| format!("Other:{e}"))?;
                    Ok(!(pl0 == 0 && sl0 == rl0 && !reset_pending0))
                }
                "s" => {
                    let st: u64 = parts[1].parse().unwrap();
                    let v = vec.as_mut().unwrap();
                    v.stamped_write_with_changes(Stamp::new(st)).map_err(|e| err_name(&e))?;
                    rf.stamp = st;
                    Ok(!(pl0 == 0 && sl0 == rl0 && !reset_pending0))
                }
                "r" => {
                    vec.as_mut().unwrap().reset().map_err(|e| err_name(&e))?;
                    rf.cur.clear();
                    rf.stamp = 0;
                    rf.reset_pending = true;
                    Ok(false)
                }
                "i" | "o" => {
                    vec = None;
                    if kind == "o" {
                        // the old Database must be gone before the directory is opened again
                        db = None;
                        db = Some(open_db(tmp.path()));
                    }
                    let v = V::forced_import_with((db.as_ref().unwrap(), "vec", version).into()).map_err(|e| err_name(&e))?;
                    vec = Some(v);
                    rf.cur = rf.saved.clone();
                    rf.stamp = rf.saved_stamp;
                    Ok(false)
                }
                _ => Err("BadOp".into()),
            }
        }));
        let res = match step {
            Err(_) => {
                out.obs.push(format!("{k} panic"));
                out.viol.push(format!("panic-in-{} the call panicked at step {k}", op_name(kind)));
                out.ops.push(tok_out);
                break;
            }
            Ok(Err(e)) => {
                out.obs.push(format!("{k} err:{e}"));
                out.viol.push(format!("error-{}-in-{} an operation of a valid history returned an error at step {k}", e, op_name(kind)));
                out.ops.push(tok_out);
                break;
            }
            Ok(Ok(b)) => b,
        };
        let v = vec.as_ref().unwrap();
        let (line, bytes, pg, dl) = observe(k, if res { "ok1" } else { "ok0" }, &rg, db.as_ref().unwrap(), v);
        out.obs.push(line);
        let pages = decode_index(&pg);

        if is_write {
            // the hints of this write: the real `bytes` of every page now on disk
            let hints = if pages.is_empty() { "-".to_string() } else { pages.iter().map(|p| p.bytes.to_string()).collect::<Vec<_>>().join(",") };
            tok_out = match kind {
                "s" => format!("s:{}:{}", parts[1], hints),
                _ => format!("{kind}:{hints}"),
            };
            // reference: what a re-import must return from now on
            rf.saved = rf.cur.clone();
            rf.saved_stamp = rf.stamp;
            if res {
                rf.reset_pending = false;
                rf.reset_stale = false;
            } else if rf.reset_pending && !pages.is_empty() {
                rf.reset_stale = true;
            }
        }
        out.ops.push(tok_out);

        // ---- oracle (a): the reference vector ------------------------------------------------
        let opn = op_name(kind);
        let known_reset = (kind == "i" || kind == "o") && rf.reset_stale;
        if v.len() * w != rf.cur.len() || bytes != rf.cur {
            if known_reset {
                out.viol.push(format!(
                    "compressed-reset-not-persisted reset(); write()/flush() returned without rewriting the page index; re-import at step {k} returned {} values, the reference has {}",
                    v.len(), rf.cur.len() / w));
            } else if v.len() * w != rf.cur.len() {
                out.viol.push(format!("len-differs-from-reference-after-{opn} step {k}: len {} reference {}", v.len(), rf.cur.len() / w));
            } else {
                let at = bytes.iter().zip(rf.cur.iter()).position(|(a, b)| a != b).unwrap_or(0) / w;
                out.viol.push(format!("contents-differ-from-reference-after-{opn} step {k}: first differing index {at}"));
            }
            // resynchronise so that later steps are still compared
            rf.cur = bytes.clone();
            rf.saved = bytes.clone();
        }
        if u64::from(v.stamp()) != rf.stamp {
            if !known_reset {
                out.viol.push(format!("stamp-differs-from-reference-after-{opn} step {k}: stamp {} reference {}", u64::from(v.stamp()), rf.stamp));
            }
            rf.stamp = u64::from(v.stamp());
        }
        if kind == "i" || kind == "o" {
            rf.reset_pending = false;
            rf.reset_stale = false;
            out.tags.push("reimport".into());
        }

        // ---- oracle (b): the on-disk page index -------------------------------------------------
        if is_write || kind == "i" || kind == "o" {
            let stale = is_write && rf.reset_stale;
            check_index(&pg, &pages, dl, v.stored_len(), w, pp, k, stale, &mut out.viol);
        }
        disk_pages = pages;
    }
}

fn op_name(kind: &str) -> &'static str {
    match kind {
        "p" => "push",
        "t" => "truncate",
        "w" => "write",
        "f" => "flush",
        "s" => "stamped-write",
        "r" => "reset",
        "i" => "reimport",
        "o" => "reopen",
        _ => "op",
    }
}

/// Oracle (b): "the page index describes a gap-free run of pages starting right after the header,
/// in which every page but the last is full, only the last may be stored uncompressed, the page
/// value counts add up to the stored length, and the data region ends where the last page ends."
fn check_index(raw: &[u8], pages: &[DPage], data_len: usize, stored_len: usize, w: usize, pp: usize, k: usize, stale: bool, viol: &mut Vec<String>) {
    if raw.len() % 16 != 0 {
        viol.push(format!("index-length-not-multiple-of-entry-size step {k}: {} bytes", raw.len()));
    }
    let mut next = HEADER_OFFSET as u64;
    let mut sum = 0usize;
    for (i, p) in pages.iter().enumerate() {
        let last = i + 1 == pages.len();
        if i == 0 && p.start != HEADER_OFFSET as u64 {
            viol.push(format!("index-first-page-not-right-after-header step {k}: start {}", p.start));
        } else if p.start != next {
            viol.push(format!("index-gap-or-overlap step {k}: page {i} starts at {} but the previous page ends at {next}", p.start));
        }
        if !last && p.count as usize != pp {
            viol.push(format!("index-nonlast-page-not-full step {k}: page {i} holds {} of {pp} values", p.count));
        }
        if !last && p.raw {
            viol.push(format!("index-nonlast-page-raw step {k}: page {i}"));
        }
        if last && (p.count == 0 || p.count as usize > pp) {
            viol.push(format!("index-last-page-empty-or-overfull step {k}: {} values", p.count));
        }
        if p.raw && p.bytes as usize != p.count as usize * w {
            viol.push(format!("index-raw-page-bytes-ne-count-times-size step {k}: page {i} bytes {} count {}", p.bytes, p.count));
        }
        next = p.start + p.bytes as u64;
        sum += p.count as usize;
    }
    if sum != stored_len {
        if stale {
            viol.push(format!("compressed-reset-not-persisted reset(); write() at step {k} returned without rewriting the page index: it still describes {sum} values, stored_len is {stored_len}"));
        } else {
            viol.push(format!("index-value-counts-ne-stored-len step {k}: index {sum} stored_len {stored_len}"));
        }
    }
    if data_len as u64 != next && !stale {
        viol.push(format!("data-region-end-ne-last-page-end step {k}: region length {data_len}, last page ends at {next}"));
    }
}

// ------------------------------------------------------------------------------------------------
fn dispatch(fmt: &str, ty: &str, ops: &[String], out: &mut Out) -> bool {
    macro_rules! go {
        ($v:ident, $t:ty) => {{
            if fmt.starts_with('e') {
                run_case::<EagerVec<$v<usize, $t>>, $t>(fmt, ty, ops, out)
            } else {
                run_case::<$v<usize, $t>, $t>(fmt, ty, ops, out)
            }
            true
        }};
    }
    let base = fmt.trim_start_matches('e');
    match (base, ty) {
        ("pco", "u8") => go!(PcoVec, u8),
        ("pco", "u16") => go!(PcoVec, u16),
        ("pco", "u32") => go!(PcoVec, u32),
        ("pco", "u64") => go!(PcoVec, u64),
        ("pco", "i64") => go!(PcoVec, i64),
        ("pco", "f32") => go!(PcoVec, f32),
        ("pco", "f64") => go!(PcoVec, f64),
        ("lz4", "u8") => go!(LZ4Vec, u8),
        ("lz4", "u16") => go!(LZ4Vec, u16),
        ("lz4", "u32") => go!(LZ4Vec, u32),
        ("lz4", "u64") => go!(LZ4Vec, u64),
        ("lz4", "i64") => go!(LZ4Vec, i64),
        ("lz4", "f32") => go!(LZ4Vec, f32),
        ("lz4", "f64") => go!(LZ4Vec, f64),
        ("lz4", "u128") => go!(LZ4Vec, u128),
        ("lz4", "a3") => go!(LZ4Vec, [u8; 3]),
        ("zstd", "u8") => go!(ZstdVec, u8),
        ("zstd", "u16") => go!(ZstdVec, u16),
        ("zstd", "u32") => go!(ZstdVec, u32),
        ("zstd", "u64") => go!(ZstdVec, u64),
        ("zstd", "i64") => go!(ZstdVec, i64),
        ("zstd", "f32") => go!(ZstdVec, f32),
        ("zstd", "f64") => go!(ZstdVec, f64),
        ("zstd", "u128") => go!(ZstdVec, u128),
        ("zstd", "a3") => go!(ZstdVec, [u8; 3]),
        _ => false,
    }
}

fn width_of(ty: &str) -> usize {
    match ty {
        "u8" => 1,
        "u16" => 2,
        "a3" => 3,
        "u32" | "f32" => 4,
        "u64" | "i64" | "f64" => 8,
        "u128" => 16,
        _ => 8,
    }
}

// ------------------------------------------------------------------------------------------------
// state-aware generator: tracks (stored, pushed, written length) with the reference semantics
struct GenState {
    len: usize,       // logical length
    stored: usize,    // min(stored_len) view: values at or below which are on disk
    written: usize,   // length as of the last write
}

fn gen_case(rng: &mut Rng) -> (String, String, Vec<String>) {
    let fmts = ["pco", "lz4", "zstd", "epco", "pco", "lz4", "zstd", "ezstd", "elz4"];
    let fmt = *rng.pick(&fmts);
    let tys: &[&str] = if fmt.ends_with("pco") {
        &["u64", "u64", "i64", "u32", "u8", "f32", "f64", "u16"]
    } else {
        &["u64", "i64", "u32", "u8", "f32", "f64", "u128", "u128", "a3", "u16"]
    };
    let ty = *rng.pick(tys);
    let w = width_of(ty);
    let pp = PAGE_BYTES / w;
    let allow_reset = rng.chance(55, 100);
    let big = rng.chance(12, 100); // histories that go beyond two pages
    let cap = if big { 4 * pp + 7 } else { 2 * pp + pp / 2 };
    let nops = rng.range(6, if big { 16 } else { 26 }) as usize;
    let mut g = GenState { len: 0, stored: 0, written: 0 };
    let mut ops: Vec<String> = vec![];
    let mut stamp = 0u64;
    let classes: &[u8] = match ty {
        "f32" | "f64" => b"ffferqcs",
        _ => b"eerrqcss",
    };
    for _ in 0..nops {
        let r = rng.below(100);
        if r < 38 {
            // push: 1 … 3 pages, exactly filling, overflowing by one, one short
            let room = pp - g.len % pp; // 1..=pp values until the next boundary
            let n = match rng.below(12) {
                0 => 1,
                1 | 2 => rng.range(2, 20) as usize,
                3 | 4 => room,
                5 => room + 1,
                6 => room.saturating_sub(1).max(1),
                7 => pp,
                8 => rng.range(1, pp as u64) as usize,
                9 => rng.range(pp as u64, 3 * pp as u64) as usize,
                10 => room + pp,
                _ => rng.range(1, (pp / 8).max(2) as u64) as usize,
            };
            let n = n.min(cap.saturating_sub(g.len)).max(1);
            if g.len + n > cap + 1 {
                continue;
            }
            let cls = *rng.pick(classes) as char;
            let seed = if cls == 'c' || cls == 'q' { match rng.below(4) { 0 => 0, 1 => u64::MAX, 2 => rng.below(300), _ => rng.next() } } else { rng.next() >> 1 };
            ops.push(format!("p:{cls}.{seed}.{n}"));
            g.len += n;
        } else if r < 56 {
            // truncate: into the raw page, into a compressed page, on a boundary, within pushed, no-op
            let n = match rng.below(10) {
                0 => g.len + rng.below(3) as usize,                       // no-op
                1 => 0,
                2 | 3 => (g.len / pp) * pp,                                // boundary below
                4 => ((g.len / pp).saturating_sub(1)) * pp,               // an earlier boundary
                5 | 6 => { let lo = (g.len / pp) * pp; if g.len > lo { lo + 1 + rng.below((g.len - lo - 1) as u64) as usize } else { g.len.saturating_sub(1) } } // into the last page
                7 => if g.len >= pp { rng.below(pp as u64) as usize + (rng.below((g.len / pp) as u64) as usize) * pp } else { rng.below(g.len as u64 + 1) as usize }, // into a full page
                8 => g.len.saturating_sub(1),
                _ => rng.below(g.len as u64 + 1) as usize,
            };
            ops.push(format!("t:{n}"));
            if n < g.len {
                g.len = n;
                g.stored = g.stored.min(n);
            }
        } else if r < 80 {
            let k = rng.below(10);
            if k < 6 {
                ops.push("w:-".into());
            } else if k < 8 {
                ops.push("f:-".into());
            } else {
                stamp = match rng.below(3) { 0 => stamp, 1 => stamp + 1, _ => rng.below(1 << 20) };
                ops.push(format!("s:{stamp}:-"));
            }
            g.stored = g.len;
            g.written = g.len;
        } else if r < 86 && allow_reset {
            ops.push("r".into());
            g.len = 0;
            g.stored = 0;
        } else if r < 96 {
            ops.push(if rng.chance(1, 3) { "o".into() } else { "i".into() });
            // the logical length after a re-import is the written one (the harness tracks the real one)
            g.len = g.written;
            g.stored = g.written;
        } else {
            // write immediately followed by re-import: the C07/C03 re-import clause
            ops.push("f:-".into());
            ops.push("i".into());
            g.stored = g.len;
            g.written = g.len;
        }
    }
    if rng.chance(1, 2) {
        ops.push("w:-".into());
        ops.push("i".into());
    }
    (fmt.to_string(), ty.to_string(), ops)
}

fn strip_hints(tok: &str) -> String {
    let p: Vec<&str> = tok.split(':').collect();
    match p[0] {
        "w" | "f" => format!("{}:-", p[0]),
        "s" => format!("s:{}:-", p[1]),
        _ => tok.to_string(),
    }
}

fn emit(id: &str, fmt: &str, ty: &str, ops: &[String]) {
    let mut out = Out { ops: vec![], obs: vec![], viol: vec![], tags: vec![] };
    let ok = dispatch(fmt, ty, ops, &mut out);
    if !ok {
        println!("I {id} {fmt} {ty} v=2 {}", ops.join(" "));
        println!("O {id} 0 err:UnsupportedTypeForFormat");
        return;
    }
    // ops not executed (after an error) are dropped from the input line: the line is what ran
    println!("I {id} {fmt} {ty} v=2 {}", out.ops.join(" "));
    for o in &out.obs {
        println!("O {id} {o}");
    }
    for v in &out.viol {
        println!("V {id} {v}");
    }
    out.tags.sort();
    out.tags.dedup();
    for t in &out.tags {
        println!("M {id} {t}");
    }
}

pub fn run(args: &[String]) -> i32 {
    let a = parse_args(args);
    std::panic::set_hook(Box::new(|_| {}));
    if let Some(path) = a.replay {
        for (id, rest) in replay_inputs(&path) {
            let t: Vec<&str> = rest.split_whitespace().collect();
            if t.len() < 3 {
                continue;
            }
            let ops: Vec<String> = t[3..].iter().map(|s| strip_hints(s)).collect();
            emit(&id, t[0], t[1], &ops);
        }
        return 0;
    }
    let mut rng = Rng::new(a.seed);
    for id in 0..a.cases {
        let (fmt, ty, ops) = gen_case(&mut rng);
        emit(&id.to_string(), &fmt, &ty, &ops);
    }
    0
}
