//! Engine `compvec` (C07, compressed half of C03): random, state-aware operation histories on the
//! real PcoVec / LZ4Vec / ZstdVec and EagerVec wrappers of them.
//!
//! Line protocol (see AGENT_GUIDE.md):
//!   I <id> <fmt> <ty> v=<version> <op>...     (ops: p:<vspec> t:<n> w:<hints> f:<hints> s:<stamp>:<hints> r i o)
//!   O <id> <k> <res> rg=.. len=.. st=.. c=<count:fnv> sl=.. pl=.. rl=.. dl=.. hd=<hex> pg=<hex>   one per step
//!   V <id> <key> <text>      spec-level oracles evaluated here, without any model:
//!                            (a) a plain reference vector stepped alongside;
//!                            (b) the page-index well-formedness predicate of C07 on the on-disk index
//!   M <id> <tag>             distribution tags (write regimes, truncate kinds, …)
//! Fault stream (`--faults`, C16 / C17): a generated commit history with retention 1..4 ending right
//! after a commit, then ONE fault on the newest change file (ops xd:<stamp> delete, xt:<stamp>:<n>
//! truncate to n bytes, xo:<stamp>:<off>:<value> overwrite the u64 at byte offset off), then rollback
//! or rollback_before, then push + write.  After a fault only the unconditional clauses are checked:
//! a refused rollback changes nothing, an accepted one lands on a state that was committed, no panic,
//! no allocation request beyond the size of the input (crate::allocwatch).
//! The `hints` of a write are the `bytes` fields of every page entry found on disk after it; they
//! are the only thing the model cannot know (the real compressor's output lengths).
use crate::rng::{Rng, hex};
use crate::util::{parse_args, replay_inputs};
use rawdb::Database;
use std::panic::{AssertUnwindSafe, catch_unwind};
use vecdb::{
    AnyStoredVec, EagerVec, LZ4Vec, PcoVec, Stamp, StoredVec,
    Version, ZstdVec,
};

const HEADER_OFFSET: usize = vecdb::HEADER_OFFSET;
const PAGE_BYTES: usize = 16 * 1024;

// ------------------------------------------------------------------------------------------------
// element types as bit patterns
pub trait Elem: Copy + std::fmt::Debug + Send + Sync + 'static {
    const W: usize;
    fn from_bits(lo: u64, hi: u64) -> Self;
    fn le(&self, out: &mut Vec<u8>);
}
macro_rules! elem_int {
    ($($t:ty),*) => {$(
        impl Elem for $t {
            const W: usize = std::mem::size_of::<$t>();
            fn from_bits(lo: u64, _hi: u64) -> Self { lo as $t }
            fn le(&self, out: &mut Vec<u8>) { out.extend_from_slice(&self.to_le_bytes()) }
        }
    )*};
}
elem_int!(u8, u16, u32, u64, i64);
impl Elem for u128 {
    const W: usize = 16;
    fn from_bits(lo: u64, hi: u64) -> Self { (lo as u128) | ((hi as u128) << 64) }
    fn le(&self, out: &mut Vec<u8>) { out.extend_from_slice(&self.to_le_bytes()) }
}
impl Elem for f32 {
    const W: usize = 4;
    fn from_bits(lo: u64, _hi: u64) -> Self { f32::from_bits(lo as u32) }
    fn le(&self, out: &mut Vec<u8>) { out.extend_from_slice(&self.to_bits().to_le_bytes()) }
}
impl Elem for f64 {
    const W: usize = 8;
    fn from_bits(lo: u64, _hi: u64) -> Self { f64::from_bits(lo) }
    fn le(&self, out: &mut Vec<u8>) { out.extend_from_slice(&self.to_bits().to_le_bytes()) }
}
impl Elem for [u8; 3] {
    const W: usize = 3;
    fn from_bits(lo: u64, _hi: u64) -> Self { [lo as u8, (lo >> 8) as u8, (lo >> 16) as u8] }
    fn le(&self, out: &mut Vec<u8>) { out.extend_from_slice(self) }
}

// ------------------------------------------------------------------------------------------------
// value classes, identical to ocaml/eng_compvec.ml
fn sm_next(st: &mut u64) -> u64 {
    *st = st.wrapping_add(0x9E37_79B9_7F4A_7C15);
    let mut z = *st;
    z = (z ^ (z >> 30)).wrapping_mul(0xBF58_476D_1CE4_E5B9);
    z = (z ^ (z >> 27)).wrapping_mul(0x94D0_49BB_1331_11EB);
    z ^ (z >> 31)
}
fn mask_w(w: usize, x: u64) -> u64 {
    if w >= 8 { x } else { x & ((1u64 << (8 * w)) - 1) }
}
fn gen_value(cls: u8, w: usize, seed: u64, i: usize, st: &mut u64) -> (u64, u64) {
    let bits = 8 * w.min(8);
    let maxv = mask_w(w, u64::MAX);
    let sign = 1u64 << (bits - 1);
    let lo = match cls {
        b'q' => mask_w(w, seed.wrapping_add(i as u64)),
        b'c' => mask_w(w, seed),
        b's' => sm_next(st) & 0xff,
        b'e' => {
            let x = sm_next(st);
            match x % 8 {
                0 => 0,
                1 => 1,
                2 => maxv,
                3 => maxv - 1,
                4 => sign,
                5 => mask_w(w, sign - 1),
                6 => mask_w(w, sign + 1),
                _ => mask_w(w, x >> 3),
            }
        }
        b'f' if w == 4 || w == 8 => {
            let x = sm_next(st);
            let mant = if w == 4 { 23 } else { 52 };
            let expmask = ((1u64 << (bits - 1 - mant)) - 1) << mant;
            let mantmask = (1u64 << mant) - 1;
            let payload = ((x >> 8) & mantmask) | 1;
            let quiet = 1u64 << (mant - 1);
            match x % 12 {
                0 => 0,
                1 => sign,
                2 => expmask,
                3 => sign | expmask,
                4 => expmask | quiet,
                5 => expmask | (payload & !quiet),
                6 => sign | expmask | payload,
                7 => 1,
                8 => mantmask,
                9 => 1u64 << mant,
                10 => (expmask & !(1u64 << mant)) | mantmask,
                _ => mask_w(w, x >> 4),
            }
        }
        _ => mask_w(w, sm_next(st)),
    };
    let hi = if w > 8 {
        match cls {
            b'q' | b'c' | b's' => 0,
            _ => sm_next(st),
        }
    } else {
        0
    };
    (lo, hi)
}

fn parse_vspec<E: Elem>(spec: &str) -> Vec<E> {
    if let Some(h) = spec.strip_prefix('x') {
        let raw = crate::rng::unhex(h);
        return raw
            .chunks_exact(E::W)
            .map(|c| {
                let mut b = [0u8; 16];
                b[..E::W].copy_from_slice(c);
                let v = u128::from_le_bytes(b);
                E::from_bits(v as u64, (v >> 64) as u64)
            })
            .collect();
    }
    let p: Vec<&str> = spec.split('.').collect();
    let cls = p[0].as_bytes()[0];
    let seed: u64 = p[1].parse().unwrap();
    let count: usize = p[2].parse().unwrap();
    let mut st = seed ^ 0x9E37_79B9_7F4A_7C15;
    (0..count)
        .map(|i| {
            let (lo, hi) = gen_value(cls, E::W, seed, i, &mut st);
            E::from_bits(lo, hi)
        })
        .collect()
}

fn le_bytes<E: Elem>(v: &[E]) -> Vec<u8> {
    let mut out = Vec::with_capacity(v.len() * E::W);
    for x in v {
        x.le(&mut out);
    }
    out
}
fn digest(bytes: &[u8], w: usize) -> String {
    format!("{}:{:016x}", bytes.len() / w, crate::rng::fnv(bytes))
}

fn err_name(e: &vecdb::Error) -> String {
    use vecdb::Error::*;
    match e {
        CorruptedRegion { .. } => "CorruptedRegion".into(),
        UnexpectedIndex { .. } => "UnexpectedIndex".into(),
        ExpectVecToHaveIndex => "ExpectVecToHaveIndex".into(),
        DecompressionMismatch { .. } => "DecompressionMismatch".into(),
        WrongLength { .. } => "WrongLength".into(),
        DifferentVersion { .. } => "DifferentVersion".into(),
        DifferentFormat { .. } => "DifferentFormat".into(),
        InvalidFormat(_) => "InvalidFormat".into(),
        Underflow => "Underflow".into(),
        Overflow => "Overflow".into(),
        IO(_) => "IO".into(),
        IndexTooHigh { .. } => "IndexTooHigh".into(),
        StampMismatch { .. } => "StampMismatch".into(),
        RawDB(rawdb::Error::WriteOutOfBounds { .. }) => "WriteOutOfBounds".into(),
        RawDB(rawdb::Error::TruncateInvalid { .. }) => "TruncateInvalid".into(),
        PCO(_) => "PCO".into(),
        LZ4(_) => "LZ4".into(),
        _ => "Other".into(),
    }
}

// ------------------------------------------------------------------------------------------------
#[derive(Clone, Copy, Debug)]
struct DPage {
    start: u64,
    bytes: u32,
    count: u32,
    raw: bool,
}
fn decode_index(b: &[u8]) -> Vec<DPage> {
    b.chunks_exact(16)
        .map(|c| {
            let start = u64::from_le_bytes(c[0..8].try_into().unwrap());
            let bytes = u32::from_le_bytes(c[8..12].try_into().unwrap());
            let v = u32::from_le_bytes(c[12..16].try_into().unwrap());
            DPage { start, bytes, count: v & !(1 << 31), raw: v & (1 << 31) != 0 }
        })
        .collect()
}

struct Out {
    ops: Vec<String>,
    obs: Vec<String>,
    viol: Vec<String>,
    tags: Vec<String>,
    /// the change file of the stamp the vector stands on when the history ends (fault families)
    record: Option<(u64, Vec<u8>)>,
}

/// lengths beyond this are reachable only through a damaged record: the vector is not read any more
const HUGE: usize = 1 << 24;

/// layout of a compressed change record, exactly as base/rollback.rs `serialize_changes` writes it:
/// stamp | prev_stored_len | stored_len | truncated count | truncated values | prev_pushed count |
/// prev_pushed values | pushed count | pushed values.  Returns (name, byte offset, value) of every
/// u64 field that can be located (a damaged count stops the walk).
fn record_fields(b: &[u8], w: usize) -> Vec<(&'static str, usize, u64)> {
    let rd = |o: usize| -> Option<u64> { b.get(o..o.checked_add(8)?).map(|s| u64::from_le_bytes(s.try_into().unwrap())) };
    let mut f = vec![];
    let mut pos = 0usize;
    (|| -> Option<()> {
        f.push(("stamp", pos, rd(pos)?)); pos += 8;
        f.push(("prev_stored_len", pos, rd(pos)?)); pos += 8;
        f.push(("stored_len", pos, rd(pos)?)); pos += 8;
        let t = rd(pos)?; f.push(("truncated", pos, t)); pos = pos.checked_add(8)?.checked_add(w.checked_mul(t as usize)?)?;
        let pp = rd(pos)?; f.push(("prev_pushed", pos, pp)); pos = pos.checked_add(8)?.checked_add(w.checked_mul(pp as usize)?)?;
        let p = rd(pos)?; f.push(("pushed", pos, p));
        Some(())
    })();
    f
}

fn value_kind(v: u64, old: u64) -> &'static str {
    if v == 0 { "0" } else if v == 1 { "1" } else if v == 1 << 32 { "2^32" } else if v == 1 << 63 { "2^63" } else if v == u64::MAX { "max" }
    else if v == old.wrapping_add(1) { "+1" } else if v == old.wrapping_sub(1) { "-1" } else { "other" }
}

#[derive(Clone, PartialEq)]
struct Snap {
    c: Vec<u8>,
    st: u64,
}

/// the reference vector of oracle (a), with the stack of committed snapshots for C04/C16
struct Reference {
    cur: Vec<u8>, // little-endian bytes of the logical contents
    stamp: u64,
    saved: Vec<u8>, // contents as of the last write()/flush()
    saved_stamp: u64,
    reset_pending: bool, // a reset() whose effect has not reached the disk yet
    reset_stale: bool,   // … and a write()/flush() returned without persisting it
    base: Snap,                // the state a commit records its changes against (last commit / rollback / import)
    undo: Vec<(u64, Snap)>,    // retained undo entries: (stamp of the commit, state it returns to), ascending
    limbo: Vec<(u64, Snap)>,   // entries consumed by a rollback that has not been written yet
    uncommitted: bool,         // push/truncate since `base`
    noop_bb_dirty: bool,       // a rollback_before that applied nothing ran over uncommitted edits
    bare_taint: bool,          // an effective bare write happened while records were retained: their disk prefix may be gone
    bare_recs: Vec<u64>,       // stamps of commits made after an effective bare write()/flush()
    prev_rb_ok: bool,          // a rollback succeeded since the last commit
    bare_write: bool,          // an effective write()/flush() outside a commit since `base`
    ever: Vec<Snap>,           // every state that was committed in this history (the initial empty one included)
    fault: Option<String>,     // a fault hit the change directory: label of it (the reference stack is void from here on)
    fault_refused: bool,       // … and the rollback after it was refused
}

impl Reference {
    fn entry(&self, st: u64) -> Option<usize> {
        self.undo.iter().position(|r| r.0 == st)
    }
    fn apply(&mut self, i: usize) {
        let (rs, snap) = self.undo.remove(i);
        self.cur = snap.c.clone();
        self.stamp = snap.st;
        self.base = snap.clone();
        self.limbo.push((rs, snap));
        self.uncommitted = false;
        self.bare_write = false;
    }
}

fn read_regions<V: AnyStoredVec>(db: &Database, vec: &V) -> (usize, Vec<u8>, Vec<u8>) {
    let names = vec.region_names();
    let data_len = vec.region().meta().len();
    let hdr = vec.region().create_reader().read_all()[..HEADER_OFFSET.min(data_len)].to_vec();
    let pg = match db.get_region(&names[1]) {
        Some(r) => r.create_reader().read_all().to_vec(),
        None => vec![],
    };
    (data_len, hdr, pg)
}

/// listing of the change directory: `x` = absent, `-` = empty, else stamp:len:fnv,…
fn read_changes(root: &std::path::Path, region: &str) -> String {
    let dir = root.join("changes").join(region);
    let Ok(rd) = std::fs::read_dir(&dir) else { return "x".into() };
    let mut files: Vec<(u64, Vec<u8>)> = rd
        .filter_map(|e| {
            let p = e.ok()?.path();
            let st = p.file_name()?.to_str()?.parse::<u64>().ok()?;
            Some((st, std::fs::read(&p).ok()?))
        })
        .collect();
    files.sort();
    if files.is_empty() {
        return "-".into();
    }
    files.iter().map(|(st, b)| format!("{}:{}:{:016x}", st, b.len(), crate::rng::fnv(b))).collect::<Vec<_>>().join(",")
}

fn open_db(path: &std::path::Path) -> Database {
    Database::open(path).expect("open database")
}

fn run_case<V, E>(retention: u16, ops_in: &[String], out: &mut Out)
where
    E: Elem,
    V: StoredVec<I = usize, T = E>,
{
    let w = E::W;
    let pp = PAGE_BYTES / w;
    let tmp = tempfile::TempDir::new().expect("tempdir");
    let mut db: Option<Database> = Some(open_db(tmp.path()));
    let version = Version::TWO;
    let import = |db: &Database| -> vecdb::Result<V> {
        V::forced_import_with(vecdb::ImportOptions::new(db, "vec", version).with_saved_stamped_changes(retention))
    };
    let mut vec: Option<V> = match import(db.as_ref().unwrap()) {
        Ok(v) => Some(v),
        Err(e) => {
            out.obs.push(format!("0 err:{}", err_name(&e)));
            return;
        }
    };
    let mut rf = Reference {
        cur: vec![], stamp: 0, saved: vec![], saved_stamp: 0, reset_pending: false, reset_stale: false,
        base: Snap { c: vec![], st: 0 }, undo: vec![], limbo: vec![], uncommitted: false, bare_write: false, noop_bb_dirty: false, bare_taint: false, bare_recs: vec![], prev_rb_ok: false,
        ever: vec![Snap { c: vec![], st: 0 }], fault: None, fault_refused: false,
    };
    let root = tmp.path().to_path_buf();

    let observe = |k: usize, res: &str, rg: &str, db: &Database, v: &V| -> (String, Vec<u8>, Vec<u8>, usize) {
        let vals = v.collect();
        let bytes = le_bytes(&vals);
        let (dl, hd, pg) = read_regions(db, v);
        let ch = read_changes(&root, &v.region_names()[0]);
        let line = format!(
            "{} {} rg={} len={} st={} c={} sl={} pl={} rl={} dl={} hd={} pg={} ch={}",
            k,
            res,
            rg,
            v.len(),
            u64::from(v.stamp()),
            digest(&bytes, w),
            v.stored_len(),
            v.pushed_len(),
            v.real_stored_len(),
            dl,
            hex(&hd),
            hex(&pg),
            ch
        );
        (line, bytes, pg, dl)
    };

    {
        let v = vec.as_ref().unwrap();
        let (line, _, _, _) = observe(0, "ok0", "-", db.as_ref().unwrap(), v);
        out.obs.push(line);
    }
    let mut disk_pages: Vec<DPage> = vec![];

    for (i, tok) in ops_in.iter().enumerate() {
        let k = i + 1;
        let parts: Vec<&str> = tok.split(':').collect();
        let kind = parts[0];
        let mut tok_out = tok.clone();
        let mut rg = "-".to_string();
        // facts before the step, for the regime tag and the truncate classification
        let (sl0, pl0, rl0) = {
            let v = vec.as_ref().unwrap();
            (v.stored_len(), v.pushed_len(), v.real_stored_len())
        };
        let is_write = matches!(kind, "w" | "f" | "s");
        let is_rb = matches!(kind, "b" | "bb");
        // Pages::has_changes() is not observable; it is true exactly while a reset() is pending
        let reset_pending0 = rf.reset_pending;
        if is_write {
            rg = if pl0 == 0 && sl0 == rl0 && !rf.reset_pending {
                "noop"
            } else {
                let spi = sl0 / pp;
                let npages = rl0.div_ceil(pp);
                let partial_len = sl0 % pp;
                if spi < npages && partial_len != 0 {
                    match disk_pages.get(spi) {
                        Some(p) if p.raw && partial_len == p.count as usize && partial_len + pl0 < pp => "fast",
                        _ => "reenc",
                    }
                } else if pl0 == 0 {
                    "trunc"
                } else {
                    "fresh"
                }
            }
            .to_string();
            out.tags.push(format!("regime:{rg}"));
            if rg != "noop" {
                let tot = sl0 % pp + pl0;
                if tot == pp { out.tags.push("fill:exact".into()) }
                else if tot == pp + 1 { out.tags.push("fill:overflow-by-one".into()) }
                else if tot + 1 == pp { out.tags.push("fill:one-short".into()) }
                else if tot > 2 * pp { out.tags.push("fill:multi-page".into()) }
            }
        }
        if kind == "t" {
            let n: usize = parts[1].parse().unwrap();
            let len0 = sl0 + pl0;
            let t = if n >= len0 { "noop" }
                else if n > sl0 { "pushed" }
                else if n == sl0 { "pushed-all" }
                else if n % pp == 0 { if n == 0 { "to-zero" } else { "boundary" } }
                else if n / pp + 1 == rl0.div_ceil(pp) && disk_pages.last().is_some_and(|p| p.raw) { "into-raw" }
                else { "into-compressed" };
            out.tags.push(format!("trunc:{t}"));
        }

        // commits use increasing stamps (C16): a generated stamp that is not above the current one
        // (the generator cannot know which rollbacks were refused) is bumped; the I line records it
        let st_eff: u64 = if kind == "s" {
            let st: u64 = parts[1].parse().unwrap();
            let cur = u64::from(vec.as_ref().unwrap().stamp());
            if retention > 0 && st <= cur { cur + 1 } else { st }
        } else { 0 };
        // ---- fault stream: what is known right before the step ------------------------------------
        let is_fault = matches!(kind, "xd" | "xt" | "xo");
        let region_name = vec.as_ref().unwrap().region_names()[0].clone();
        let change_dir = root.join("changes").join(&region_name);
        if is_fault {
            let st: u64 = parts[1].parse().unwrap();
            let label = match kind {
                "xd" => "delete".to_string(),
                "xt" => "truncate".to_string(),
                _ => {
                    let off: usize = parts[2].parse().unwrap();
                    let val: u64 = parts[3].parse().unwrap();
                    let b = std::fs::read(change_dir.join(st.to_string())).unwrap_or_default();
                    match record_fields(&b, w).iter().find(|f| f.1 == off) {
                        Some((name, _, old)) => format!("{}:{}", name, value_kind(val, *old)),
                        None => "no-field:other".to_string(),
                    }
                }
            };
            rf.fault = Some(label);
            out.tags.push(format!("fault:{kind}"));
        }
        // C16 / C17 on a damaged record: the state before the call, the size of everything the call may read
        let faulted_rb = is_rb && rf.fault.is_some();
        let pre: Option<(Vec<u8>, u64)> = if faulted_rb {
            let v = vec.as_ref().unwrap();
            Some((le_bytes(&v.collect()), u64::from(v.stamp())))
        } else { None };
        let input_size: usize = if faulted_rb {
            let files: usize = std::fs::read_dir(&change_dir).map(|rd| rd.flatten().map(|e| e.metadata().map_or(0, |m| m.len() as usize)).sum()).unwrap_or(0);
            let (dl, _, pg) = read_regions(db.as_ref().unwrap(), vec.as_ref().unwrap());
            files + dl + pg.len()
        } else { 0 };
        if faulted_rb { crate::allocwatch::reset(); }
        // ---- execute on the real vector -----------------------------------------------------
        // Ok(Ok(b)) = returned Ok (b = write()'s result); Ok(Err(kind)) = returned an error
        let step = catch_unwind(AssertUnwindSafe(|| -> Result<bool, String> {
            match kind {
                "xd" => {
                    let st: u64 = parts[1].parse().unwrap();
                    let _ = std::fs::remove_file(change_dir.join(st.to_string()));
                    Ok(false)
                }
                "xt" => {
                    let (st, n): (u64, usize) = (parts[1].parse().unwrap(), parts[2].parse().unwrap());
                    let p = change_dir.join(st.to_string());
                    if let Ok(mut b) = std::fs::read(&p) { b.truncate(n); std::fs::write(&p, b).unwrap(); }
                    Ok(false)
                }
                "xo" => {
                    let (st, off, val): (u64, usize, u64) = (parts[1].parse().unwrap(), parts[2].parse().unwrap(), parts[3].parse().unwrap());
                    let p = change_dir.join(st.to_string());
                    if let Ok(mut b) = std::fs::read(&p) {
                        if off.checked_add(8).is_some_and(|e| e <= b.len()) { b[off..off + 8].copy_from_slice(&val.to_le_bytes()); std::fs::write(&p, b).unwrap(); }
                    }
                    Ok(false)
                }
                "p" => {
                    let vals: Vec<E> = parse_vspec::<E>(parts[1]);
                    let v = vec.as_mut().unwrap();
                    for x in &vals {
                        v.push(*x);
                    }
                    Ok(false)
                }
                "t" => {
                    let n: usize = parts[1].parse().unwrap();
                    vec.as_mut().unwrap().truncate_if_needed_at(n).map_err(|e| err_name(&e))?;
                    Ok(false)
                }
                "w" => vec.as_mut().unwrap().write().map_err(|e| err_name(&e)),
                "f" => {
                    let v = vec.as_mut().unwrap();
                    // AnyStoredVec::flush = write() + region flush; write()'s own result is not
                    // returned, it is inferred from the documented early-return condition
                    v.flush().map_err(|e| err_name(&e))?;
                    db.as_ref().unwrap().flush().map_err(|e| format!("Other:{e}"))?;
                    Ok(!(pl0 == 0 && sl0 == rl0 && !reset_pending0))
                }
                "s" => {
                    let v = vec.as_mut().unwrap();
                    v.stamped_write_with_changes(Stamp::new(st_eff)).map_err(|e| err_name(&e))?;
                    Ok(!(pl0 == 0 && sl0 == rl0 && !reset_pending0))
                }
                "r" => {
                    vec.as_mut().unwrap().reset().map_err(|e| err_name(&e))?;
                    Ok(false)
                }
                "i" | "o" => {
                    vec = None;
                    if kind == "o" {
                        // the old Database must be gone before the directory is opened again
                        db = None;
                        db = Some(open_db(tmp.path()));
                    }
                    let v = import(db.as_ref().unwrap()).map_err(|e| err_name(&e))?;
                    vec = Some(v);
                    Ok(false)
                }
                "b" => {
                    vec.as_mut().unwrap().rollback().map_err(|e| err_name(&e))?;
                    Ok(false)
                }
                "bb" => {
                    let st: u64 = parts[1].parse().unwrap();
                    let _ = vec.as_mut().unwrap().rollback_before(Stamp::new(st)).map_err(|e| err_name(&e))?;
                    Ok(false)
                }
                _ => Err("BadOp".into()),
            }
        }));
        let alloc_req = if faulted_rb { crate::allocwatch::max() } else { 0 };
        if faulted_rb {
            // C17: the decode of a damaged record never asks for more memory than its input justifies
            if alloc_req > 8 * input_size + (1 << 20) {
                out.viol.push(format!("C17:decode-of-damaged-change-record-allocates-beyond-input-comp in {} at step {k} after fault {}: one request of {alloc_req} bytes, change files + regions = {input_size} bytes",
                                      op_name(kind), rf.fault.as_deref().unwrap_or("-")));
            }
            out.tags.push(format!("decode-alloc:{}", if alloc_req <= input_size { "<=input" } else if alloc_req <= 8 * input_size + (1 << 20) { "<=8x+1M" } else { "BEYOND" }));
        }
        let (res, errk): (bool, Option<String>) = match step {
            Err(_) => {
                out.obs.push(format!("{k} panic"));
                if faulted_rb {
                    out.viol.push(format!("C17:decode-of-damaged-change-record-panics-comp in {} at step {k} after fault {}", op_name(kind), rf.fault.as_deref().unwrap_or("-")));
                }
                out.viol.push(format!("{}:panic-in-{} the call panicked at step {k}", if is_rb { "C16" } else { "C03" }, op_name(kind)));
                if rf.fault_refused && !is_rb {
                    out.viol.push(format!("C16:vector-unusable-after-refused-rollback-comp {} panicked at step {k} after a rollback of a damaged record was refused", op_name(kind)));
                }
                out.ops.push(tok_out);
                break;
            }
            Ok(Err(e)) if !is_rb => {
                out.obs.push(format!("{k} err:{e}"));
                out.viol.push(format!("C03:error-{}-in-{} an operation of a valid history returned an error at step {k}", e, op_name(kind)));
                if rf.fault_refused {
                    out.viol.push(format!("C16:vector-unusable-after-refused-rollback-comp {} returned {e} at step {k} after a rollback of a damaged record was refused", op_name(kind)));
                }
                out.ops.push(tok_out);
                break;
            }
            Ok(Err(e)) => (false, Some(e)),
            Ok(Ok(b)) => (b, None),
        };
        let v = vec.as_ref().unwrap();
        let res_s = match &errk { Some(e) => format!("err:{e}"), None => (if res { "ok1" } else { "ok0" }).to_string() };
        if faulted_rb {
            // a length the data does not back can only come from a damaged record: the vector is not read any more
            let (sl, pl, rl) = (v.stored_len(), v.pushed_len(), v.real_stored_len());
            if sl.checked_add(pl).is_none_or(|l| l > HUGE) || sl > rl {
                out.obs.push(format!("{k} {res_s} len=beyond"));
                out.viol.push(format!("C16:{}-comp in {} at step {k} after fault {}: stored_len {sl} with {rl} values on disk, stamp {}",
                                      if errk.is_some() { "failed-rollback-left-length-beyond-data" } else { "rollback-of-damaged-record-sets-length-beyond-data" },
                                      op_name(kind), rf.fault.as_deref().unwrap_or("-"), u64::from(v.stamp())));
                out.tags.push(format!("xo:{}:{}:BEYOND-DATA", rf.fault.as_deref().unwrap_or("-"), errk.as_deref().unwrap_or("ok")));
                out.ops.push(tok_out);
                break;
            }
        }
        let (line, bytes, pg, dl) = observe(k, &res_s, &rg, db.as_ref().unwrap(), v);
        out.obs.push(line);
        let pages = decode_index(&pg);
        let obs_stamp = u64::from(v.stamp());

        // ---- the reference steps ------------------------------------------------------------------
        let kind_ref = if faulted_rb { "faulted-rollback" } else { kind };
        if faulted_rb {
            let (pre_c, pre_st) = pre.as_ref().unwrap();
            let label = rf.fault.clone().unwrap_or_default();
            let unchanged = bytes == *pre_c && obs_stamp == *pre_st;
            let committed = rf.ever.iter().any(|s| s.c == bytes && s.st == obs_stamp);
            let effect = if unchanged { "unchanged" } else if committed { "committed-state" }
                else if rf.ever.iter().any(|s| s.c == bytes) { "committed-contents-other-stamp" } else { "UNCOMMITTED" };
            let r = errk.as_deref().unwrap_or("ok");
            out.tags.push(format!("xo:{label}:{r}:{effect}"));
            out.tags.push(format!("faulted-{}:{}", op_name(kind), if errk.is_some() { "refused" } else { "accepted" }));
            match &errk {
                Some(e) if kind == "b" && !unchanged => {
                    out.viol.push(format!("C16:failed-rollback-changed-vector step {k}: rollback returned {e} after fault {label} but the contents or the stamp changed ({} values stamp {obs_stamp})", bytes.len() / w));
                }
                Some(e) if !unchanged && !committed => {
                    // the damaged record is the first one rollback_before reads: a change means it was applied
                    out.viol.push(format!("C16:rollback-of-damaged-record-accepted-comp in rollback-before at step {k} after fault {label}: the damaged record was applied, then the walk returned {e} and left {} values stamp {obs_stamp} ({effect}), a state that was never committed in this history", bytes.len() / w));
                }
                None if !unchanged && !committed => {
                    out.viol.push(format!("C16:rollback-of-damaged-record-accepted-comp in {} at step {k} after fault {label}: returned Ok and left {} values stamp {obs_stamp} ({effect}), a state that was never committed in this history",
                                          op_name(kind), bytes.len() / w));
                }
                _ => {}
            }
            rf.fault_refused = errk.is_some();
            // the snapshot stack is void after a fault: follow the implementation
            rf.cur = bytes.clone();
            rf.stamp = obs_stamp;
            rf.base = Snap { c: bytes.clone(), st: obs_stamp };
            rf.undo.clear();
            rf.limbo.clear();
            rf.uncommitted = false;
            rf.bare_write = false;
        }
        match kind_ref {
            "p" => {
                let vals: Vec<E> = parse_vspec::<E>(parts[1]);
                rf.cur.extend_from_slice(&le_bytes(&vals));
                rf.uncommitted = true;
            }
            "t" => {
                let n: usize = parts[1].parse().unwrap();
                if n * w < rf.cur.len() {
                    rf.cur.truncate(n * w);
                    rf.uncommitted = true;
                }
            }
            "r" => {
                rf.cur.clear();
                rf.stamp = 0;
                rf.reset_pending = true;
                rf.undo.clear();
                rf.limbo.clear();
                rf.bare_taint = false;
                rf.base = Snap { c: vec![], st: 0 };
                rf.uncommitted = false;
                rf.bare_write = false;
            }
            "i" | "o" => {
                rf.cur = rf.saved.clone();
                rf.stamp = rf.saved_stamp;
                rf.base = Snap { c: rf.cur.clone(), st: rf.stamp };
                let mut l = std::mem::take(&mut rf.limbo);
                rf.undo.append(&mut l);
                rf.undo.sort_by_key(|r| r.0);
                rf.uncommitted = false;
                rf.bare_write = false;
            }
            "s" => {
                let st: u64 = st_eff;
                if retention > 0 {
                    let curst = rf.stamp;
                    rf.undo.retain(|r| r.0 < st && r.0 <= curst);
                    let keep = retention as usize - 1;
                    if rf.undo.len() > keep {
                        let ex = rf.undo.len() - keep;
                        rf.undo.drain(0..ex);
                    }
                    rf.undo.push((st, rf.base.clone()));
                    rf.bare_recs.retain(|x| *x < st);
                    if rf.bare_write { rf.bare_recs.push(st); }
                    out.tags.push(format!("commit:{}", if rf.uncommitted { if rf.cur.len() < rf.base.c.len() { "shrinking" } else { "edited" } } else { "no-change" }));
                }
                rf.stamp = st;
                rf.base = Snap { c: rf.cur.clone(), st };
                rf.ever.push(Snap { c: bytes.clone(), st: obs_stamp });
                rf.limbo.clear();
                rf.uncommitted = false;
                rf.bare_write = false;
            }
            "w" | "f" => {
                if res {
                    rf.limbo.clear();
                    if retention > 0 {
                        rf.bare_write = true;
                        rf.bare_taint = true;
                        out.tags.push("rollback-class:bare-write-between-commits".into());
                    }
                }
            }
            "b" => {
                let clean = !rf.uncommitted && !rf.bare_write;
                let was_bare = rf.bare_write || rf.bare_taint || rf.bare_recs.contains(&rf.stamp);
                match (rf.entry(rf.stamp), &errk) {
                    (Some(i), None) => {
                        let want = rf.undo[i].1.clone();
                        rf.apply(i);
                        out.tags.push("rollback:applied".into());
                        if bytes != want.c || obs_stamp != want.st {
                            let key = if rf.noop_bb_dirty { "C16:rollback-restores-uncommitted-edits-rebased-by-noop-rollback-before" } else { "C04:rollback-result-differs-from-previous-commit" };
                            rf.noop_bb_dirty = false;
                            if was_bare {
                                out.tags.push("rollback-class:result-after-bare-write-differs".into());
                            } else {
                            out.viol.push(format!("{key} step {k}: rollback returned {} values stamp {obs_stamp}, the previous committed state has {} values stamp {}", bytes.len() / w, want.c.len() / w, want.st));
                            }
                            rf.cur = bytes.clone();
                            rf.stamp = obs_stamp;
                            rf.base = Snap { c: bytes.clone(), st: obs_stamp };
                        }
                    }
                    (Some(_), Some(e)) => {
                        if bytes != rf.cur || obs_stamp != rf.stamp {
                            out.viol.push(format!("C16:failed-rollback-changed-vector step {k}: rollback returned {e} but the contents or the stamp changed"));
                            rf.cur = bytes.clone();
                            rf.stamp = obs_stamp;
                        }
                        if was_bare {
                            // outside C04's quantifier (plain write() between commits): model level only
                            out.tags.push("rollback-class:record-after-bare-write-refused".into());
                        } else if clean && rf.prev_rb_ok && e == "IndexTooHigh" {
                            out.viol.push(format!("C04:chained-rollback-refused-after-undoing-a-truncating-commit step {k}: the previous rollback left stored_len at the truncation point; the retained record of stamp {} is refused with IndexTooHigh", rf.stamp));
                        } else if clean {
                            out.viol.push(format!("C04:rollback-within-retention-refused-{e} step {k}: the record of stamp {} is retained and nothing was edited since, yet rollback() returned {e}", rf.stamp));
                        } else {
                            out.tags.push("rollback:refused-with-uncommitted-edits".into());
                        }
                    }
                    (None, None) => {
                        out.viol.push(format!("C16:rollback-without-retained-record-succeeded step {k}: no undo record for stamp {} is retained (beyond retention or abandoned) but rollback() returned Ok", rf.stamp));
                        rf.cur = bytes.clone();
                        rf.stamp = obs_stamp;
                        rf.base = Snap { c: bytes.clone(), st: obs_stamp };
                    }
                    (None, Some(e)) => {
                        out.tags.push("rollback:beyond-retention-refused".into());
                        if bytes != rf.cur || obs_stamp != rf.stamp {
                            out.viol.push(format!("C16:failed-rollback-changed-vector step {k}: rollback returned {e} but the contents or the stamp changed"));
                            rf.cur = bytes.clone();
                            rf.stamp = obs_stamp;
                        }
                    }
                }
            }
            "bb" => {
                let target: u64 = parts[1].parse().unwrap();
                let clean = !rf.uncommitted && !rf.bare_write && !rf.bare_taint;
                // the committed states the walk passes through, newest first
                let mut passed: Vec<Snap> = vec![Snap { c: rf.cur.clone(), st: rf.stamp }];
                let mut und = rf.undo.clone();
                let mut lim: Vec<(u64, Snap)> = vec![];
                let mut missing = false;
                loop {
                    let cs = passed.last().unwrap().st;
                    if cs < target {
                        break;
                    }
                    match und.iter().position(|r| r.0 == cs) {
                        Some(i) => {
                            let (rs, sn) = und.remove(i);
                            passed.push(sn.clone());
                            lim.push((rs, sn));
                        }
                        None => {
                            missing = und.iter().any(|r| r.0 < cs);
                            break;
                        }
                    }
                }
                let obs = Snap { c: bytes.clone(), st: obs_stamp };
                let applied = passed.len() - 1;
                match &errk {
                    None => {
                        if obs != *passed.last().unwrap() && rf.bare_taint {
                            out.tags.push("rollback-class:result-after-bare-write-differs".into());
                        } else if obs != *passed.last().unwrap() {
                            out.viol.push(format!("C04:rollback-before-result-differs step {k}: rollback_before({target}) ended on {} values stamp {obs_stamp}, the reference ends on {} values stamp {}", bytes.len() / w, passed.last().unwrap().c.len() / w, passed.last().unwrap().st));
                        }
                        out.tags.push(format!("rollback-before:applied-{}", applied.min(3)));
                        if applied == 0 && rf.uncommitted {
                            rf.noop_bb_dirty = true;
                            out.tags.push("rollback-before:noop-over-uncommitted-edits".into());
                        }
                    }
                    Some(e) => {
                        if !passed.contains(&obs) {
                            out.viol.push(format!("C16:failed-rollback-before-left-uncommitted-state step {k}: rollback_before({target}) returned {e} and left {} values stamp {obs_stamp}, not one of the committed states it passed through", bytes.len() / w));
                        } else if applied > 0 && clean && !missing && e == "IndexTooHigh" && rf.bare_recs.is_empty() {
                            out.viol.push(format!("C04:rollback-before-stops-midway-at-a-truncating-commit step {k}: rollback_before({target}) undid a truncating commit and then refused the next retained record with IndexTooHigh, leaving stamp {obs_stamp}"));
                        } else if applied > 0 && clean && !missing && rf.bare_recs.is_empty() {
                            out.viol.push(format!("C04:rollback-before-within-retention-refused-{e} step {k}: {applied} retained records lead below stamp {target}, nothing was edited since the last commit, yet rollback_before returned {e}"));
                        }
                        out.tags.push("rollback-before:refused".into());
                    }
                }
                // follow the implementation: consume as many entries as it did
                let n_done = passed.iter().position(|s| *s == obs).unwrap_or(applied);
                for _ in 0..n_done {
                    if let Some(i) = rf.entry(rf.stamp) {
                        rf.apply(i);
                    }
                }

                rf.cur = bytes.clone();
                rf.stamp = obs_stamp;
                if n_done > 0 { rf.base = Snap { c: bytes.clone(), st: obs_stamp }; rf.prev_rb_ok = true; }
            }
            _ => {}
        }

        if is_rb && errk.is_none() { rf.prev_rb_ok = true; } else if kind == "s" || kind == "r" { rf.prev_rb_ok = false; }
        if is_write {
            // the hints of this write: the real `bytes` of every page now on disk
            let hints = if pages.is_empty() { "-".to_string() } else { pages.iter().map(|p| p.bytes.to_string()).collect::<Vec<_>>().join(",") };
            tok_out = match kind {
                "s" => format!("s:{}:{}", st_eff, hints),
                _ => format!("{kind}:{hints}"),
            };
            // reference: what a re-import must return from now on
            rf.saved = rf.cur.clone();
            rf.saved_stamp = rf.stamp;
            if res {
                rf.reset_pending = false;
                rf.reset_stale = false;
            } else if rf.reset_pending && !pages.is_empty() {
                rf.reset_stale = true;
            }
        }
        out.ops.push(tok_out);

        // ---- oracle (a): the reference vector ------------------------------------------------
        let opn = op_name(kind);
        let known_reset = (kind == "i" || kind == "o") && rf.reset_stale;
        if v.len() * w != rf.cur.len() || bytes != rf.cur {
            if known_reset {
                out.viol.push(format!(
                    "C03:compressed-reset-not-persisted reset(); write()/flush() returned without rewriting the page index; re-import at step {k} returned {} values, the reference has {}",
                    v.len(), rf.cur.len() / w));
            } else if v.len() * w != rf.cur.len() {
                out.viol.push(format!("C03:len-differs-from-reference-after-{opn} step {k}: len {} reference {}", v.len(), rf.cur.len() / w));
            } else {
                let at = bytes.iter().zip(rf.cur.iter()).position(|(a, b)| a != b).unwrap_or(0) / w;
                out.viol.push(format!("C03:contents-differ-from-reference-after-{opn} step {k}: first differing index {at}"));
            }
            // resynchronise so that later steps are still compared
            rf.cur = bytes.clone();
            rf.saved = bytes.clone();
        }
        if obs_stamp != rf.stamp {
            if !known_reset {
                out.viol.push(format!("C03:stamp-differs-from-reference-after-{opn} step {k}: stamp {obs_stamp} reference {}", rf.stamp));
            }
            rf.stamp = obs_stamp;
        }
        if kind == "i" || kind == "o" {
            rf.reset_pending = false;
            rf.reset_stale = false;
            out.tags.push("reimport".into());
        }

        // ---- oracle (b): the on-disk page index -------------------------------------------------
        if is_write || kind == "i" || kind == "o" {
            let stale = is_write && rf.reset_stale;
            check_index(&pg, &pages, dl, v.stored_len(), w, pp, k, stale, &mut out.viol);
        }
        disk_pages = pages;
    }
    if let Some(v) = vec.as_ref() {
        let st = u64::from(v.stamp());
        if let Ok(b) = std::fs::read(root.join("changes").join(&v.region_names()[0]).join(st.to_string())) {
            out.record = Some((st, b));
        }
    }
}

fn op_name(kind: &str) -> &'static str {
    match kind {
        "p" => "push",
        "t" => "truncate",
        "w" => "write",
        "f" => "flush",
        "s" => "stamped-write",
        "r" => "reset",
        "i" => "reimport",
        "b" => "rollback",
        "bb" => "rollback-before",
        "o" => "reopen",
        "xd" => "fault-delete",
        "xt" => "fault-truncate",
        "xo" => "fault-overwrite",
        _ => "op",
    }
}

/// Oracle (b): "the page index describes a gap-free run of pages starting right after the header,
/// in which every page but the last is full, only the last may be stored uncompressed, the page
/// value counts add up to the stored length, and the data region ends where the last page ends."
fn check_index(raw: &[u8], pages: &[DPage], data_len: usize, stored_len: usize, w: usize, pp: usize, k: usize, stale: bool, viol: &mut Vec<String>) {
    if raw.len() % 16 != 0 {
        viol.push(format!("C07:index-length-not-multiple-of-entry-size step {k}: {} bytes", raw.len()));
    }
    let mut next = HEADER_OFFSET as u64;
    let mut sum = 0usize;
    for (i, p) in pages.iter().enumerate() {
        let last = i + 1 == pages.len();
        if i == 0 && p.start != HEADER_OFFSET as u64 {
            viol.push(format!("C07:index-first-page-not-right-after-header step {k}: start {}", p.start));
        } else if p.start != next {
            viol.push(format!("C07:index-gap-or-overlap step {k}: page {i} starts at {} but the previous page ends at {next}", p.start));
        }
        if !last && p.count as usize != pp {
            viol.push(format!("C07:index-nonlast-page-not-full step {k}: page {i} holds {} of {pp} values", p.count));
        }
        if !last && p.raw {
            viol.push(format!("C07:index-nonlast-page-raw step {k}: page {i}"));
        }
        if last && (p.count == 0 || p.count as usize > pp) {
            viol.push(format!("C07:index-last-page-empty-or-overfull step {k}: {} values", p.count));
        }
        if p.raw && p.bytes as usize != p.count as usize * w {
            viol.push(format!("C07:index-raw-page-bytes-ne-count-times-size step {k}: page {i} bytes {} count {}", p.bytes, p.count));
        }
        next = p.start + p.bytes as u64;
        sum += p.count as usize;
    }
    if sum != stored_len {
        if stale {
            viol.push(format!("C07:compressed-reset-not-persisted reset(); write() at step {k} returned without rewriting the page index: it still describes {sum} values, stored_len is {stored_len}"));
        } else {
            viol.push(format!("C07:index-value-counts-ne-stored-len step {k}: index {sum} stored_len {stored_len}"));
        }
    }
    if data_len as u64 != next && !stale {
        viol.push(format!("C07:data-region-end-ne-last-page-end step {k}: region length {data_len}, last page ends at {next}"));
    }
}

// ------------------------------------------------------------------------------------------------
fn dispatch(fmt: &str, ty: &str, retention: u16, ops: &[String], out: &mut Out) -> bool {
    macro_rules! go {
        ($v:ident, $t:ty) => {{
            if fmt.starts_with('e') {
                run_case::<EagerVec<$v<usize, $t>>, $t>(retention, ops, out)
            } else {
                run_case::<$v<usize, $t>, $t>(retention, ops, out)
            }
            true
        }};
    }
    let base = fmt.trim_start_matches('e');
    match (base, ty) {
        ("pco", "u8") => go!(PcoVec, u8),
        ("pco", "u16") => go!(PcoVec, u16),
        ("pco", "u32") => go!(PcoVec, u32),
        ("pco", "u64") => go!(PcoVec, u64),
        ("pco", "i64") => go!(PcoVec, i64),
        ("pco", "f32") => go!(PcoVec, f32),
        ("pco", "f64") => go!(PcoVec, f64),
        ("lz4", "u8") => go!(LZ4Vec, u8),
        ("lz4", "u16") => go!(LZ4Vec, u16),
        ("lz4", "u32") => go!(LZ4Vec, u32),
        ("lz4", "u64") => go!(LZ4Vec, u64),
        ("lz4", "i64") => go!(LZ4Vec, i64),
        ("lz4", "f32") => go!(LZ4Vec, f32),
        ("lz4", "f64") => go!(LZ4Vec, f64),
        ("lz4", "u128") => go!(LZ4Vec, u128),
        ("lz4", "a3") => go!(LZ4Vec, [u8; 3]),
        ("zstd", "u8") => go!(ZstdVec, u8),
        ("zstd", "u16") => go!(ZstdVec, u16),
        ("zstd", "u32") => go!(ZstdVec, u32),
        ("zstd", "u64") => go!(ZstdVec, u64),
        ("zstd", "i64") => go!(ZstdVec, i64),
        ("zstd", "f32") => go!(ZstdVec, f32),
        ("zstd", "f64") => go!(ZstdVec, f64),
        ("zstd", "u128") => go!(ZstdVec, u128),
        ("zstd", "a3") => go!(ZstdVec, [u8; 3]),
        _ => false,
    }
}

fn width_of(ty: &str) -> usize {
    match ty {
        "u8" => 1,
        "u16" => 2,
        "a3" => 3,
        "u32" | "f32" => 4,
        "u64" | "i64" | "f64" => 8,
        "u128" => 16,
        _ => 8,
    }
}

// ------------------------------------------------------------------------------------------------
// state-aware generator: tracks (stored, pushed, written length) with the reference semantics
struct GenState {
    len: usize,       // logical length
    stored: usize,    // min(stored_len) view: values at or below which are on disk
    written: usize,   // length as of the last write
}

fn gen_case(rng: &mut Rng) -> (String, String, u16, Vec<String>) {
    let fmts = ["pco", "lz4", "zstd", "epco", "pco", "lz4", "zstd", "ezstd", "elz4"];
    let fmt = *rng.pick(&fmts);
    let tys: &[&str] = if fmt.ends_with("pco") {
        &["u64", "u64", "i64", "u32", "u8", "f32", "f64", "u16"]
    } else {
        &["u64", "i64", "u32", "u8", "f32", "f64", "u128", "u128", "a3", "u16"]
    };
    let ty = *rng.pick(tys);
    let w = width_of(ty);
    let pp = PAGE_BYTES / w;
    let allow_reset = rng.chance(55, 100);
    let big = rng.chance(12, 100); // histories that go beyond two pages
    let cap = if big { 4 * pp + 7 } else { 2 * pp + pp / 2 };
    let nops = rng.range(6, if big { 16 } else { 26 }) as usize;
    let mut g = GenState { len: 0, stored: 0, written: 0 };
    let mut ops: Vec<String> = vec![];
    let mut stamp = 0u64;
    let classes: &[u8] = match ty {
        "f32" | "f64" => b"ffferqcs",
        _ => b"eerrqcss",
    };
    for _ in 0..nops {
        let r = rng.below(100);
        if r < 38 {
            // push: 1 … 3 pages, exactly filling, overflowing by one, one short
            let room = pp - g.len % pp; // 1..=pp values until the next boundary
            let n = match rng.below(12) {
                0 => 1,
                1 | 2 => rng.range(2, 20) as usize,
                3 | 4 => room,
                5 => room + 1,
                6 => room.saturating_sub(1).max(1),
                7 => pp,
                8 => rng.range(1, pp as u64) as usize,
                9 => rng.range(pp as u64, 3 * pp as u64) as usize,
                10 => room + pp,
                _ => rng.range(1, (pp / 8).max(2) as u64) as usize,
            };
            let n = n.min(cap.saturating_sub(g.len)).max(1);
            if g.len + n > cap + 1 {
                continue;
            }
            let cls = *rng.pick(classes) as char;
            let seed = if cls == 'c' || cls == 'q' { match rng.below(4) { 0 => 0, 1 => u64::MAX, 2 => rng.below(300), _ => rng.next() } } else { rng.next() >> 1 };
            ops.push(format!("p:{cls}.{seed}.{n}"));
            g.len += n;
        } else if r < 56 {
            // truncate: into the raw page, into a compressed page, on a boundary, within pushed, no-op
            let n = match rng.below(10) {
                0 => g.len + rng.below(3) as usize,                       // no-op
                1 => 0,
                2 | 3 => (g.len / pp) * pp,                                // boundary below
                4 => ((g.len / pp).saturating_sub(1)) * pp,               // an earlier boundary
                5 | 6 => { let lo = (g.len / pp) * pp; if g.len > lo { lo + 1 + rng.below((g.len - lo - 1) as u64) as usize } else { g.len.saturating_sub(1) } } // into the last page
                7 => if g.len >= pp { rng.below(pp as u64) as usize + (rng.below((g.len / pp) as u64) as usize) * pp } else { rng.below(g.len as u64 + 1) as usize }, // into a full page
                8 => g.len.saturating_sub(1),
                _ => rng.below(g.len as u64 + 1) as usize,
            };
            ops.push(format!("t:{n}"));
            if n < g.len {
                g.len = n;
                g.stored = g.stored.min(n);
            }
        } else if r < 80 {
            let k = rng.below(10);
            if k < 6 {
                ops.push("w:-".into());
            } else if k < 8 {
                ops.push("f:-".into());
            } else {
                stamp = match rng.below(3) { 0 => stamp, 1 => stamp + 1, _ => rng.below(1 << 20) };
                ops.push(format!("s:{stamp}:-"));
            }
            g.stored = g.len;
            g.written = g.len;
        } else if r < 86 && allow_reset {
            ops.push("r".into());
            g.len = 0;
            g.stored = 0;
        } else if r < 96 {
            ops.push(if rng.chance(1, 3) { "o".into() } else { "i".into() });
            // the logical length after a re-import is the written one (the harness tracks the real one)
            g.len = g.written;
            g.stored = g.written;
        } else {
            // write immediately followed by re-import: the C07/C03 re-import clause
            ops.push("f:-".into());
            ops.push("i".into());
            g.stored = g.len;
            g.written = g.len;
        }
    }
    if rng.chance(1, 2) {
        ops.push("w:-".into());
        ops.push("i".into());
    }
    (fmt.to_string(), ty.to_string(), 0, ops)
}

/// commit / rollback histories (C04, C16): retention 1..4, edits between commits including
/// truncation below the stored length and page-crossing pushes, rollback bursts of depth 1..k+1,
/// rollback_before, continuations (push, write, commit, re-import, roll back again)
fn gen_rollback_case(rng: &mut Rng) -> (String, String, u16, Vec<String>) {
    let fmts = ["pco", "lz4", "zstd", "pco", "lz4", "zstd", "epco", "ezstd"];
    let fmt = *rng.pick(&fmts);
    let tys: &[&str] = if fmt.ends_with("pco") { &["u64", "u64", "i64", "u32", "f64", "u16"] } else { &["u64", "u128", "u128", "u32", "f64", "a3", "i64"] };
    let ty = *rng.pick(tys);
    let w = width_of(ty);
    let pp = PAGE_BYTES / w;
    let k = rng.range(1, 4) as u16;
    let allow_bare = rng.chance(25, 100);
    let allow_reset = rng.chance(15, 100);
    let nops = rng.range(8, 26) as usize;
    let cap = 2 * pp + pp / 2;
    let mut len = 0usize;
    let mut lens: Vec<(u64, usize)> = vec![]; // (stamp, length) of the commits
    let mut stamp = 0u64;
    let mut ops: Vec<String> = vec![];
    let classes: &[u8] = match ty { "f32" | "f64" => b"ffrqs", _ => b"erqss" };
    let mut n = 0;
    while n < nops {
        n += 1;
        let r = rng.below(100);
        if r < 30 {
            let room = pp - len % pp;
            let cnt = match rng.below(10) {
                0 => 1,
                1 | 2 | 3 | 4 => rng.range(2, 40) as usize,
                5 => room,
                6 => room + 1,
                7 => pp,
                8 => rng.range(pp as u64 / 2, pp as u64 + pp as u64 / 2) as usize,
                _ => rng.range(1, (pp / 4).max(2) as u64) as usize,
            };
            let cnt = cnt.min(cap.saturating_sub(len)).max(1);
            let cls = *rng.pick(classes) as char;
            let seed = if cls == 'q' { rng.below(1000) } else { rng.next() >> 1 };
            ops.push(format!("p:{cls}.{seed}.{cnt}"));
            len += cnt;
        } else if r < 44 {
            let t = match rng.below(8) {
                0 => len + 1,
                1 => 0,
                2 => (len / pp) * pp,
                3 => lens.last().map_or(0, |l| l.1.saturating_sub(1 + rng.below(5) as usize)),   // just below the last commit
                4 => lens.last().map_or(0, |l| l.1),
                5 => len.saturating_sub(1),
                _ => rng.below(len as u64 + 1) as usize,
            };
            ops.push(format!("t:{t}"));
            len = len.min(t);
        } else if r < 70 {
            // strictly above the current stamp (C16: "commits with increasing stamps"); after a
            // rollback this re-uses stamps of the abandoned future
            stamp = stamp + 1 + rng.below(3);
            ops.push(format!("s:{stamp}:-"));
            lens.retain(|l| l.0 < stamp);
            lens.push((stamp, len));
        } else if r < 84 {
            let depth = rng.range(1, k as u64 + 1);
            for _ in 0..depth {
                ops.push("b".into());
                if let Some(l) = lens.pop() {
                    len = lens.last().map_or(0, |x| x.1);
                    stamp = lens.last().map_or(0, |x| x.0);
                    let _ = l;
                }
            }
        } else if r < 89 {
            let target = match rng.below(4) {
                0 => 0,
                1 => stamp,
                2 => stamp + 1,
                _ => lens.get(rng.below(lens.len().max(1) as u64) as usize).map_or(0, |l| l.0),
            };
            ops.push(format!("bb:{target}"));
            while lens.last().is_some_and(|l| l.0 >= target) {
                lens.pop();
            }
            len = lens.last().map_or(0, |x| x.1);
            stamp = lens.last().map_or(0, |x| x.0);
        } else if r < 95 {
            ops.push(if rng.chance(1, 4) { "o".into() } else { "i".into() });
        } else if r < 98 {
            if allow_bare {
                ops.push(if rng.chance(1, 2) { "w:-".into() } else { "f:-".into() });
            }
        } else if allow_reset {
            ops.push("r".into());
            len = 0;
            stamp = 0;
            lens.clear();
        }
    }
    (fmt.to_string(), ty.to_string(), k, ops)
}

/// base histories of the fault stream (C16 / C17): retention 1..4, 1..k+2 commits with edits in
/// between, ending right after a commit whose record has one of the shapes append-only / truncating /
/// truncate-then-push / no-change / made after the rollback of a truncating commit (prev_pushed non-empty)
fn gen_fault_base(rng: &mut Rng, ty: &str) -> (u16, Vec<String>) {
    let w = width_of(ty);
    let pp = PAGE_BYTES / w;
    let k = rng.range(1, 4) as u16;
    // 0: records of a few values (every byte offset is enumerated), 1: up to a quarter page, 2: page-crossing
    let size_class = match rng.below(10) { 0..=6 => 0, 7 | 8 => 1, _ => 2 };
    let classes: &[u8] = match ty { "f32" | "f64" => b"ffrqs", _ => b"erqss" };
    let mut ops: Vec<String> = vec![];
    let mut len = 0usize;
    let mut committed_len = 0usize;
    let mut stamp = 0u64;
    let push = |rng: &mut Rng, ops: &mut Vec<String>, len: &mut usize, big_ok: bool| {
        let room = pp - *len % pp;
        let cnt = match size_class {
            0 => rng.range(1, 6) as usize,
            1 => match rng.below(4) { 0 => rng.range(1, 6) as usize, 1 => rng.range(7, 40) as usize, _ => rng.range(1, (pp / 4).max(2) as u64) as usize },
            _ => match rng.below(5) { 0 => room, 1 => room + 1, 2 => pp, 3 => rng.range(1, 40) as usize, _ => rng.range(pp as u64 / 2, pp as u64 + pp as u64 / 2) as usize },
        };
        let cnt = if big_ok { cnt } else { cnt.min(6) };
        let cnt = cnt.min((2 * pp + pp / 2).saturating_sub(*len)).max(1);
        let cls = *rng.pick(classes) as char;
        let seed = if cls == 'q' { rng.below(1000) } else { rng.next() >> 1 };
        ops.push(format!("p:{cls}.{seed}.{cnt}"));
        *len += cnt;
    };
    let ncommits = rng.range(1, k as u64 + 2) as usize;
    for _ in 0..ncommits.saturating_sub(1) {
        for _ in 0..rng.range(1, 3) {
            if len > 0 && rng.chance(1, 5) {
                let t = match rng.below(4) { 0 => 0, 1 => committed_len.saturating_sub(1 + rng.below(3) as usize), 2 => len - 1, _ => rng.below(len as u64 + 1) as usize };
                ops.push(format!("t:{t}"));
                len = len.min(t);
            } else {
                push(rng, &mut ops, &mut len, true);
            }
        }
        stamp += 1 + rng.below(3);
        ops.push(format!("s:{stamp}:-"));
        committed_len = len;
        if rng.chance(1, 10) { ops.push(if rng.chance(1, 3) { "o".into() } else { "i".into() }); }
    }
    // the commit whose record is damaged
    match rng.below(20) {
        0..=8 => push(rng, &mut ops, &mut len, true),                                  // append-only
        9..=12 if len > 0 => {                                                          // truncating
            let t = match rng.below(3) { 0 => len - 1, 1 => len.saturating_sub(1 + rng.below(5) as usize), _ => rng.below(len as u64) as usize };
            ops.push(format!("t:{t}")); len = t;
        }
        13..=15 if len > 0 => {                                                         // truncate then push
            let t = len.saturating_sub(1 + rng.below(4) as usize);
            ops.push(format!("t:{t}")); len = t;
            push(rng, &mut ops, &mut len, false);
        }
        16 => {}                                                                        // no change
        17..=19 if len > 1 => {
            // a truncating commit, rolled back (its values now ride in `pushed` and `prev_pushed`), then edited
            let t = len.saturating_sub(1 + rng.below(4) as usize);
            ops.push(format!("t:{t}"));
            stamp += 1;
            ops.push(format!("s:{stamp}:-"));
            ops.push("b".into());
            stamp -= 1; // the rollback returns to the previous commit (length `len`, unchanged here)
            if rng.chance(2, 3) { push(rng, &mut ops, &mut len, false); }
        }
        _ => push(rng, &mut ops, &mut len, true),
    }
    stamp += 1 + rng.below(3);
    ops.push(format!("s:{stamp}:-"));
    (k, ops)
}

/// one family of the fault stream: the base history, then every single fault on the newest record
fn run_family(fmt: &str, ty: &str, rng: &mut Rng, seed: u64, case_no: &mut u64, budget: usize) {
    let (k, base) = gen_fault_base(rng, ty);
    let mut out = Out { ops: vec![], obs: vec![], viol: vec![], tags: vec![], record: None };
    let next_id = |case_no: &mut u64| { let id = format!("{}-{}", seed, *case_no); *case_no += 1; id };
    if !dispatch(fmt, ty, k, &base, &mut out) {
        emit(&next_id(case_no), fmt, ty, k, &base);
        return;
    }
    // the executed history with the stamps the commits really used
    let base: Vec<String> = out.ops.iter().map(|t| strip_hints(t)).collect();
    let (stamp_now, bytes) = match (&out.record, out.viol.is_empty()) {
        (Some(r), true) => r.clone(),
        _ => {
            // no record to damage (or the base history is itself a finding): the plain case
            let mut ops = base.clone();
            ops.push("b".into());
            emit(&next_id(case_no), fmt, ty, k, &ops);
            return;
        }
    };
    let mut faults: Vec<String> = vec![format!("xd:{stamp_now}")];
    for (_, off, val) in record_fields(&bytes, width_of(ty)) {
        for v in [0u64, 1, 1 << 32, 1 << 63, u64::MAX, val.wrapping_add(1), val.wrapping_sub(1)] {
            if v != val && !faults.contains(&format!("xo:{stamp_now}:{off}:{v}")) { faults.push(format!("xo:{stamp_now}:{off}:{v}")); }
        }
    }
    // truncation at EVERY byte offset of a record of at most 512 bytes, 64 sampled offsets otherwise;
    // a budget that cannot hold them all keeps an evenly spaced subset (the last offsets included)
    let mut offs: Vec<usize> = if bytes.len() <= 512 { (0..bytes.len()).collect() }
        else { let mut o: Vec<usize> = (0..64).map(|_| rng.below(bytes.len() as u64) as usize).collect(); o.push(bytes.len() - 1); o.sort(); o.dedup(); o };
    let room = budget.saturating_sub(faults.len()).max(8);
    if offs.len() > room {
        let n = offs.len();
        let mut keep: Vec<usize> = (0..room).map(|i| offs[i * n / room]).collect();
        keep.push(offs[n - 1]);
        keep.sort(); keep.dedup();
        offs = keep;
    }
    for n in offs { faults.push(format!("xt:{stamp_now}:{n}")); }
    for (j, f) in faults.iter().enumerate() {
        if j >= budget { break; }
        let mut ops = base.clone();
        ops.push(f.clone());
        ops.push(if j % 3 == 2 { format!("bb:{}", rng.below(stamp_now + 1)) } else { "b".into() });
        // continuation: the vector must still be usable
        ops.push("p:q.7.1".into());
        ops.push("w:-".into());
        let id = next_id(case_no);
        crate::util::running(&id, &format!("{fmt} {ty} v=2 k={k} {}", ops.join(" ")));
        emit(&id, fmt, ty, k, &ops);
    }
}

fn strip_hints(tok: &str) -> String {
    let p: Vec<&str> = tok.split(':').collect();
    match p[0] {
        "w" | "f" => format!("{}:-", p[0]),
        "s" => format!("s:{}:-", p[1]),
        _ => tok.to_string(),
    }
}

fn emit(id: &str, fmt: &str, ty: &str, retention: u16, ops: &[String]) {
    let mut out = Out { ops: vec![], obs: vec![], viol: vec![], tags: vec![], record: None };
    let ok = dispatch(fmt, ty, retention, ops, &mut out);
    if !ok {
        println!("I {id} {fmt} {ty} v=2 k={retention} {}", ops.join(" "));
        println!("O {id} 0 err:UnsupportedTypeForFormat");
        return;
    }
    // ops not executed (after an error) are dropped from the input line: the line is what ran
    println!("I {id} {fmt} {ty} v=2 k={retention} {}", out.ops.join(" "));
    for o in &out.obs {
        println!("O {id} {o}");
    }
    for v in &out.viol {
        println!("V {id} {v}");
    }
    out.tags.sort();
    out.tags.dedup();
    for t in &out.tags {
        println!("M {id} {t}");
    }
}

pub fn run(args: &[String]) -> i32 {
    let a = parse_args(args);
    std::panic::set_hook(Box::new(|_| {}));
    if let Some(path) = a.replay {
        for (id, rest) in replay_inputs(&path) {
            let t: Vec<&str> = rest.split_whitespace().collect();
            if t.len() < 4 {
                continue;
            }
            let k: u16 = t[3].strip_prefix("k=").and_then(|x| x.parse().ok()).unwrap_or(0);
            let ops: Vec<String> = t[4..].iter().map(|s| strip_hints(s)).collect();
            if ops.iter().any(|o| o.starts_with('x')) { crate::util::running(&id, &rest); }
            emit(&id, t[0], t[1], k, &ops);
        }
        return 0;
    }
    // --mode hist (retention 0: C07 / C03) | rollback (retention 1..4: C04 / C16) | mixed (default)
    let mode = a.rest.iter().position(|x| x == "--mode").and_then(|i| a.rest.get(i + 1)).map(|s| s.as_str()).unwrap_or("mixed").to_string();
    let mut rng = Rng::new(a.seed);
    if a.rest.iter().any(|x| x == "--faults") {
        // fault stream (C16 / C17): families of single-fault cases; all three codecs in rotation, u64 and narrower / wider types
        let fmts = ["pco", "lz4", "zstd", "pco", "lz4", "zstd", "epco", "elz4", "ezstd"];
        let mut n: u64 = 0;
        let mut fam = a.seed as usize;
        while n < a.cases {
            let fmt = fmts[fam % fmts.len()];
            fam += 1;
            let tys: &[&str] = if fmt.ends_with("pco") { &["u64", "u64", "u32", "u16", "i64", "f64"] } else { &["u64", "u64", "u32", "u16", "u128", "a3"] };
            let ty = *rng.pick(tys);
            let budget = ((a.cases - n) as usize).min(700);
            run_family(fmt, ty, &mut rng, a.seed, &mut n, budget);
        }
        return 0;
    }
    for id in 0..a.cases {
        let rb = match mode.as_str() { "hist" => false, "rollback" => true, _ => rng.chance(35, 100) };
        let (fmt, ty, k, ops) = if rb { gen_rollback_case(&mut rng) } else { gen_case(&mut rng) };
        emit(&id.to_string(), &fmt, &ty, k, &ops);
    }
    0
}
