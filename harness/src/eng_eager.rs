//! Engine `eager` (C06, C19): random histories on REAL `EagerVec<BytesVec>` / `EagerVec<PcoVec>`
//! outputs over real stored sources.  One case = one method, one output vector, one history:
//! grow sources, truncate + regrow, change source versions, compute calls with a chosen
//! `max_from` and batch cap (via `verif_hooks::MAX_CACHE_SIZE`), `write()`, flush + drop +
//! re-import, change of the vector's own version.
//!
//! Line protocol (AGENT_GUIDE.md): `I` = method, format, parameters and the whole history;
//! `O` = one observation per observable op; `V` = spec-level violation found by the
//! implementation-only oracles below (no model involved); `M` = distribution tags.
//!
//! Spec-level oracles (C06): after a compute call whose `max_from` was valid for every source
//! change since the previous call, `collect()`/`len()` of the incrementally maintained vector
//! must equal a one-shot run of the same real method on a fresh vector over the current sources.
//! (C19): version unchanged => no index below min(max_from, len before) is evaluated or altered;
//! version changed => evaluated indices are exactly [0, target) and the result is the
//! from-scratch one; the recorded version is the presented one and survives write + re-import.
use crate::rng::Rng;
use std::cell::RefCell;
use std::panic::{AssertUnwindSafe, catch_unwind};
use vecdb::{
    AnyStoredVec, AnyVec, BinaryTransform, BytesVec, Database, EagerVec, Exit, ImportableVec,
    PcoVec, ReadableVec, StoredVec, Version, WritableVec,
};

type UszVec = EagerVec<BytesVec<usize, usize>>;
const INF_BYTES: usize = 1 << 30;

pub trait Fmt {
    type V64: StoredVec<I = usize, T = u64> + ImportableVec;
    const NAME: &'static str;
}
struct Raw;
struct Pco;
impl Fmt for Raw {
    type V64 = BytesVec<usize, u64>;
    const NAME: &'static str = "raw";
}
impl Fmt for Pco {
    type V64 = PcoVec<usize, u64>;
    const NAME: &'static str = "pco";
}

#[derive(Clone, Copy, PartialEq, Debug)]
enum OutK {
    U64,
    Usz,
}

#[derive(Clone, Copy, PartialEq, Debug)]
enum Shape {
    Any,        // independent small values
    GeqSecond,  // s0[i] >= s1[i], s1[i] >= 1   (subtract, divide, percentage*)
    NonDecr,    // s0 non-decreasing            (change)
    Starts,     // us0 = window starts: monotone, starts[i] <= i
    Groups,     // F7: us0 = first_indexes, (us1 = indexes_count,) s0 = items; consistent group layout
    Keys,       // F7: us0 = non-decreasing keys into s0
    ItemGroups, // F7: us0 = item -> group, non-decreasing
}

struct MDef {
    name: &'static str,
    fam: &'static str,
    out: OutK,
    n64: usize,
    nusz: usize,
    uses_w: bool,
    shape: Shape,
    /// the method takes a user closure that the harness instruments (C19 index log)
    logs: bool,
    /// constant the method adds to the dependency version (compute_sum adds Version::new(2))
    extra_ver: u32,
}

const fn md(name: &'static str, fam: &'static str, out: OutK, n64: usize, nusz: usize, uses_w: bool, shape: Shape, logs: bool, extra_ver: u32) -> MDef {
    MDef { name, fam, out, n64, nusz, uses_w, shape, logs, extra_ver }
}

const METHODS: &[MDef] = &[
    // F1 stateless transforms
    md("to", "F1", OutK::U64, 1, 0, false, Shape::Any, true, 0),
    md("range", "F1", OutK::U64, 1, 0, false, Shape::Any, true, 0),
    md("from_index", "F1", OutK::Usz, 1, 0, false, Shape::Any, false, 0),
    md("transform", "F1", OutK::U64, 1, 0, false, Shape::Any, true, 0),
    md("transform2", "F1", OutK::U64, 2, 0, false, Shape::Any, true, 0),
    md("binary", "F1", OutK::U64, 2, 0, false, Shape::Any, false, 0),
    md("transform3", "F1", OutK::U64, 3, 0, false, Shape::Any, true, 0),
    md("transform4", "F1", OutK::U64, 4, 0, false, Shape::Any, true, 0),
    md("add", "F1", OutK::U64, 2, 0, false, Shape::Any, false, 0),
    md("subtract", "F1", OutK::U64, 2, 0, false, Shape::GeqSecond, false, 0),
    md("multiply", "F1", OutK::U64, 2, 0, false, Shape::Any, false, 0),
    md("divide", "F1", OutK::U64, 2, 0, false, Shape::GeqSecond, false, 0),
    md("percentage", "F1", OutK::U64, 2, 0, false, Shape::GeqSecond, false, 0),
    md("percentage_diff", "F1", OutK::U64, 2, 0, false, Shape::GeqSecond, false, 0),
    md("sum_of_others", "F1", OutK::U64, 3, 0, true, Shape::Any, false, 0),
    md("min_of_others", "F1", OutK::U64, 3, 0, true, Shape::Any, false, 0),
    md("max_of_others", "F1", OutK::U64, 3, 0, true, Shape::Any, false, 0),
    // F2 running value recovered from the last output
    md("cumulative", "F2", OutK::U64, 1, 0, false, Shape::Any, false, 0),
    md("cum_binary", "F2", OutK::U64, 2, 0, false, Shape::Any, false, 0),
    md("cum_tbinary", "F2", OutK::U64, 2, 0, false, Shape::Any, false, 0),
    md("cum_count", "F2", OutK::Usz, 1, 0, false, Shape::Any, false, 0),
    md("cum_count_from", "F2", OutK::Usz, 1, 0, true, Shape::Any, false, 0),
    md("ath", "F2", OutK::U64, 1, 0, false, Shape::Any, false, 0),
    md("atl", "F2", OutK::U64, 1, 0, false, Shape::Any, false, 0),
    md("atl_ex", "F2", OutK::U64, 1, 0, false, Shape::Any, false, 0),
    md("ath_from", "F2", OutK::U64, 1, 0, true, Shape::Any, false, 0),
    md("atl_from", "F2", OutK::U64, 1, 0, true, Shape::Any, false, 0),
    // F3 fixed lookback
    md("change", "F3", OutK::U64, 1, 0, true, Shape::NonDecr, false, 0),
    md("lookback", "F3", OutK::U64, 1, 1, false, Shape::Starts, false, 0),
    // F4 fixed window sum / rolling count
    md("sum", "F4", OutK::U64, 1, 0, true, Shape::Any, false, 2),
    md("rolling_count", "F4", OutK::Usz, 1, 0, true, Shape::Any, false, 0),
    // F5 monotonic deque
    md("max", "F5", OutK::U64, 1, 0, true, Shape::Any, false, 0),
    md("min", "F5", OutK::U64, 1, 0, true, Shape::Any, false, 0),
    // F6 variable windows from a starts vector
    md("rolling_sum", "F6", OutK::U64, 1, 1, false, Shape::Starts, false, 0),
    md("rolling_max_fs", "F6", OutK::U64, 1, 1, false, Shape::Starts, false, 0),
    md("rolling_min_fs", "F6", OutK::U64, 1, 1, false, Shape::Starts, false, 0),
    // F7 index-group aggregates
    md("sum_fi", "F7", OutK::U64, 1, 2, false, Shape::Groups, false, 0),
    md("fsum_fi", "F7", OutK::U64, 1, 2, false, Shape::Groups, false, 0),
    md("count_fi", "F7", OutK::Usz, 1, 1, false, Shape::Groups, false, 0),
    md("fcount_fi", "F7", OutK::Usz, 1, 1, false, Shape::Groups, false, 0),
    md("indirect", "F7", OutK::U64, 1, 1, false, Shape::Keys, false, 0),
    md("first_per_index", "F7", OutK::Usz, 0, 1, false, Shape::ItemGroups, false, 0),
];

fn mdef(name: &str) -> Option<&'static MDef> {
    METHODS.iter().find(|m| m.name == name)
}

struct Bin5;
impl BinaryTransform<u64, u64, u64> for Bin5 {
    fn apply(a: u64, b: u64) -> u64 {
        a * 5 + b
    }
}

/// (evaluated index, stored_len seen by the closure or usize::MAX when the method gives no `this`)
type Log = RefCell<Vec<(usize, usize)>>;

/// One call of the real method on a u64-valued output.
fn call64<V, S>(m: &str, o: &mut EagerVec<V>, s: &[S], us: &[UszVec], w: usize, mf: usize, exit: &Exit, log: &Log, fail: Option<usize>) -> vecdb::Result<()>
where
    V: StoredVec<I = usize, T = u64>,
    S: ReadableVec<usize, u64>,
{
    // a user closure "fails" at index j by returning a wrong index: checked_push then returns
    // Err(UnexpectedIndex), `f(self)?` leaves before the write and the values so far stay unwritten
    let ix = |i: usize| if Some(i) == fail { i + 1 } else { i };
    match m {
        "to" => o.compute_to(mf, s[0].len(), s[0].version(), |i| { log.borrow_mut().push((i, usize::MAX)); (ix(i), (i * i + 3) as u64) }, exit),
        "range" => o.compute_range(mf, &s[0], |i| { log.borrow_mut().push((i, usize::MAX)); (ix(i), (i * i + 3) as u64) }, exit),
        "transform" => o.compute_transform(mf, &s[0], |(i, a, this)| { log.borrow_mut().push((i, this.stored_len())); (ix(i), a * 3 + i as u64) }, exit),
        "transform2" => o.compute_transform2(mf, &s[0], &s[1], |(i, a, b, this)| { log.borrow_mut().push((i, this.stored_len())); (ix(i), a * 2 + b + i as u64) }, exit),
        "binary" => o.compute_binary::<u64, u64, Bin5>(mf, &s[0], &s[1], exit),
        "transform3" => o.compute_transform3(mf, &s[0], &s[1], &s[2], |(i, a, b, c, this)| { log.borrow_mut().push((i, this.stored_len())); (ix(i), a + 2 * b + 3 * c + i as u64) }, exit),
        "transform4" => o.compute_transform4(mf, &s[0], &s[1], &s[2], &s[3], |(i, a, b, c, d, this)| { log.borrow_mut().push((i, this.stored_len())); (ix(i), a + 2 * b + 3 * c + 4 * d + i as u64) }, exit),
        "add" => o.compute_add(mf, &s[0], &s[1], exit),
        "subtract" => o.compute_subtract(mf, &s[0], &s[1], exit),
        "multiply" => o.compute_multiply(mf, &s[0], &s[1], exit),
        "divide" => o.compute_divide(mf, &s[0], &s[1], exit),
        "percentage" => o.compute_percentage(mf, &s[0], &s[1], exit),
        "percentage_diff" => o.compute_percentage_difference(mf, &s[0], &s[1], exit),
        "sum_of_others" | "min_of_others" | "max_of_others" => {
            let k = w.clamp(1, 3);
            let refs: Vec<&S> = s[..k].iter().collect();
            match m {
                "sum_of_others" => o.compute_sum_of_others(mf, &refs, exit),
                "min_of_others" => o.compute_min_of_others(mf, &refs, exit),
                _ => o.compute_max_of_others(mf, &refs, exit),
            }
        }
        "cumulative" => o.compute_cumulative(mf, &s[0], exit),
        "cum_binary" => o.compute_cumulative_binary(mf, &s[0], &s[1], exit),
        "cum_tbinary" => o.compute_cumulative_transformed_binary(mf, &s[0], &s[1], |a: u64, b: u64| a * 2 + b, exit),
        "ath" => o.compute_all_time_high(mf, &s[0], exit),
        "atl" => o.compute_all_time_low(mf, &s[0], exit),
        "atl_ex" => o.compute_all_time_low_(mf, &s[0], exit, true),
        "ath_from" => o.compute_all_time_high_from(mf, &s[0], w, exit),
        "atl_from" => o.compute_all_time_low_from(mf, &s[0], w, exit),
        "change" => o.compute_change(mf, &s[0], w, exit),
        "lookback" => o.compute_lookback(mf, &us[0], &s[0], exit),
        "sum" => o.compute_sum(mf, &s[0], w, exit),
        "max" => o.compute_max(mf, &s[0], w, exit),
        "min" => o.compute_min(mf, &s[0], w, exit),
        "rolling_sum" => o.compute_rolling_sum(mf, &us[0], &s[0], exit),
        "rolling_max_fs" => o.compute_rolling_max_from_starts(mf, &us[0], &s[0], exit),
        "rolling_min_fs" => o.compute_rolling_min_from_starts(mf, &us[0], &s[0], exit),
        "sum_fi" => o.compute_sum_from_indexes(mf, &us[0], &us[1], &s[0], exit),
        "fsum_fi" => o.compute_filtered_sum_from_indexes(mf, &us[0], &us[1], &s[0], |v: &u64| *v % 2 == 0, exit),
        "indirect" => o.compute_indirect_sequential(mf, &us[0], &s[0], exit),
        _ => panic!("unknown u64 method {m}"),
    }
}

/// One call of the real method on a usize-valued output.
fn callusz<S>(m: &str, o: &mut UszVec, s: &[S], us: &[UszVec], w: usize, mf: usize, exit: &Exit, _log: &Log) -> vecdb::Result<()>
where
    S: ReadableVec<usize, u64>,
{
    match m {
        "from_index" => o.compute_from_index(mf, &s[0], exit),
        "cum_count" => o.compute_cumulative_count(mf, &s[0], |v: &u64| *v % 3 == 0, exit),
        "cum_count_from" => o.compute_cumulative_count_from(mf, &s[0], w, |v: &u64| *v % 3 == 0, exit),
        "rolling_count" => o.compute_rolling_count(mf, &s[0], w, |v: &u64| *v % 2 == 0, exit),
        "count_fi" => o.compute_count_from_indexes(mf, &us[0], &s[0], exit),
        "fcount_fi" => o.compute_filtered_count_from_indexes(mf, &us[0], &s[0], |a: usize| a % 2 == 0, exit),
        "first_per_index" => o.compute_first_per_index(mf, &us[0], exit),
        _ => panic!("unknown usize method {m}"),
    }
}

enum OutVec<F: Fmt> {
    A(EagerVec<F::V64>),
    B(UszVec),
}

impl<F: Fmt> OutVec<F> {
    fn import(db: &Database, name: &str, k: OutK, own: u32) -> vecdb::Result<Self> {
        Ok(match k {
            OutK::U64 => OutVec::A(EagerVec::<F::V64>::forced_import(db, name, Version::new(own))?),
            OutK::Usz => OutVec::B(UszVec::forced_import(db, name, Version::new(own))?),
        })
    }
    fn contents(&self) -> Vec<u64> {
        match self {
            OutVec::A(v) => v.collect(),
            OutVec::B(v) => v.collect().into_iter().map(|x| x as u64).collect(),
        }
    }
    fn len(&self) -> usize {
        match self { OutVec::A(v) => v.len(), OutVec::B(v) => v.len() }
    }
    fn cv(&self) -> u32 {
        match self { OutVec::A(v) => u32::from(v.header().computed_version()), OutVec::B(v) => u32::from(v.header().computed_version()) }
    }
    fn vv(&self) -> u32 {
        match self { OutVec::A(v) => u32::from(v.header().vec_version()), OutVec::B(v) => u32::from(v.header().vec_version()) }
    }
    fn write(&mut self) -> vecdb::Result<bool> {
        match self { OutVec::A(v) => v.write(), OutVec::B(v) => v.write() }
    }
    fn flush(&mut self) -> vecdb::Result<()> {
        match self { OutVec::A(v) => v.flush(), OutVec::B(v) => v.flush() }
    }
    fn remove(self) {
        let _ = match self { OutVec::A(v) => v.remove(), OutVec::B(v) => v.remove() };
    }
    fn pushed_len(&self) -> usize {
        match self { OutVec::A(v) => v.pushed_len(), OutVec::B(v) => v.pushed_len() }
    }
    fn hand_push(&mut self, x: u64) {
        match self { OutVec::A(v) => v.push(x), OutVec::B(v) => v.push(x as usize) }
    }
    fn call(&mut self, m: &str, s: &[EagerVec<F::V64>], us: &[UszVec], w: usize, mf: usize, exit: &Exit, log: &Log) -> String {
        self.call_f(m, s, us, w, mf, exit, log, None)
    }
    #[allow(clippy::too_many_arguments)]
    fn call_f(&mut self, m: &str, s: &[EagerVec<F::V64>], us: &[UszVec], w: usize, mf: usize, exit: &Exit, log: &Log, fail: Option<usize>) -> String {
        let r = catch_unwind(AssertUnwindSafe(|| match self {
            OutVec::A(o) => call64(m, o, s, us, w, mf, exit, log, fail),
            OutVec::B(o) => callusz(m, o, s, us, w, mf, exit, log),
        }));
        match r {
            Ok(Ok(())) => "ok".into(),
            Ok(Err(e)) => format!("err:{}", err_name(&e)),
            Err(_) => "panic".into(),
        }
    }
}

fn err_name(e: &vecdb::Error) -> &'static str {
    use vecdb::Error::*;
    match e {
        UnexpectedIndex { .. } => "UnexpectedIndex",
        Underflow => "Underflow",
        Overflow => "Overflow",
        InvalidArgument(_) => "InvalidArgument",
        _ => "Other",
    }
}

fn fnv_vals(v: &[u64]) -> String {
    let mut h: u64 = 0xcbf29ce484222325;
    for x in v {
        for b in x.to_le_bytes() {
            h ^= b as u64;
            h = h.wrapping_mul(0x100000001b3);
        }
    }
    format!("{:016x}", h)
}

fn ranges(idx: &[usize]) -> String {
    if idx.is_empty() {
        return "-".into();
    }
    let mut parts = vec![];
    let mut a = idx[0];
    let mut b = idx[0];
    for &i in &idx[1..] {
        if i == b + 1 {
            b = i;
        } else {
            parts.push(format!("{a}-{}", b + 1));
            a = i;
            b = i;
        }
    }
    parts.push(format!("{a}-{}", b + 1));
    parts.join(",")
}

/// indices at which the closure first saw a new stored_len (= first index of each batch)
fn batch_starts(log: &[(usize, usize)]) -> String {
    if log.is_empty() || log[0].1 == usize::MAX {
        return "-".into();
    }
    let mut parts = vec![];
    let mut last = usize::MAX;
    for &(i, sl) in log {
        if sl != last {
            parts.push(i.to_string());
            last = sl;
        }
    }
    parts.join(",")
}

/// Generated source segment, described arithmetically so that `I` lines stay compact; the OCaml
/// driver implements the same function (ocaml/eng_eager.ml gen_seg).  `from` = index of the first
/// generated element, `prev` = last element already in the source (0 if none).
///   r:a:b:c  pseudo-random, value = lcg % b + c                    (a = seed)
///   n:a:b:_  non-decreasing: prev + lcg % b
///   q:a:b:_  monotone window starts: min(i, max(prev, ((i - a) / b) * b))   (a = lag, b = stair step)
///   k:a:b:c  non-decreasing keys: min(prev + lcg % b, c)
///   f:a:b:c  first indexes: c, c + n0, c + n0 + n1, ... where n_k = lcg % b  (the counts of `r:a:b:0`)
pub fn gen_seg(kind: &str, a: u64, b: u64, c: u64, from: usize, prev: u64, n: usize) -> Vec<u64> {
    let mut x: u64 = (a * 7919 + (from as u64) * 104729 + 12345) & 0x7fff_ffff;
    let mut next = move || { x = (x * 1103515245 + 12345) & 0x7fff_ffff; x >> 8 };
    let mut out = Vec::with_capacity(n);
    let mut p = prev;
    match kind {
        "r" => for _ in 0..n { out.push(next() % b + c) },
        "n" => for _ in 0..n { p += next() % b; out.push(p) },
        "q" => for i in from..from + n {
            let t = ((i as u64).saturating_sub(a) / b) * b;
            p = (i as u64).min(p.max(t));
            out.push(p)
        },
        "k" => for _ in 0..n { p = (p + next() % b).min(c); out.push(p) },
        "f" => { p = c; for _ in 0..n { out.push(p); p += next() % b } },
        _ => panic!("segment kind {kind}"),
    }
    out
}

/// From-scratch reference of the F7 methods whose output index space differs from the index space
/// of (some of) their sources; used only to decide "max_from <= first changed index" semantically:
/// the first output index at which the from-scratch results over the previous and the current
/// sources differ.  Returns [] where the method's precondition does not hold.
fn f7_reference(m: &str, s: &[Vec<u64>], us: &[Vec<u64>]) -> Vec<u64> {
    match m {
        "sum_fi" | "fsum_fi" => {
            let (first, count, items) = (&us[0], &us[1], &s[0]);
            let mut out = vec![];
            let mut pos = match first.first() { Some(p) => *p as usize, None => return out };
            for g in 0..count.len() {
                let c = count[g] as usize;
                if pos + c > items.len() { return vec![]; }
                out.push(items[pos..pos + c].iter().filter(|v| m == "sum_fi" || **v % 2 == 0).sum());
                pos += c;
            }
            out
        }
        "count_fi" | "fcount_fi" => {
            let (first, other_len) = (&us[0], s[0].len() as u64);
            let mut out = vec![];
            for g in 0..first.len() {
                let (f, n) = (first[g], if g + 1 < first.len() { first[g + 1] } else { other_len });
                if m == "count_fi" {
                    if f > n { return vec![]; }
                    out.push(n - f);
                } else {
                    out.push(if f <= n { (n + 1) / 2 - (f + 1) / 2 } else { 0 });
                }
            }
            out
        }
        "indirect" => {
            let (keys, vals) = (&us[0], &s[0]);
            let mut out = vec![];
            for k in keys {
                if (*k as usize) >= vals.len() { return vec![]; }
                out.push(vals[*k as usize]);
            }
            out
        }
        _ => vec![],
    }
}

/// compute_first_per_index takes max_from in the ITEM space of `other` and restarts at
/// skip = min(last stored value, max_from).  Its contract (blocks -> first tx): the restart point is
/// the first item of a group, it is not above the first changed item, and something is left to
/// recompute when the source changed (a truncation is followed by regrowth).
fn fpi_valid(other: &[u64], out: &[u64], pending_lo: usize, mf: usize) -> bool {
    if out.is_empty() { return true; }
    let skip = (*out.last().unwrap() as usize).min(mf);
    let boundary = skip == 0 || skip >= other.len() || other[skip - 1] < other[skip];
    skip <= pending_lo && boundary && (pending_lo == usize::MAX || skip < other.len())
}

/// The documented meaning of the windowed / cursor-based methods, evaluated naively (no cursor, no
/// running state, no chunking): a third, independent from-scratch evaluation.  It catches a defect
/// that makes the incremental run and the one-shot run of the real method wrong in the same way
/// (e.g. a cursor that over-reads across a 4096-element chunk boundary).  None = not defined here.
fn definition(m: &str, w: usize, s: &[Vec<u64>], us: &[Vec<u64>]) -> Option<Vec<u64>> {
    if !["cumulative", "rolling_sum", "rolling_max_fs", "rolling_min_fs", "lookback", "sum", "max", "min", "change", "rolling_count"].contains(&m) {
        return None;
    }
    let v = s.first()?;
    let n = match m { "rolling_sum" | "rolling_max_fs" | "rolling_min_fs" | "lookback" => v.len().min(us[0].len()), _ => v.len() };
    let win = |i: usize, w: usize| -> std::ops::RangeInclusive<usize> { (i + 1).saturating_sub(w.max(1))..=i };
    let mut out = Vec::with_capacity(n);
    for i in 0..n {
        out.push(match m {
            "cumulative" => v[..=i].iter().sum(),
            "rolling_sum" => { let a = us[0][i] as usize; if a > i { return None } v[a..=i].iter().sum() }
            "rolling_max_fs" => { let a = us[0][i] as usize; if a > i { return None } *v[a..=i].iter().max().unwrap() }
            "rolling_min_fs" => { let a = us[0][i] as usize; if a > i { return None } *v[a..=i].iter().min().unwrap() }
            "lookback" => { let a = us[0][i] as usize; if a >= v.len() { return None } v[a] }
            "sum" => { if w == 0 { return None } v[win(i, w)].iter().sum() }
            "max" => *v[win(i, w)].iter().max().unwrap(),
            "min" => *v[win(i, w)].iter().min().unwrap(),
            "change" => if i < w { 0 } else { v[i].checked_sub(v[i - w])? },
            "rolling_count" => { if w == 0 { return None } v[win(i, w)].iter().filter(|x| **x % 2 == 0).count() as u64 }
            _ => return None,
        });
    }
    Some(out)
}

fn first_diff(a: &[u64], b: &[u64]) -> usize {
    let n = a.len().min(b.len());
    match (0..n).find(|&i| a[i] != b[i]) {
        Some(i) => i,
        None => if a.len() == b.len() { usize::MAX } else { n },
    }
}

struct Ctx<'a> {
    id: &'a str,
    viol: Vec<String>,
    tags: Vec<String>,
}

/// Executes one case (the tokens of an `I` line) on the real code; returns O lines, V lines, M tags.
fn exec_case<F: Fmt>(id: &str, m: &MDef, own0: u32, w: usize, ops: &[&str], full: bool) -> (Vec<String>, Vec<String>, Vec<String>) {
    let dir = tempfile::tempdir().unwrap();
    let db = Database::open(dir.path()).unwrap();
    let exit = Exit::new();
    let mut cx = Ctx { id, viol: vec![], tags: vec![] };
    let mut obs: Vec<String> = vec![];
    let mut s: Vec<EagerVec<F::V64>> = (0..m.n64).map(|j| EagerVec::<F::V64>::forced_import(&db, &format!("s{j}"), Version::ONE).unwrap()).collect();
    let mut us: Vec<UszVec> = (0..m.nusz).map(|j| UszVec::forced_import(&db, &format!("u{j}"), Version::ONE).unwrap()).collect();
    let mut own = own0;
    let mut out: Option<OutVec<F>> = Some(OutVec::<F>::import(&db, "out", m.out, own).unwrap());
    {
        let o = out.as_ref().unwrap();
        obs.push(format!("init vv={} cv={} len={}", o.vv() - own, o.cv(), o.len()));
    }
    // generator-independent bookkeeping for the spec oracles
    let mut pending_lo: usize = usize::MAX; // first source index changed since the previous compute call
    let mut stale_lo: usize = usize::MAX; // smallest output index that an invalid max_from may have left stale
    let mut header_written = true; // the in-memory header has been written since it last changed
    // the harness's own record of the version each source was last given (C19: what a source PRESENTS to its
    // dependents must be the version recorded for it, for stored and for eager sources alike)
    let mut given_ver: Vec<Option<u32>> = vec![None; 16];
    let mut fresh_n = 0usize;
    let semantic = m.fam == "F7" && m.name != "first_per_index";
    let mut ref_prev: Vec<u64> = vec![];
    let vmax = std::sync::atomic::AtomicUsize::new(0);
    let _ = &vmax;
    for op in ops {
        if !cx.viol.is_empty() {
            // the state is no longer what oracles and model assume: the case ends at the violation
            cx.tags.push("stopped-at-violation".into());
            break;
        }
        let (k, rest) = op.split_at(1);
        match k {
            "A" | "T" | "V" | "G" => {
                let (j, arg) = rest.split_once(':').unwrap();
                let j: usize = j.parse().unwrap();
                match k {
                    "A" | "G" => {
                        let vals: Vec<u64> = if k == "G" {
                            let f: Vec<&str> = arg.split(':').collect();
                            let (from, prev) = if j < m.n64 { (s[j].len(), s[j].collect_last().unwrap_or(0)) }
                                               else { (us[j - m.n64].len(), us[j - m.n64].collect_last().unwrap_or(0) as u64) };
                            gen_seg(f[1], f[2].parse().unwrap(), f[3].parse().unwrap(), f[4].parse().unwrap(), from, prev, f[0].parse().unwrap())
                        } else if arg.is_empty() { vec![] } else { arg.split(',').map(|x| x.parse().unwrap()).collect() };
                        if j < m.n64 {
                            pending_lo = pending_lo.min(s[j].len());
                            for v in vals { s[j].push(v); }
                            s[j].write().unwrap();
                        } else {
                            let u = &mut us[j - m.n64];
                            pending_lo = pending_lo.min(u.len());
                            for v in vals { u.push(v as usize); }
                            u.write().unwrap();
                        }
                    }
                    "T" => {
                        let to: usize = arg.parse().unwrap();
                        if j < m.n64 {
                            if to < s[j].len() { pending_lo = pending_lo.min(to); }
                            s[j].truncate_if_needed_at(to).unwrap();
                            s[j].write().unwrap();
                        } else {
                            let u = &mut us[j - m.n64];
                            if to < u.len() { pending_lo = pending_lo.min(to); }
                            u.truncate_if_needed_at(to).unwrap();
                            u.write().unwrap();
                        }
                    }
                    _ => {
                        let ver: u32 = arg.parse().unwrap();
                        if j < m.n64 { s[j].mut_header().update_computed_version(Version::new(ver)); }
                        else { us[j - m.n64].mut_header().update_computed_version(Version::new(ver)); }
                        if j < given_ver.len() { given_ver[j] = Some(ver); }
                    }
                }
            }
            "C" => {
                let mut it = rest.split(':');
                let mf: usize = it.next().unwrap().parse().unwrap();
                let cap: usize = it.next().unwrap().parse().unwrap();
                let fail: Option<usize> = it.next().map(|x| x.parse().unwrap());
                let o = out.as_mut().unwrap();
                vecdb::verif_hooks::MAX_CACHE_SIZE.set(if cap == 0 { INF_BYTES } else { cap * 8 });
                let before = o.contents();
                let cv_before = o.cv();
                let unwritten_before = o.pushed_len();
                if semantic {
                    let s_now: Vec<Vec<u64>> = s.iter().map(|v| v.collect()).collect();
                    let us_now: Vec<Vec<u64>> = us.iter().map(|v| v.collect().into_iter().map(|x| x as u64).collect()).collect();
                    let rn = f7_reference(m.name, &s_now, &us_now);
                    pending_lo = first_diff(&ref_prev, &rn);
                    ref_prev = rn;
                }
                let nsrc_used = if m.name.ends_with("_of_others") { w.clamp(1, 3) } else { m.n64 };
                let dep: u32 = s[..nsrc_used].iter().map(|v| u32::from(v.version())).sum::<u32>()
                    + us.iter().map(|v| u32::from(v.version())).sum::<u32>() + m.extra_ver;
                let presented = o.vv().wrapping_add(dep);
                for (j, g) in given_ver.iter().enumerate() {
                    let shown = if j < m.n64 { s.get(j).map(|v| u32::from(v.version())) } else { us.get(j - m.n64).map(|v| u32::from(v.version())) };
                    if let (Some(g), Some(shown)) = (g, shown) {
                        if *g != shown && !cx.viol.iter().any(|v: &String| v.starts_with("C19:c19-source-presents-other-version")) {
                            cx.viol.push(format!("C19:c19-source-presents-other-version-than-recorded source={} ({}) recorded={} presented={}: a dependent cannot see that this source was recomputed",
                                                 j, if j < m.n64 { "stored" } else { "eager" }, g, shown));
                        }
                    }
                }
                let log: Log = RefCell::new(vec![]);
                let res = if m.name == "first_per_index" && cap != 0 {
                    // compute_first_per_index can loop forever once a batch reaches the limit: watchdog
                    let (tx, rx) = std::sync::mpsc::channel();
                    let (sr, usr, er, or) = (&s, &us, &exit, &mut *o);
                    std::thread::scope(|sc| {
                        sc.spawn(move || {
                            let l: Log = RefCell::new(vec![]);
                            let r = or.call(m.name, sr, usr, w, mf, er, &l);
                            let _ = tx.send(r);
                        });
                        match rx.recv_timeout(std::time::Duration::from_secs(8)) {
                            Ok(r) => r,
                            Err(_) => {
                                use std::io::Write;
                                for ob in &obs { println!("O {id} {ob}"); }
                                println!("O {id} c hang");
                                println!("V {id} C06:c06-first_per_index-batch-limit-livelock max_from={mf} cap={cap}: repeat_until_complete never finishes (every batch restarts at min(last value, max_from) and pushes >= cap elements)");
                                std::io::stdout().flush().unwrap();
                                std::process::exit(0);
                            }
                        }
                    })
                } else {
                    o.call_f(m.name, &s, &us, w, mf, &exit, &log, fail)
                };
                vecdb::verif_hooks::MAX_CACHE_SIZE.set(INF_BYTES);
                let after = o.contents();
                let log = log.into_inner();
                let ev: Vec<usize> = log.iter().map(|x| x.0).collect();
                let changed_version = presented != cv_before;
                if changed_version { header_written = false; }
                if res == "ok" && !after.is_empty() { header_written = true; } // a dirty call writes
                obs.push(format!(
                    "c {} len={} cv={} h={} ev={} bs={}",
                    res, after.len(), o.cv(), fnv_vals(&after),
                    if m.logs { ranges(&ev) } else { "-".into() }, if m.logs { batch_starts(&log) } else { "-".into() }));
                if full { println!("F {} vals={}", id, after.iter().map(|x| x.to_string()).collect::<Vec<_>>().join(",")); }
                // ---- bookkeeping of max_from validity
                // for first_per_index a pending staleness is only repaired by a call that really restarts below it
                let mut clears = true;
                let valid = if m.name == "first_per_index" {
                    let other: Vec<u64> = us[0].collect().into_iter().map(|x| x as u64).collect();
                    let skip = before.last().map_or(0, |l| (*l as usize).min(mf));
                    clears = before.is_empty() || (skip <= stale_lo && skip < other.len());
                    fpi_valid(&other, &before, pending_lo, mf)
                } else { mf <= pending_lo || before.is_empty() };
                if changed_version { stale_lo = usize::MAX; if !before.is_empty() { cx.tags.push("version-change-nonempty".into()); } }
                if !valid && !changed_version { stale_lo = stale_lo.min(if m.name == "first_per_index" { 0 } else { pending_lo }); cx.tags.push("invalid-max-from".into()); }
                else if mf <= stale_lo && clears { stale_lo = usize::MAX; }
                pending_lo = usize::MAX;
                if res != "ok" { cx.tags.push(format!("call-{}", res.split(':').next().unwrap())); }
                if fail.is_some() && res != "ok" { cx.tags.push("closure-failed-before-write".into()); }
                if !changed_version && unwritten_before > 0 { cx.tags.push("same-version-with-unwritten".into()); }
                if cap != 0 && after.len() > before.len().min(mf) + cap { cx.tags.push("multi-batch".into()); }
                if mf < before.len() && !changed_version { cx.tags.push("truncating-call".into()); }
                if mf >= before.len() && after.len() == before.len() && !changed_version { cx.tags.push("redundant-call".into()); }
                // ---- C19 oracles (implementation only); after the first violation of a case the
                // state is no longer what the oracles assume, so they stop (keys stay specific)
                let tainted = !cx.viol.is_empty();
                if tainted { cx.tags.push("oracles-off-after-violation".into()); continue; }
                if res == "ok" && o.cv() != presented {
                    cx.viol.push(format!("C19:c19-{}-version-not-recorded presented={} header={}", m.name, presented, o.cv()));
                }
                if !changed_version && m.name != "first_per_index" {
                    // (first_per_index takes max_from in the item space of its source, not in output indices)
                    let keep = mf.min(before.len());
                    if let Some(&i) = ev.iter().find(|&&i| i < keep) {
                        cx.viol.push(format!("C19:c19-{}-evaluated-below-resume index={} keep={}", m.name, i, keep));
                    }
                    if after.len() < keep || after[..keep] != before[..keep] {
                        cx.viol.push(format!("C19:c19-{}-prefix-altered keep={}", m.name, keep));
                    }
                } else if res == "ok" && m.logs && unwritten_before == 0 {
                    let want: Vec<usize> = (0..after.len()).collect();
                    if ev != want {
                        cx.viol.push(format!("C19:c19-{}-not-recomputed-from-0 evaluated={} len={}", m.name, ranges(&ev), after.len()));
                    }
                }
                // ---- C06 oracle: one-shot run of the same real method on a fresh vector
                if stale_lo == usize::MAX || changed_version {
                    fresh_n += 1;
                    let fname = format!("fresh{fresh_n}");
                    let mut f = OutVec::<F>::import(&db, &fname, m.out, own).unwrap();
                    let flog: Log = RefCell::new(vec![]);
                    let fres = f.call(m.name, &s, &us, w, 0, &exit, &flog);
                    let fvals = f.contents();
                    f.remove();
                    if res == "ok" {
                        let s_now: Vec<Vec<u64>> = s.iter().map(|v| v.collect()).collect();
                        let us_now: Vec<Vec<u64>> = us.iter().map(|v| v.collect().into_iter().map(|x| x as u64).collect()).collect();
                        if let Some(d) = definition(m.name, w, &s_now, &us_now) {
                            if d != after {
                                let i = first_diff(&d, &after);
                                cx.viol.push(format!("C06:c06-{}-differs-from-definition index={} stored={} definition={} len={}", m.name, i,
                                    after.get(i).map_or("-".into(), |x| x.to_string()), d.get(i).map_or("-".into(), |x| x.to_string()), after.len()));
                            }
                        }
                    }
                    if changed_version && unwritten_before > 0 { cx.tags.push("version-change-with-unwritten".into()); }
                    if changed_version && unwritten_before > 0 && res == "ok" && fres == "ok" && (after != fvals || (m.logs && ev != (0..after.len()).collect::<Vec<_>>())) {
                        // the discard must also cover results that were never written (hand-pushed values, the
                        // prefix left by a call that failed before its write)
                        let keep = mf.min(before.len());
                        cx.viol.push(format!("C19:c19-version-change-kept-unwritten-results method={} unwritten={} stored={} max_from={} kept-prefix={} evaluated={}",
                            m.name, unwritten_before, before.len() - unwritten_before, mf,
                            after.len() >= keep && after[..keep] == before[..keep], if m.logs { ranges(&ev) } else { "-".into() }));
                    }
                    let stale_key = if changed_version && !valid { "C19:c19" } else { "C06:c06" };
                    if !cx.viol.is_empty() {
                        // already reported under a more specific key
                    } else if res == "ok" && fres == "ok" {
                        if after.len() != fvals.len() {
                            cx.viol.push(format!("{stale_key}-{}-len-differs-from-scratch incremental={} scratch={}", m.name, after.len(), fvals.len()));
                        } else if after != fvals {
                            let i = (0..after.len()).find(|&i| after[i] != fvals[i]).unwrap();
                            cx.viol.push(format!("{stale_key}-{}-differs-from-scratch index={} incremental={} scratch={}", m.name, i, after[i], fvals[i]));
                        }
                    } else if fail.is_some() && res != "ok" && fres == "ok" {
                        // the injected closure failure: what was computed before it must be a prefix of the scratch result
                        let n = after.len().min(fvals.len());
                        if after.len() > fvals.len() || after[..n] != fvals[..n] {
                            cx.viol.push(format!("{stale_key}-{}-failed-call-prefix-differs-from-scratch", m.name));
                        }
                    } else if (res == "ok") != (fres == "ok") {
                        cx.viol.push(format!("{stale_key}-{}-outcome-differs-from-scratch incremental={} scratch={}", m.name, res, fres));
                    } else if res != "ok" {
                        // both fail: the incrementally maintained prefix must still be a prefix of the scratch prefix or vice versa
                        let n = after.len().min(fvals.len());
                        if after[..n] != fvals[..n] {
                            cx.viol.push(format!("{stale_key}-{}-failed-call-prefix-differs-from-scratch", m.name));
                        }
                    }
                } else {
                    cx.tags.push("oracle-skipped-stale".into());
                }
            }
            "h" => {
                // hp:<k> — k marker values pushed by hand, no write: they are not results
                let k: usize = rest.strip_prefix("p:").unwrap().parse().unwrap();
                let o = out.as_mut().unwrap();
                let len0 = o.len();
                for j in 0..k { o.hand_push(777_000 + (len0 + j) as u64); }
                stale_lo = stale_lo.min(len0);
                cx.tags.push("hand-push".into());
            }
            "W" => {
                let o = out.as_mut().unwrap();
                let r = o.write();
                header_written = true;
                obs.push(format!("w {}", match r { Ok(_) => "ok".to_string(), Err(e) => format!("err:{}", err_name(&e)) }));
            }
            "R" | "N" => {
                let mut o = out.take().unwrap();
                let before = o.contents();
                let cv_before = o.cv();
                o.flush().unwrap();
                drop(o);
                let new_own = if k == "N" { rest.parse().unwrap() } else { own };
                let o2 = OutVec::<F>::import(&db, "out", m.out, new_own).unwrap();
                obs.push(format!("r vv={} cv={} len={} h={}", o2.vv() - new_own, o2.cv(), o2.len(), fnv_vals(&o2.contents())));
                if new_own == own {
                    if o2.cv() != cv_before && cx.viol.is_empty() {
                        cx.viol.push(format!("C19:c19-{}-version-lost-after-write-and-reimport before={} after={}", m.name, cv_before, o2.cv()));
                    }
                    if o2.len() > before.len() && cx.viol.is_empty() {
                        // method-independent: discarded results are back after flush + re-import
                        cx.viol.push(format!("{}-flush-reimport-restores-discarded-results method={} len-before={} len-after={} header-version={}", F::NAME, m.name, before.len(), o2.len(), o2.cv()));
                    } else if o2.contents() != before && cx.viol.is_empty() {
                        cx.viol.push(format!("C06:c06-{}-contents-changed-by-write-and-reimport len-before={} len-after={}", m.name, before.len(), o2.len()));
                    }
                    cx.tags.push("reimport".into());
                } else {
                    cx.tags.push("own-version-change".into());
                    ref_prev = vec![];
                    if o2.len() != 0 {
                        cx.viol.push(format!("C19:c19-{}-data-kept-across-own-version-change", m.name));
                    }
                    stale_lo = usize::MAX;
                }
                own = new_own;
                out = Some(o2);
            }
            _ => panic!("bad op {op}"),
        }
    }
    let _ = header_written;
    drop(out);
    drop(s);
    drop(us);
    let viol = cx.viol.iter().map(|v| v.to_string()).collect();
    let mut tags = cx.tags;
    tags.sort();
    tags.dedup();
    let _ = cx.id;
    (obs, viol, tags)
}

fn parse_and_exec(id: &str, toks: &[&str], full: bool) -> (Vec<String>, Vec<String>, Vec<String>) {
    // m=<name> f=<raw|pco> own=<k> w=<w> then ops
    let get = |k: &str| toks.iter().find_map(|t| t.strip_prefix(k)).unwrap_or("");
    let m = mdef(get("m=")).expect("method");
    let own: u32 = get("own=").parse().unwrap();
    let w: usize = get("w=").parse().unwrap();
    let ops: Vec<&str> = toks.iter().filter(|t| !t.contains('=')).cloned().collect();
    let (obs, viol, mut tags) = match get("f=") {
        "raw" => exec_case::<Raw>(id, m, own, w, &ops, full),
        "pco" => {
            assert!(Pco::NAME == "pco");
            exec_case::<Pco>(id, m, own, w, &ops, full)
        }
        f => panic!("format {f}"),
    };
    if get("large=") == "1" { tags.push("large".into()); }
    (obs, viol, tags)
}

// ------------------------------------------------------------------------------- generator
const WINDOWS: [usize; 9] = [0, 1, 2, 3, 5, 8, 13, 1000, usize::MAX];
const CAPS: [usize; 6] = [1, 2, 3, 7, 64, 0];

struct GenState {
    src: Vec<Vec<u64>>, // current contents of every source (u64 sources first, then usize ones)
    ver: Vec<u32>,
}

fn gen_value(rng: &mut Rng, m: &MDef, st: &GenState, j: usize, i: usize, small: u64) -> u64 {
    match m.shape {
        Shape::Any => rng.below(small),
        Shape::GeqSecond => {
            if j == 0 {
                let lo = st.src[1].get(i).copied().unwrap_or(1);
                lo + rng.below(small)
            } else if j == 1 {
                let hi = st.src[0].get(i).copied().unwrap_or(small).max(1);
                1 + rng.below(hi)
            } else {
                rng.below(small)
            }
        }
        Shape::NonDecr => {
            let prev = if i > 0 { st.src[j][i - 1] } else { 0 };
            // a later element may already exist only after truncation, never here (we append)
            prev + rng.below(4)
        }
        Shape::Groups | Shape::Keys | Shape::ItemGroups => rng.below(small), // generated jointly in gen_f7_round
        Shape::Starts => {
            if j < m.n64 {
                rng.below(small)
            } else {
                let prev = if i > 0 { st.src[j][i - 1] } else { 0 };
                let back = rng.below(6) as usize;
                (i.saturating_sub(back) as u64).max(prev).min(i as u64)
            }
        }
    }
}

/// One round of source changes for the F7 shapes (sources are generated jointly so that the group
/// layout stays consistent).  st.src order: u64 sources first, then usize sources.
fn gen_f7_round(rng: &mut Rng, m: &MDef, st: &mut GenState, ops: &mut Vec<String>, pending_lo: &mut usize, round: u64, big: bool, small: u64) {
    let push = |ops: &mut Vec<String>, st: &mut GenState, j: usize, vals: Vec<u64>| {
        if vals.is_empty() { return; }
        ops.push(format!("A{j}:{}", vals.iter().map(|v| v.to_string()).collect::<Vec<_>>().join(",")));
        st.src[j].extend(vals);
    };
    let trunc = |ops: &mut Vec<String>, st: &mut GenState, j: usize, to: usize| {
        if to < st.src[j].len() { st.src[j].truncate(to); ops.push(format!("T{j}:{to}")); }
    };
    let do_trunc = round > 0 && rng.chance(35, 100);
    let n = if big { rng.range(10, 60) } else { rng.range(0, 8) } as usize;
    match m.shape {
        Shape::Groups => {
            // j = 0 items, 1 first_indexes, (2 indexes_count)
            let has_count = m.nusz == 2;
            if do_trunc {
                let groups = st.src[1].len();
                let g0 = match rng.below(4) { 0 => 0, 1 => groups.saturating_sub(1), _ => rng.below(groups as u64 + 1) as usize };
                if g0 < groups {
                    let p = st.src[1][g0] as usize;
                    trunc(ops, st, 1, g0);
                    if has_count { trunc(ops, st, 2, g0); }
                    trunc(ops, st, 0, p);
                }
            }
            if !(round > 0 && rng.chance(15, 100)) {
                let (mut firsts, mut counts, mut items) = (vec![], vec![], vec![]);
                let mut pos = st.src[0].len() as u64;
                for _ in 0..n {
                    let c = *rng.pick(&[0u64, 0, 1, 1, 2, 3, 5]);
                    firsts.push(pos);
                    counts.push(c);
                    for _ in 0..c { items.push(rng.below(small)); }
                    pos += c;
                }
                push(ops, st, 0, items);
                push(ops, st, 1, firsts);
                if has_count { push(ops, st, 2, counts); }
                else if rng.chance(1, 4) && !st.src[1].is_empty() {
                    // more elements for the still-open last group (count variants read other_to_else.len())
                    let extra = (0..rng.range(1, 3)).map(|_| rng.below(small)).collect();
                    push(ops, st, 0, extra);
                }
            }
        }
        Shape::Keys => {
            // j = 0 values, 1 keys
            if do_trunc {
                let k0 = rng.below(st.src[1].len() as u64 + 1) as usize;
                trunc(ops, st, 1, k0);
                if rng.chance(1, 2) {
                    let need = st.src[1].last().map_or(0, |k| *k as usize + 1);
                    let p = need + rng.below((st.src[0].len() - need.min(st.src[0].len())) as u64 + 1) as usize;
                    trunc(ops, st, 0, p);
                }
            }
            if !(round > 0 && rng.chance(15, 100)) {
                let vals: Vec<u64> = (0..n + rng.below(3) as usize).map(|_| rng.below(small)).collect();
                push(ops, st, 0, vals);
                if !st.src[0].is_empty() {
                    let mut keys = vec![];
                    let mut last = st.src[1].last().copied().unwrap_or(0);
                    for _ in 0..n {
                        last = (last + *rng.pick(&[0u64, 0, 1, 1, 1, 2, 4])).min(st.src[0].len() as u64 - 1);
                        keys.push(last);
                    }
                    push(ops, st, 1, keys);
                }
            }
        }
        _ => {
            // ItemGroups: j = 0 item -> group, non-decreasing
            if do_trunc {
                let len = st.src[0].len();
                let p = match rng.below(4) { 0 => 0, 1 => len.saturating_sub(1), _ => rng.below(len as u64 + 1) as usize };
                if p < len { *pending_lo = (*pending_lo).min(p); }
                trunc(ops, st, 0, p);
            }
            if !(round > 0 && rng.chance(15, 100)) {
                let mut last = st.src[0].last().copied().unwrap_or(0);
                let from = st.src[0].len();
                let mut gs = vec![];
                for _ in 0..n {
                    last += *rng.pick(&[0u64, 0, 0, 1, 1, 2, 3]);
                    gs.push(last);
                }
                if !gs.is_empty() { *pending_lo = (*pending_lo).min(from); }
                push(ops, st, 0, gs);
            }
        }
    }
}

/// Methods whose per-step model cost grows with the index in the extracted code (binary/unary
/// conversions): their large cases stay just above one 4096-element chunk.
const HEAVY_MODEL: &[&str] = &["sum", "max", "min", "change", "rolling_count", "cum_count_from", "ath_from", "atl_from",
    "to", "range", "from_index", "transform", "transform2", "transform3", "transform4", "indirect", "lookback"];
const LARGE_CAPS: [usize; 9] = [0, 4096, 4095, 4097, 4090, 4100, 1000, 2048, 5000];

/// The "large" profile: sources of 4090-9000 elements so that cursors and range reads cross
/// 4096-element chunk boundaries: window starts / group boundaries that jump by 2..20 positions
/// across multiples of 4096, windows larger than a chunk, resume points and batch boundaries just
/// before/after a multiple of 4096.  Sources are described by generated segments (`G` ops).
fn gen_large_case(rng: &mut Rng, m: &MDef) -> String {
    let f = if rng.chance(1, 2) { "pco" } else { "raw" };
    let own = rng.range(1, 5) as u32;
    let heavy = HEAVY_MODEL.contains(&m.name);
    let w: usize = if m.name.ends_with("_of_others") { rng.range(1, 3) as usize }
        else if m.name.ends_with("_from") { *rng.pick(&[0usize, 4090, 4097]) }
        else if m.uses_w { *rng.pick(&[4000usize, 4096, 4097, 4100, 5000, 10, 1]) }
        else { 0 };
    let near = |rng: &mut Rng, c: usize| -> usize { (c as i64 + rng.range(0, 16) as i64 - 8).max(1) as usize };
    let n2 = if heavy { rng.range(4100, 5200) as usize } else { match rng.below(3) { 0 => near(rng, 8192).max(4200), 1 => rng.range(4097, 9000) as usize, _ => rng.range(4097, 4700) as usize } };
    let n1 = (if rng.chance(2, 3) { near(rng, 4096) } else { rng.range(2000, 4096) as usize }).min(n2);
    let ns = m.n64 + m.nusz;
    // compute_max/min keep equal values in the deque: a wide value range keeps the model's deque short
    let small: u64 = if m.name == "max" || m.name == "min" { 100_000 } else { *rng.pick(&[3u64, 8, 50, 1000]) };
    let mut st = GenState { src: vec![vec![]; ns], ver: vec![1; ns] };
    let mut ops: Vec<String> = vec![];
    // grow every source to `to` elements (group-structured shapes: `to` groups / keys)
    let grow = |rng: &mut Rng, st: &mut GenState, ops: &mut Vec<String>, to: usize| {
        let seg = |st: &mut GenState, ops: &mut Vec<String>, j: usize, n: usize, kind: &str, a: u64, b: u64, c: u64| {
            if n == 0 { return; }
            let from = st.src[j].len();
            let prev = st.src[j].last().copied().unwrap_or(0);
            let vals = gen_seg(kind, a, b, c, from, prev, n);
            st.src[j].extend(vals);
            ops.push(format!("G{j}:{n}:{kind}:{a}:{b}:{c}"));
        };
        let seed = rng.below(1 << 16);
        match m.shape {
            Shape::Groups => {
                // j = 0 elements, 1 first_indexes, (2 indexes_count); `to` = number of groups
                let have = st.src[1].len();
                if to <= have { return; }
                let n = to - have;
                let cm: u64 = if m.nusz == 2 { 7 } else { 3 };
                let base = st.src[0].len() as u64;
                let counts = gen_seg("r", seed, cm, 0, have, 0, n);
                let total: u64 = counts.iter().sum();
                seg(st, ops, 0, total as usize, "r", seed + 1, small, 0);
                seg(st, ops, 1, n, "f", seed, cm, base);
                if m.nusz == 2 { seg(st, ops, 2, n, "r", seed, cm, 0); }
            }
            Shape::Keys => {
                let have = st.src[1].len();
                if to <= have { return; }
                let nv = to.saturating_sub(st.src[0].len()) + rng.below(5) as usize;
                seg(st, ops, 0, nv, "r", seed, small, 0);
                let cap = st.src[0].len() as u64 - 1;
                seg(st, ops, 1, to - have, "k", seed + 1, *rng.pick(&[2u64, 3, 4]), cap);
            }
            _ => for j in 0..ns {
                let have = st.src[j].len();
                let tj = if rng.chance(5, 6) { to } else { to + rng.below(9) as usize };
                if tj <= have { continue; }
                let n = tj - have;
                let s = seed + j as u64;
                match m.shape {
                    Shape::GeqSecond if j == 0 => seg(st, ops, j, n, "r", s, small, small + 1),
                    Shape::GeqSecond if j == 1 => seg(st, ops, j, n, "r", s, small, 1),
                    Shape::NonDecr => seg(st, ops, j, n, "n", s, 4, 0),
                    Shape::Starts if j >= m.n64 => {
                        // small lags make the window start itself cross 4096 / 8192; stair steps that do not
                        // divide 4096 make a jump straddle the chunk boundary
                        let lag = *rng.pick(&[0u64, 5, 100, 500, 500, 1000, 4090, 4100, 5000]);
                        let step = *rng.pick(&[3u64, 5, 6, 7, 9, 10, 11, 12, 13, 15, 17, 20, 2, 16]);
                        seg(st, ops, j, n, "q", lag, step, 0)
                    }
                    _ => seg(st, ops, j, n, "r", s, small, 0),
                }
            },
        }
    };
    // lengths are counted in the output index space (groups / keys for the F7 shapes)
    let scale = |n: usize| match m.shape { Shape::Groups if m.nusz == 2 => (n / 3).max(1400), _ => n };
    let cut = |st: &mut GenState, ops: &mut Vec<String>, to: usize| {
        match m.shape {
            Shape::Groups => {
                if to < st.src[1].len() {
                    let p = st.src[1][to] as usize;
                    for j in (1..ns).rev() { st.src[j].truncate(to); ops.push(format!("T{j}:{to}")); }
                    st.src[0].truncate(p); ops.push(format!("T0:{p}"));
                }
            }
            Shape::Keys => if to < st.src[1].len() { st.src[1].truncate(to); ops.push(format!("T1:{to}")); },
            _ => for j in 0..ns { if to < st.src[j].len() { st.src[j].truncate(to); ops.push(format!("T{j}:{to}")); } },
        }
    };
    let out_len = |st: &GenState| match m.shape {
        Shape::Groups => st.src[ns - 1].len().min(st.src[1].len()),
        Shape::Keys => st.src[1].len(),
        _ => st.src.iter().map(|v| v.len()).min().unwrap_or(0),
    };
    grow(rng, &mut st, &mut ops, scale(n1));
    ops.push(format!("C0:{}", rng.pick(&LARGE_CAPS)));
    let l1 = out_len(&st);
    if rng.chance(1, 4) { ops.push("R".into()); }
    grow(rng, &mut st, &mut ops, scale(n2));
    ops.push(format!("C{}:{}", l1, rng.pick(&LARGE_CAPS)));
    if rng.chance(1, 2) {
        // truncate near a chunk boundary (or near the first resume point) and regrow
        let l2 = out_len(&st);
        let t = (match rng.below(3) { 0 => near(rng, 4096), 1 => near(rng, l1.max(9)), _ => near(rng, l2.saturating_sub(40).max(9)) }).min(l2);
        cut(&mut st, &mut ops, t);
        let t = t.min(out_len(&st));
        let extra = rng.below(30) as usize;
        grow(rng, &mut st, &mut ops, scale(n2) + extra);
        if rng.chance(1, 6) { ops.push(format!("V0:{}", rng.range(2, 9))); }
        ops.push(format!("C{}:{}", t, rng.pick(&LARGE_CAPS)));
    }
    if rng.chance(1, 3) { ops.push("R".into()); ops.push(format!("C{}:0", usize::MAX)); }
    format!("m={} f={} own={} w={} large=1 {}", m.name, f, own, w, ops.join(" "))
}

fn gen_case(rng: &mut Rng, case_no: u64, only: Option<&str>, c19: bool, large_pct: u64) -> String {
    let m: &MDef = match only {
        Some(n) => mdef(n).expect("method"),
        None => &METHODS[(case_no % METHODS.len() as u64) as usize],
    };
    if rng.chance(large_pct, 100) {
        // half of the large cases go to the methods that read through a Cursor / in chunked ranges
        const CURSOR_SET: &[&str] = &["rolling_sum", "rolling_max_fs", "rolling_min_fs", "sum", "max", "min", "lookback", "change",
            "rolling_count", "sum_fi", "fsum_fi", "count_fi", "fcount_fi", "indirect"];
        let lm = if only.is_none() && rng.chance(1, 2) { mdef(*rng.pick(CURSOR_SET)).unwrap() } else { m };
        if lm.name != "first_per_index" && lm.name != "atl_ex" {
            return gen_large_case(rng, lm);
        }
    }
    let f = if m.out == OutK::U64 && rng.chance(1, 2) { "pco" } else { "raw" };
    let f = if m.out == OutK::Usz { if rng.chance(1, 2) { "pco" } else { "raw" } } else { f };
    let own = rng.range(1, 5) as u32;
    let w: usize = if m.name.ends_with("_of_others") {
        rng.range(1, 3) as usize
    } else if m.name.ends_with("_from") {
        *rng.pick(&[0usize, 1, 2, 5, 9, 1000])
    } else if m.uses_w {
        let w = *rng.pick(&WINDOWS);
        if m.name == "rolling_count" && w == 0 { 1 } else { w } // window 0 underflows a usize in debug builds (noted in the report)
    } else {
        0
    };
    let ns = m.n64 + m.nusz;
    let small: u64 = *rng.pick(&[3u64, 8, 50, 1000]);
    let mut st = GenState { src: vec![vec![]; ns], ver: vec![1; ns] };
    let mut ops: Vec<String> = vec![];
    let nrounds = rng.range(2, 7);
    let mut pending_lo = usize::MAX;
    let mut out_len_guess = 0usize;
    // release builds wrap on overflow where debug builds panic (the model follows the debug
    // semantics), so inconsistent running state from an invalid max_from is only generated in debug
    let f7 = m.fam == "F7";
    let semantic = f7 && m.name != "first_per_index";
    let mut ref_prev: Vec<u64> = vec![];
    // first_per_index is compared against its from-scratch model only: valid histories only
    let malformed = rng.chance(15, 100) && cfg!(debug_assertions) && m.name != "first_per_index";
    let big = rng.chance(1, 6);
    // ---- ~10% of the cases start with results that exist ONLY in the pushed buffer (stored_len == 0):
    // values pushed by hand, or the prefix left by a user closure that failed before the write; on a
    // fresh vector or after a truncation to 0; followed by a version change (2/3) and a call with max_from > 0
    if !f7 && rng.chance(10, 100) {
        let append_all = |rng: &mut Rng, st: &mut GenState, ops: &mut Vec<String>, n: usize| {
            for j in 0..ns {
                let from = st.src[j].len();
                let mut vals = vec![];
                for i in from..from + n {
                    let v = gen_value(rng, m, st, j, i, small);
                    st.src[j].push(v);
                    vals.push(v.to_string());
                }
                ops.push(format!("A{j}:{}", vals.join(",")));
            }
        };
        if rng.chance(1, 2) {
            // computed once, then emptied by a truncation of the sources to 0: the version stays recorded
            let n0 = rng.range(2, 9) as usize;
            append_all(rng, &mut st, &mut ops, n0);
            ops.push(format!("C0:{}", rng.pick(&CAPS)));
            for j in 0..ns { st.src[j].clear(); ops.push(format!("T{j}:0")); }
            ops.push("C0:0".into());
        }
        let n = rng.range(3, 14) as usize;
        append_all(rng, &mut st, &mut ops, n);
        if m.logs && rng.chance(2, 3) {
            ops.push(format!("C0:{}:{}", rng.pick(&[0usize, 64]), rng.range(1, n as u64 - 1)));
        } else {
            ops.push(format!("hp:{}", rng.range(1, n as u64 + 2)));
        }
        if rng.chance(2, 3) {
            let j = rng.below(ns as u64) as usize;
            st.ver[j] = rng.range(2, 9) as u32;
            ops.push(format!("V{j}:{}", st.ver[j]));
        }
        let mf = match rng.below(5) { 0 => 1, 1 => rng.range(1, n as u64 + 3) as usize, 2 => n, 3 => usize::MAX, _ => rng.range(1, n as u64) as usize };
        ops.push(format!("C{mf}:{}", rng.pick(&CAPS)));
        if rng.chance(1, 4) { ops.push("R".into()); }
        out_len_guess = n;
        pending_lo = usize::MAX;
    }
    for round in 0..nrounds {
        // ---- source changes of this round
        let truncate_round = round > 0 && rng.chance(35, 100) && !f7;
        if f7 { gen_f7_round(rng, m, &mut st, &mut ops, &mut pending_lo, round, big, small); }
        if truncate_round {
            let minlen = st.src.iter().map(|v| v.len()).min().unwrap_or(0);
            let to = match rng.below(5) { 0 => 0, 1 => minlen.saturating_sub(1), _ => rng.below(minlen as u64 + 1) as usize };
            // truncate every source that is longer (keeps the cross-source shape constraints simple)
            for j in 0..ns {
                if rng.chance(4, 5) || m.shape != Shape::Any {
                    if to < st.src[j].len() {
                        st.src[j].truncate(to);
                        pending_lo = pending_lo.min(to);
                        ops.push(format!("T{j}:{to}"));
                    }
                }
            }
        }
        let grow = !(round > 0 && rng.chance(15, 100)) && !f7;
        if grow {
            let n = if big { rng.range(20, 120) } else { rng.range(0, 14) } as usize;
            for j in 0..ns {
                let nj = if rng.chance(3, 4) { n } else { rng.below(n as u64 + 3) as usize };
                if nj == 0 { continue; }
                let from = st.src[j].len();
                let mut vals = vec![];
                for i in from..from + nj {
                    let v = gen_value(rng, m, &st, j, i, small);
                    st.src[j].push(v);
                    vals.push(v.to_string());
                }
                pending_lo = pending_lo.min(from);
                ops.push(format!("A{j}:{}", vals.join(",")));
            }
        }
        if rng.chance(if c19 { 40 } else { 12 }, 100) {
            let j = rng.below(ns as u64) as usize;
            st.ver[j] = rng.range(1, 9) as u32;
            ops.push(format!("V{j}:{}", st.ver[j]));
        }
        // ---- compute calls of this round
        let ncalls = 1 + rng.chance(1, 3) as u64 + rng.chance(1, 8) as u64;
        for _ in 0..ncalls {
            // first_per_index: a finite cap can make the real loop run forever (see corpus/C06); cap = inf only
            let cap = if m.name == "first_per_index" { 0 } else { *rng.pick(&CAPS) };
            if semantic {
                let rn = f7_reference(m.name, &st.src[..m.n64], &st.src[m.n64..]);
                pending_lo = first_diff(&ref_prev, &rn);
                out_len_guess = ref_prev.len();
                ref_prev = rn;
            }
            let mf = if m.name == "first_per_index" {
                let other = &st.src[0];
                let bounds: Vec<usize> = (0..other.len()).filter(|&p| p == 0 || other[p - 1] < other[p]).collect();
                if pending_lo == usize::MAX {
                    match rng.below(4) { 0 => usize::MAX, 1 => other.len(), 2 => other.len() + 3, _ => bounds.last().copied().unwrap_or(0) }
                } else {
                    let below: Vec<usize> = bounds.iter().copied().filter(|&p| p <= pending_lo).collect();
                    match rng.below(6) {
                        0 => 0,
                        1 => *rng.pick(&below.iter().copied().chain(std::iter::once(0)).collect::<Vec<_>>()),
                        2 => pending_lo, // may fall inside a group: outside the contract, model-level comparison only
                        _ => below.last().copied().unwrap_or(0),
                    }
                }
            } else if pending_lo == usize::MAX {
                match rng.below(4) { 0 => out_len_guess, 1 => out_len_guess + rng.below(5) as usize, 2 => usize::MAX, _ => rng.below(out_len_guess as u64 + 1) as usize }
            } else if malformed && rng.chance(1, 3) {
                pending_lo + 1 + rng.below(4) as usize
            } else {
                match rng.below(6) { 0 => 0, 1 => rng.below(pending_lo as u64 + 1) as usize, _ => pending_lo }
            };
            ops.push(format!("C{mf}:{cap}"));
            pending_lo = usize::MAX;
            if !semantic { out_len_guess = st.src.iter().map(|v| v.len()).min().unwrap_or(0); }
            if rng.chance(1, 5) { ops.push("W".into()); }
            if rng.chance(if c19 { 30 } else { 20 }, 100) { ops.push("R".into()); }
            if rng.chance(if c19 { 8 } else { 2 }, 100) { ops.push(format!("N{}", rng.range(1, 5))); ref_prev = vec![]; }
        }
    }
    format!("m={} f={} own={} w={} {}", m.name, f, own, w, ops.join(" "))
}

pub fn run(args: &[String]) -> i32 {
    let a = crate::util::parse_args(args);
    crate::util::quiet_panics();
    let full = a.rest.iter().any(|x| x == "--full");
    let c19 = a.rest.iter().any(|x| x == "--c19");
    let only: Option<String> = a.rest.iter().find_map(|x| x.strip_prefix("--method=").map(|s| s.to_string()));
    let large_pct: u64 = a.rest.iter().find_map(|x| x.strip_prefix("--large=").map(|s| s.parse().unwrap())).unwrap_or(5);
    let emit = |id: &str, input: &str| {
        println!("I {id} {input}");
        let toks: Vec<&str> = input.split_whitespace().collect();
        let (obs, viol, tags) = parse_and_exec(id, &toks, full);
        for o in obs { println!("O {id} {o}"); }
        for v in viol { println!("V {id} {v}"); }
        for t in tags { println!("M {id} {t}"); }
    };
    if let Some(path) = a.replay {
        for (id, input) in crate::util::replay_inputs(&path) {
            emit(&id, &input);
        }
        return 0;
    }
    let mut rng = Rng::new(a.seed);
    for n in 0..a.cases {
        let input = gen_case(&mut rng, n, only.as_deref(), c19, large_pct);
        emit(&n.to_string(), &input);
    }
    0
}
