//! Engine `schedraw` (C10, C12 race part): a controller drives 2-3 real threads, each running
//! its own operation sequence on its OWN regions of one real rawdb::Database, at
//! lock-acquisition granularity.  Every rawdb lock accessor and every named pause point reports
//! to the tap ON the thread that hits it; the sink parks that thread until the controller
//! releases it, so exactly one worker runs at any time and a schedule (a list of thread ids /
//! run-until directives on the `I` line) determines the execution completely.
//!
//! Spec-level oracles (no model involved, `V` lines): per-thread reference byte vectors
//! (after each operation and at the end), the extent invariant at quiescence, reader bytes
//! within the set of bytes the region held since the reader's creation, results equal to the
//! results in isolation, no thread stuck while its lock is free, no deadlock.
//! Model level (`O` lines, compared with the extracted step model Conc/SrSteps.v): the
//! realised sequence of yield points (thread:label), every operation result, the final
//! allocator state and the final contents of every region.
use crate::eng_rawdb::{gen_data, name, Op, World};
use crate::rng::{fnv, Rng};
use crate::util::{parse_args, quiet_panics, replay_inputs};
use rawdb::verif_tap::{self, Event};
use rawdb::{Database, Reader, Region, PAGE_SIZE};
use std::cell::{Cell, RefCell};
use std::collections::BTreeMap;
use std::panic::{catch_unwind, AssertUnwindSafe};
use std::sync::{Arc, Condvar, Mutex, Once};
use std::time::{Duration, Instant};

// ------------------------------------------------------------------------------------ ops
#[derive(Clone, Debug)]
enum TOp {
    Base(Op),
    RdOpen(u64),
    RdRead,
    RdClose,
}

impl TOp {
    fn show(&self) -> String {
        match self {
            TOp::Base(o) => o.show(),
            TOp::RdOpen(i) => format!("do:{i}"),
            TOp::RdRead => "dr".into(),
            TOp::RdClose => "dc".into(),
        }
    }
    fn parse(s: &str) -> TOp {
        let t: Vec<&str> = s.split(':').collect();
        match t[0] {
            "do" => TOp::RdOpen(t[1].parse().unwrap()),
            "dr" => TOp::RdRead,
            "dc" => TOp::RdClose,
            _ => TOp::Base(Op::parse(s)),
        }
    }
    /// region ids this operation works on (ownership)
    fn ids(&self) -> Vec<u64> {
        match self {
            TOp::Base(Op::Create(i, _)) | TOp::Base(Op::Write(i, _, _)) | TOp::Base(Op::WriteAt(i, _, _, _))
            | TOp::Base(Op::TruncWrite(i, _, _, _)) | TOp::Base(Op::Truncate(i, _)) | TOp::Base(Op::Remove(i)) => vec![*i],
            TOp::Base(Op::Rename(i, j)) => vec![*i, *j],
            _ => vec![],
        }
    }
}

// ------------------------------------------------------------------------------------ controller
#[derive(Default)]
struct ThreadSt {
    parked: Option<String>,
    go: bool,
    finished: bool,
    results: Vec<String>,
}

#[derive(Default)]
struct CtlState {
    th: Vec<ThreadSt>,
    punches: Vec<(usize, usize)>,
    /// per punch: the uids of the regions on which an operation was in flight (predicted version appended,
    /// not yet completed) at the moment of the punch
    punch_inflight: Vec<Vec<u64>>,
    viol: Vec<String>,
    /// uid -> every version of the contents the region held or was about to hold (an operation's
    /// predicted result is appended when the operation starts)
    hist: BTreeMap<u64, Vec<Vec<u8>>>,
    /// uid -> index of the last version whose operation has completed
    completed: BTreeMap<u64, usize>,
    /// region id -> number of Reader operations alive or in flight (a Reader keeps a handle: removal is refused by design)
    readers_on: BTreeMap<u64, i64>,
    abort: bool,
}

struct Ctl {
    m: Mutex<CtlState>,
    cv_ctl: Condvar,
    cv_thr: Vec<Condvar>,
}

thread_local! {
    static CUR: RefCell<Option<(Arc<Ctl>, usize)>> = const { RefCell::new(None) };
    static FREE: Cell<bool> = const { Cell::new(false) };
}
static CASE: Mutex<Option<Arc<Ctl>>> = Mutex::new(None);
static SINK: Once = Once::new();

fn label_of(e: &Event) -> Option<String> {
    match e {
        Event::Lock { class, instance, write } => {
            let m = if *write { "w" } else { "r" };
            Some(match *class {
                "layout" => format!("L{m}"),
                "regions" => format!("R{m}"),
                "mmap" => format!("P{m}"),
                "file" => format!("F{m}"),
                "meta" => format!("M{m}{}", instance.wrapping_sub(1)),
                "dirty_bounds" => format!("D{}", instance.wrapping_sub(1)),
                other => format!("X{other}"),
            })
        }
        Event::Pause { name } => Some(format!("Z:{name}")),
        _ => None,
    }
}

fn install_sink() {
    SINK.call_once(|| {
        verif_tap::set_sink(Some(Box::new(|e: &Event| {
            if let Event::Punch { offset, len } = e {
                if let Some(c) = CASE.lock().unwrap().as_ref() {
                    let mut g = c.m.lock().unwrap();
                    let inflight: Vec<u64> = g.hist.iter()
                        .filter(|(uid, h)| h.len().saturating_sub(1) > g.completed.get(*uid).copied().unwrap_or(0))
                        .map(|(uid, _)| *uid).collect();
                    g.punches.push((*offset, *len));
                    g.punch_inflight.push(inflight);
                }
                return;
            }
            let Some(l) = label_of(e) else { return };
            if FREE.with(|f| f.get()) {
                return;
            }
            let cur = CUR.with(|c| c.borrow().clone());
            if let Some((ctl, tid)) = cur {
                ctl.yield_point(tid, l);
            }
        })));
    });
}

impl Ctl {
    /// called ON a worker thread: park here until the controller releases this thread
    fn yield_point(&self, tid: usize, label: String) {
        let mut g = self.m.lock().unwrap();
        if g.abort {
            return;
        }
        g.th[tid].parked = Some(label);
        self.cv_ctl.notify_all();
        while !g.th[tid].go && !g.abort {
            g = self.cv_thr[tid].wait(g).unwrap();
        }
        g.th[tid].go = false;
        g.th[tid].parked = None;
    }
}

/// is the lock a parked thread is about to take available?  Only the four database-level
/// locks can be held across a yield point (meta / dirty_bounds guards never live across
/// another lock acquisition in the operations driven here).
fn enabled(db: &Database, label: &str) -> bool {
    let st = db.verif_lock_state();
    let idx = match &label[..1] {
        "L" => 0,
        "R" => 1,
        "P" => 2,
        "F" => 3,
        _ => return true,
    };
    match &label[1..2] {
        "w" => st[idx] == 0,
        "r" => st[idx] != 2,
        _ => true,
    }
}

#[derive(PartialEq)]
enum StepRes {
    Stepped,
    Finished,
    Blocked,
    Stuck,
}

struct Controller {
    ctl: Arc<Ctl>,
    db: Database,
    n: usize,
    trace: Vec<String>,
}

impl Controller {
    fn wait_parked(&self, t: usize) -> bool {
        // the property's bound is 2 s; 20 s keeps a loaded machine from raising false alarms
        let deadline = Instant::now() + Duration::from_secs(20);
        let mut g = self.ctl.m.lock().unwrap();
        while g.th[t].parked.is_none() && !g.th[t].finished {
            let now = Instant::now();
            if now >= deadline {
                return false;
            }
            let (g2, _) = self.ctl.cv_ctl.wait_timeout(g, deadline - now).unwrap();
            g = g2;
        }
        true
    }
    fn label(&self, t: usize) -> Option<String> {
        let g = self.ctl.m.lock().unwrap();
        if g.th[t].finished { None } else { g.th[t].parked.clone() }
    }
    fn finished(&self, t: usize) -> bool {
        self.ctl.m.lock().unwrap().th[t].finished
    }
    /// one scheduling step of thread t: pass its current yield point and run to the next one
    fn step(&mut self, t: usize) -> StepRes {
        if t >= self.n {
            return StepRes::Finished;
        }
        let Some(l) = self.label(t) else { return StepRes::Finished };
        if !enabled(&self.db, &l) {
            return StepRes::Blocked;
        }
        self.trace.push(format!("{t}:{l}"));
        {
            let mut g = self.ctl.m.lock().unwrap();
            g.th[t].parked = None;
            g.th[t].go = true;
            self.ctl.cv_thr[t].notify_all();
        }
        if !self.wait_parked(t) {
            return StepRes::Stuck;
        }
        StepRes::Stepped
    }
    /// `t` | `t>label` | `t!` | `t*`
    fn run_token(&mut self, tok: &str) -> bool {
        let t: usize = tok[..1].parse().unwrap_or(9);
        let rest = &tok[1..];
        let mut first = true;
        loop {
            if rest.is_empty() && !first {
                return true;
            }
            if let Some(target) = rest.strip_prefix('>') {
                match self.label(t) {
                    None => return true,
                    Some(l) if l == target => return true,
                    _ => {}
                }
            }
            if rest == "!" && !first {
                match self.label(t) {
                    None => return true,
                    Some(l) if l.starts_with('B') => return true,
                    _ => {}
                }
            }
            match self.step(t) {
                StepRes::Stepped => {}
                StepRes::Finished => return true,
                StepRes::Blocked => {
                    self.trace.push(format!("{t}:blk"));
                    return true;
                }
                StepRes::Stuck => return false,
            }
            first = false;
        }
    }
    /// after the schedule: run the threads to completion in index order, as far as they are enabled
    fn complete(&mut self) -> Result<(), String> {
        loop {
            let mut progress = false;
            let mut unfinished = false;
            for t in 0..self.n {
                loop {
                    match self.step(t) {
                        StepRes::Stepped => progress = true,
                        StepRes::Finished => break,
                        StepRes::Blocked => {
                            unfinished = true;
                            break;
                        }
                        StepRes::Stuck => return Err(format!("thread-stuck-although-its-lock-is-free thread={t}")),
                    }
                }
            }
            if !unfinished {
                return Ok(());
            }
            if !progress {
                let ls: Vec<String> = (0..self.n).map(|t| format!("{t}@{}", self.label(t).unwrap_or("fin".into()))).collect();
                return Err(format!("all-unfinished-threads-blocked {}", ls.join(" ")));
            }
        }
    }
}

// ------------------------------------------------------------------------------------ workers
fn res<T>(r: rawdb::Result<T>) -> String {
    match r {
        Ok(_) => "ok".into(),
        Err(e) => format!("err:{}", err_name(&e)),
    }
}

fn err_name(e: &rawdb::Error) -> &'static str {
    use rawdb::Error::*;
    match e {
        IO(_) => "IO",
        RegionNotFound => "RegionNotFound",
        RegionMetadataUnwritten => "RegionMetadataUnwritten",
        RegionAlreadyExists => "RegionAlreadyExists",
        RegionStillReferenced { .. } => "RegionStillReferenced",
        WriteOutOfBounds { .. } => "WriteOutOfBounds",
        TruncateInvalid { .. } => "TruncateInvalid",
        RegionIndexMismatch => "RegionIndexMismatch",
        HoleTooSmall { .. } => "HoleTooSmall",
        InvariantViolation(_) => "InvariantViolation",
        RegionSizeOverflow { .. } => "RegionSizeOverflow",
        OverlappingCopyRanges { .. } => "OverlappingCopyRanges",
        _ => "Other",
    }
}

/// reference effect of a content operation on one byte vector (the property's "in isolation")
fn apply_ref(op: &Op, refs: &mut BTreeMap<u64, Vec<u8>>) -> String {
    match op {
        Op::Create(id, _) => {
            refs.entry(*id).or_default();
            "ok".into()
        }
        Op::Write(id, w, n) => match refs.get_mut(id) {
            Some(r) => {
                r.extend(gen_data(*w, *n));
                "ok".into()
            }
            None => "err:RegionNotFound".into(),
        },
        Op::WriteAt(id, w, n, at) | Op::TruncWrite(id, w, n, at) => {
            let trunc = matches!(op, Op::TruncWrite(..));
            match refs.get_mut(id) {
                Some(r) => {
                    let at = *at as usize;
                    if at > r.len() {
                        return "err:WriteOutOfBounds".into();
                    }
                    let d = gen_data(*w, *n);
                    let end = at + d.len();
                    if trunc {
                        r.truncate(at);
                        r.extend(d);
                    } else {
                        if end > r.len() {
                            r.resize(end, 0);
                        }
                        r[at..end].copy_from_slice(&d);
                    }
                    "ok".into()
                }
                None => "err:RegionNotFound".into(),
            }
        }
        Op::Truncate(id, from) => match refs.get_mut(id) {
            Some(r) => {
                if *from as usize > r.len() {
                    "err:TruncateInvalid".into()
                } else {
                    r.truncate(*from as usize);
                    "ok".into()
                }
            }
            None => "err:RegionNotFound".into(),
        },
        Op::Rename(id, new) => {
            if !refs.contains_key(id) {
                return "err:RegionNotFound".into();
            }
            if refs.contains_key(new) {
                return "err:RegionAlreadyExists".into();
            }
            let r = refs.remove(id).unwrap();
            refs.insert(*new, r);
            "ok".into()
        }
        Op::Remove(id) => {
            if refs.remove(id).is_none() {
                return "err:RegionNotFound".into();
            }
            "ok".into()
        }
        _ => "ok".into(),
    }
}

struct Worker {
    ctl: Arc<Ctl>,
    tid: usize,
    db: Database,
    handles: BTreeMap<u64, Region>,
    refs: BTreeMap<u64, Vec<u8>>,
    /// id -> stable uid (survives renames) for the content history
    uid: BTreeMap<u64, u64>,
    reader: Option<(Reader, u64, usize, usize)>,
    reading: Option<u64>,
}

impl Worker {
    fn viol(&self, s: String) {
        self.ctl.m.lock().unwrap().viol.push(s);
    }

    fn exec(&mut self, op: &TOp) -> String {
        match op {
            TOp::Base(o) => self.exec_base(o),
            TOp::RdOpen(id) => match self.db.get_region(&name(*id)) {
                Some(r) => {
                    let uid = *self.uid.get(id).unwrap_or(id);
                    let from = self.ctl.m.lock().unwrap().completed.get(&uid).copied().unwrap_or(0);
                    FREE.with(|f| f.set(true));
                    let start0 = r.meta().start();
                    FREE.with(|f| f.set(false));
                    let rd = r.create_reader();
                    drop(r);
                    let l = rd.len();
                    self.reader = Some((rd, uid, from, start0));
                    format!("ok:{l}")
                }
                None => "err:RegionNotFound".into(),
            },
            TOp::RdRead => match &self.reader {
                Some((rd, uid, from, start0)) => {
                    let bytes = rd.read_all().to_vec();
                    let g = self.ctl.m.lock().unwrap();
                    let empty = vec![];
                    let versions = &g.hist.get(uid).unwrap_or(&empty)[(*from).min(g.hist.get(uid).map(|h| h.len()).unwrap_or(0))..];
                    let mut bad: Option<usize> = None;
                    for (off, b) in bytes.iter().enumerate() {
                        if !versions.iter().any(|v| v.get(off) == Some(b)) {
                            bad = Some(off);
                            break;
                        }
                    }
                    let lens_ok = versions.iter().any(|v| v.len() == bytes.len());
                    drop(g);
                    if let Some(off) = bad {
                        // whose bytes are these?  (only when no parked thread holds the regions table exclusively)
                        let addr = start0 + off;
                        let mut key = "reader-returns-bytes-the-region-never-held-since-reader-creation".to_string();
                        if self.db.verif_lock_state()[1] != 2 {
                            FREE.with(|f| f.set(true));
                            let regs = self.db.regions();
                            let mut moved = false;
                            let mut foreign: Option<String> = None;
                            for r in regs.index_to_region().iter().flatten() {
                                let m = r.meta();
                                let is_self = m.id() == name(*uid);
                                if is_self && m.start() != *start0 {
                                    moved = true;
                                }
                                if !is_self && m.start() <= addr && addr < m.start() + m.reserved() {
                                    foreign = Some(m.id().to_string());
                                }
                            }
                            drop(regs);
                            FREE.with(|f| f.set(false));
                            let punched = self.ctl.m.lock().unwrap().punches.iter().any(|(o, l)| *o <= addr && addr < o + l);
                            if moved && foreign.is_some() {
                                key = format!("reader-returns-bytes-of-another-region-after-relocation-flush-reuse other={}", foreign.unwrap());
                            } else if moved && punched && bytes[off] == 0 {
                                key = "reader-returns-zeroes-of-punched-old-extent-after-relocation-compact".to_string();
                            } else if !moved && punched && bytes[off] == 0 {
                                key = "reader-returns-zeroes-of-punched-tail-after-truncate-compact".to_string();
                            }
                        }
                        self.viol(format!("{key} region-uid={uid} offset={off} byte={} reader-len={} reader-start={start0}", bytes[off], bytes.len()));
                    } else if !lens_ok {
                        self.viol(format!("reader-length-is-no-length-the-region-had-since-reader-creation region-uid={uid} reader-len={}", bytes.len()));
                    }
                    format!("ok:{}:{:016x}", bytes.len(), fnv(&bytes))
                }
                None => "err:NoReader".into(),
            },
            TOp::RdClose => {
                self.reader = None;
                "ok".into()
            }
        }
    }

    fn exec_base(&mut self, op: &Op) -> String {
        match op {
            Op::Create(id, _) => match self.db.create_region_if_needed(&name(*id)) {
                Ok(r) => {
                    self.handles.insert(*id, r);
                    "ok".into()
                }
                Err(e) => format!("err:{}", err_name(&e)),
            },
            Op::Write(id, w, n) => match self.handles.get(id) {
                Some(r) => res(r.write(&gen_data(*w, *n))),
                None => "err:RegionNotFound".into(),
            },
            Op::WriteAt(id, w, n, at) => match self.handles.get(id) {
                Some(r) => res(r.write_at(&gen_data(*w, *n), *at as usize)),
                None => "err:RegionNotFound".into(),
            },
            Op::TruncWrite(id, w, n, at) => match self.handles.get(id) {
                Some(r) => res(r.truncate_write(*at as usize, &gen_data(*w, *n))),
                None => "err:RegionNotFound".into(),
            },
            Op::Truncate(id, from) => match self.handles.get(id) {
                Some(r) => res(r.truncate(*from as usize)),
                None => "err:RegionNotFound".into(),
            },
            Op::Rename(id, new) => match self.handles.get(id) {
                Some(r) => {
                    let out = res(r.rename(&name(*new)));
                    if out == "ok" {
                        let h = self.handles.remove(id).unwrap();
                        self.handles.insert(*new, h);
                    }
                    out
                }
                None => "err:RegionNotFound".into(),
            },
            Op::Remove(id) => match self.handles.remove(id) {
                Some(r) => {
                    let out = res(r.remove());
                    if out != "ok" && self.db.verif_lock_state()[1] != 2 {
                        FREE.with(|f| f.set(true));
                        if let Some(h) = self.db.get_region(&name(*id)) {
                            self.handles.insert(*id, h);
                        }
                        FREE.with(|f| f.set(false));
                    }
                    out
                }
                None => "err:RegionNotFound".into(),
            },
            Op::Flush => match self.db.flush() {
                Ok(n) => format!("ok:{n}"),
                Err(e) => format!("err:{}", err_name(&e)),
            },
            Op::Compact => res(self.db.compact()),
            _ => "err:Unsupported".into(),
        }
    }

    /// spec-level oracle: this thread's regions hold exactly what its own operations wrote
    fn check_own(&mut self, when: &str) {
        let mut resync: Vec<(u64, Vec<u8>)> = vec![];
        if self.db.verif_lock_state()[2] == 2 {
            return; // a parked thread holds the mmap exclusively: checked later
        }
        FREE.with(|f| f.set(true));
        for (id, want) in &self.refs {
            let Some(r) = self.handles.get(id) else { continue };
            let rd = r.create_reader();
            let have = rd.read_all();
            if have.len() != want.len() || have != &want[..] {
                // report once, then follow the implementation so that later operations are judged on their own
                resync.push((*id, have.to_vec()));
            }
            if have.len() != want.len() {
                self.viol(format!("thread-region-length-differs-from-own-ops {when} region={id} have={} want={}", have.len(), want.len()));
            } else if have != &want[..] {
                let first = have.iter().zip(want.iter()).position(|(a, b)| a != b).unwrap();
                let last = have.iter().zip(want.iter()).rposition(|(a, b)| a != b).unwrap();
                let zeros = (first..=last).all(|k| have[k] == want[k] || have[k] == 0);
                let start = r.meta().start();
                let uid = *self.uid.get(id).unwrap_or(id);
                let (punched, mid_write) = {
                    let g = self.ctl.m.lock().unwrap();
                    let hit: Vec<usize> = g.punches.iter().enumerate()
                        .filter(|(_, (o, l))| *o <= start + first && start + first < o + l).map(|(k, _)| k).collect();
                    (!hit.is_empty(), hit.iter().any(|k| g.punch_inflight.get(*k).map(|v| v.contains(&uid)).unwrap_or(false)))
                };
                if zeros && punched && mid_write {
                    self.viol(format!("C12:punch-zeroes-bytes-copied-but-not-yet-published {when} region={id} zeroed={first}..={last} len={}", want.len()));
                } else if zeros && punched {
                    // no operation on this region was in flight when compaction punched: the bytes belonged to a COMPLETED write
                    self.viol(format!("C12:punch-zeroes-bytes-of-a-completed-write {when} region={id} zeroed={first}..={last} len={}", want.len()));
                } else {
                    self.viol(format!("thread-region-bytes-differ-from-own-ops {when} region={id} first-at={first} last-at={last} len={} have={} want={}", want.len(), have[first], want[first]));
                }
            }
        }
        FREE.with(|f| f.set(false));
        for (id, v) in resync {
            // the region does hold these bytes now: readers may legitimately see them
            let uid = *self.uid.get(&id).unwrap_or(&id);
            self.ctl.m.lock().unwrap().hist.entry(uid).or_default().push(v.clone());
            self.refs.insert(id, v);
        }
    }

    fn run(mut self, ops: Vec<TOp>) {
        CUR.with(|c| *c.borrow_mut() = Some((self.ctl.clone(), self.tid)));
        for (k, op) in ops.iter().enumerate() {
            self.ctl.yield_point(self.tid, format!("B{k}"));
            if self.ctl.m.lock().unwrap().abort {
                break;
            }
            // predicted result in isolation; its contents become a possible version for readers
            let mut predicted = self.refs.clone();
            let want = match op {
                TOp::Base(o) => apply_ref(o, &mut predicted),
                _ => "ok".into(),
            };
            if let TOp::Base(o) = op {
                if let Op::Create(id, _) = o {
                    self.uid.entry(*id).or_insert(*id);
                }
                let mut g = self.ctl.m.lock().unwrap();
                for (id, v) in &predicted {
                    let uid = *self.uid.get(id).unwrap_or(id);
                    let h = g.hist.entry(uid).or_default();
                    if h.last() != Some(v) {
                        h.push(v.clone());
                    }
                }
                drop(g);
                if let Op::Rename(a, b) = o {
                    if let Some(u) = self.uid.remove(a) {
                        self.uid.insert(*b, u);
                    }
                }
            }
            let mut reader_overlap = false;
            match op {
                TOp::RdOpen(id) => {
                    *self.ctl.m.lock().unwrap().readers_on.entry(*id).or_insert(0) += 1;
                    self.reading = Some(*id);
                }
                TOp::Base(Op::Remove(id)) => reader_overlap = self.ctl.m.lock().unwrap().readers_on.get(id).copied().unwrap_or(0) > 0,
                _ => {}
            }
            let r = catch_unwind(AssertUnwindSafe(|| self.exec(op)));
            let got = r.unwrap_or_else(|_| "panic".into());
            match op {
                TOp::RdClose => {
                    if let Some(id) = self.reading.take() {
                        *self.ctl.m.lock().unwrap().readers_on.entry(id).or_insert(0) -= 1;
                    }
                }
                TOp::RdOpen(_) if !got.starts_with("ok") => {
                    if let Some(id) = self.reading.take() {
                        *self.ctl.m.lock().unwrap().readers_on.entry(id).or_insert(0) -= 1;
                    }
                }
                TOp::Base(Op::Remove(id)) => reader_overlap |= self.ctl.m.lock().unwrap().readers_on.get(id).copied().unwrap_or(0) > 0,
                _ => {}
            }
            let kind = |s: &str| s.split(':').take(if s.starts_with("err") { 2 } else { 1 }).collect::<Vec<_>>().join(":");
            if matches!(op, TOp::Base(_)) {
                if kind(&got) == kind(&want) {
                    if got.starts_with("ok") {
                        self.refs = predicted;
                    }
                } else if reader_overlap && got == "err:RegionStillReferenced" {
                    // by design: a live Reader holds a handle of the region
                } else {
                    let opk = op.show().split(':').next().unwrap().to_string();
                    let mut key = format!("result-differs-from-isolation-after-{opk}-{}", got.replace(':', "-"));
                    if opk == "rm" && got == "err:RegionStillReferenced" {
                        key = "remove-refused-while-flush-or-compact-holds-a-clone-of-the-region".into();
                    }
                    if got == "panic" && matches!(op, TOp::Base(Op::Write(..)) | TOp::Base(Op::WriteAt(..)) | TOp::Base(Op::TruncWrite(..))) {
                        let id = op.ids()[0];
                        FREE.with(|f| f.set(true));
                        if let Some(h) = self.handles.get(&id) {
                            let m = h.meta();
                            if m.start() + m.reserved() > self.db.file_len() {
                                key = format!("write-panics-region-placed-beyond-the-file-end start={} reserved={} file={}", m.start(), m.reserved(), self.db.file_len());
                            }
                        }
                        FREE.with(|f| f.set(false));
                    }
                    self.viol(format!("{key} thread={} op={} got={got} want={want}", self.tid, op.show()));
                    if got.starts_with("ok") {
                        self.refs = predicted;
                    }
                }
                let mut g = self.ctl.m.lock().unwrap();
                for id in self.refs.keys() {
                    let uid = *self.uid.get(id).unwrap_or(id);
                    let n = g.hist.get(&uid).map(|h| h.len()).unwrap_or(1);
                    g.completed.insert(uid, n.saturating_sub(1));
                }
            }
            self.ctl.m.lock().unwrap().th[self.tid].results.push(got.clone());
            if got != "panic" {
                let _ = catch_unwind(AssertUnwindSafe(|| self.check_own(&format!("after-op={}", op.show()))));
            }
        }
        self.reader = None;
        if let Some(id) = self.reading.take() {
            *self.ctl.m.lock().unwrap().readers_on.entry(id).or_insert(0) -= 1;
        }
        let mut g = self.ctl.m.lock().unwrap();
        g.th[self.tid].finished = true;
        g.th[self.tid].parked = None;
        self.ctl.cv_ctl.notify_all();
        drop(g);
        CUR.with(|c| *c.borrow_mut() = None);
    }
}

// ------------------------------------------------------------------------------------ quiescent oracles
/// extent invariant of C02 on the real allocator state (same rules as eng_rawdb's oracle)
fn check_extents(db: &Database, dir: &std::path::Path) -> Option<String> {
    let layout = db.layout();
    let regions = db.regions();
    let page = PAGE_SIZE as u64;
    let mut ext: Vec<(u64, u64, String)> = vec![];
    for r in regions.index_to_region().iter().flatten() {
        let m = r.meta();
        if m.len() > m.reserved() {
            return Some(format!("len-exceeds-reserve region={}", m.id()));
        }
        ext.push((m.start() as u64, m.reserved() as u64, format!("region:{}", m.id())));
        if layout.start_to_region().get(&m.start()).map(|x| x.index()) != Some(r.index()) {
            return Some(format!("live-region-missing-from-layout region={}", m.id()));
        }
    }
    if layout.start_to_region().len() != regions.index_to_region().iter().flatten().count() {
        return Some("layout-lists-a-region-that-is-not-live".into());
    }
    for (s, z) in layout.start_to_hole() {
        ext.push((*s as u64, *z as u64, "hole".into()));
    }
    for (s, z) in layout.verif_pending_holes() {
        ext.push((*s as u64, *z as u64, "pending".into()));
    }
    for (s, z) in layout.verif_start_to_reserved() {
        ext.push((*s as u64, *z as u64, "reserved".into()));
    }
    ext.sort();
    let mut pos = 0u64;
    let mut prev_hole = false;
    for (s, z, k) in &ext {
        if s % page != 0 || z % page != 0 || *z == 0 {
            return Some(format!("misaligned-extent {k} start={s} size={z}"));
        }
        if *s < pos {
            return Some(format!("overlapping-extents at={s} kind={k}"));
        }
        if *s > pos {
            return Some(format!("untracked-gap from={pos} to={s}"));
        }
        if prev_hole && k == "hole" {
            return Some(format!("adjacent-holes-not-merged at={s}"));
        }
        prev_hole = k == "hole";
        pos = s + z;
    }
    if pos != layout.len() as u64 {
        return Some(format!("layout-len-mismatch computed={pos} reported={}", layout.len()));
    }
    if pos > db.file_len() as u64 {
        return Some(format!("allocated-area-exceeds-file end={pos} file={}", db.file_len()));
    }
    let real = std::fs::metadata(dir.join("data")).map(|m| m.len()).unwrap_or(0);
    if real != db.file_len() as u64 {
        return Some(format!("cached-file-len-wrong cached={} real={real}", db.file_len()));
    }
    None
}

fn contents(db: &Database) -> String {
    let mut ids: Vec<u64> = db.regions().id_to_index().keys().filter_map(|k| k.trim_start_matches('r').parse().ok()).collect();
    ids.sort();
    let mut parts = vec![];
    for id in ids {
        let r = db.get_region(&name(id)).unwrap();
        let end = (r.meta().start() + r.meta().len()) as usize;
        if end > db.file_len() {
            parts.push(format!("{id}@{}:beyond-file", r.meta().len()));
            continue;
        }
        let rd = r.create_reader();
        parts.push(format!("{id}@{}:{:016x}", rd.len(), fnv(rd.read_all())));
    }
    if parts.is_empty() { "-".into() } else { parts.join(" ") }
}

// ------------------------------------------------------------------------------------ one case
/// every oracle key names the property it concerns (`C12:` for the compaction race, `C10:` otherwise)
fn keyed(v: &str) -> String {
    if v.starts_with("C10:") || v.starts_with("C12:") { v.to_string() } else { format!("C10:{v}") }
}
struct Case {
    min_len: u64,
    pre: Vec<Op>,
    progs: Vec<Vec<TOp>>,
    sched: Vec<String>,
}

impl Case {
    fn show(&self) -> String {
        let ops = |v: &Vec<String>| if v.is_empty() { "-".to_string() } else { v.join(",") };
        let mut s = format!("open:{} pre={}", self.min_len, ops(&self.pre.iter().map(|o| o.show()).collect()));
        for (t, p) in self.progs.iter().enumerate() {
            s.push_str(&format!(" T{t}={}", ops(&p.iter().map(|o| o.show()).collect())));
        }
        s.push_str(&format!(" s={}", ops(&self.sched)));
        s
    }
    fn parse(body: &str) -> Case {
        let mut c = Case { min_len: 0, pre: vec![], progs: vec![], sched: vec![] };
        for tok in body.split_whitespace() {
            if let Some(v) = tok.strip_prefix("open:") {
                c.min_len = v.parse().unwrap();
            } else if let Some(v) = tok.strip_prefix("pre=") {
                if v != "-" {
                    c.pre = v.split(',').map(Op::parse).collect();
                }
            } else if let Some(v) = tok.strip_prefix("s=") {
                if v != "-" {
                    c.sched = v.split(',').map(|x| x.to_string()).collect();
                }
            } else if tok.starts_with('T') {
                let (_, v) = tok.split_once('=').unwrap();
                c.progs.push(if v == "-" { vec![] } else { v.split(',').map(TOp::parse).collect() });
            }
        }
        c
    }
}

fn run_case(cid: &str, case: &Case) {
    install_sink();
    let mut w = World::new(case.min_len);
    let mut obs: Vec<String> = vec![];
    let mut viol: Vec<String> = vec![];
    // sequential set-up on this thread (no worker identity: taps pass through)
    let mut pre_res = vec![];
    for op in &case.pre {
        let got = w.exec(op);
        w.apply_ref(op);
        pre_res.push(got);
    }
    obs.push(format!("pre {} | {}", if pre_res.is_empty() { "-".into() } else { pre_res.join(",") }, w.dump()));
    let db = w.db().clone();
    let n = case.progs.len();
    let ctl = Arc::new(Ctl {
        m: Mutex::new(CtlState { th: (0..n).map(|_| ThreadSt::default()).collect(), ..Default::default() }),
        cv_ctl: Condvar::new(),
        cv_thr: (0..n).map(|_| Condvar::new()).collect(),
    });
    *CASE.lock().unwrap() = Some(ctl.clone());
    // ownership: a region belongs to the first thread whose program names it
    let mut owner: BTreeMap<u64, usize> = BTreeMap::new();
    for (t, p) in case.progs.iter().enumerate() {
        for op in p {
            for id in op.ids() {
                owner.entry(id).or_insert(t);
            }
        }
    }
    {
        let mut g = ctl.m.lock().unwrap();
        for (id, r) in &w.reference {
            g.hist.insert(*id, vec![r.data.clone()]);
            g.completed.insert(*id, 0);
        }
    }
    let mut joins = vec![];
    for (t, p) in case.progs.iter().enumerate() {
        let mut handles = BTreeMap::new();
        let mut refs = BTreeMap::new();
        let mut uid = BTreeMap::new();
        for (id, tt) in &owner {
            if *tt == t {
                if let Some(r) = db.get_region(&name(*id)) {
                    handles.insert(*id, r);
                    refs.insert(*id, w.reference.get(id).map(|r| r.data.clone()).unwrap_or_default());
                    uid.insert(*id, *id);
                }
            }
        }
        let (ctl2, db2) = (ctl.clone(), db.clone());
        let ops = p.clone();
        joins.push(std::thread::spawn(move || {
            let wk = Worker { ctl: ctl2, tid: t, db: db2, handles, refs, uid, reader: None, reading: None };
            wk.run(ops)
        }));
    }
    let mut c = Controller { ctl: ctl.clone(), db: db.clone(), n, trace: vec![] };
    let mut dead: Option<String> = None;
    for t in 0..n {
        if !c.wait_parked(t) {
            dead = Some(format!("thread-stuck-although-its-lock-is-free thread={t} at-start"));
        }
    }
    if dead.is_none() {
        for tok in &case.sched {
            if !c.run_token(tok) {
                dead = Some(format!("thread-stuck-although-its-lock-is-free token={tok}"));
                break;
            }
        }
    }
    if dead.is_none() {
        if let Err(e) = c.complete() {
            dead = Some(e);
        }
    }
    obs.push(format!("tr {}", c.trace.join(" ")));
    if let Some(d) = dead {
        // threads that can never finish are left parked (leaked); the case ends here
        viol.push(d);
        {
            let g = ctl.m.lock().unwrap();
            for (t, th) in g.th.iter().enumerate() {
                obs.push(format!("res {t} {}", if th.results.is_empty() { "-".into() } else { th.results.join(",") }));
            }
            viol.extend(g.viol.iter().cloned());
        }
        obs.push("serial steps=alloc".into());
        println!("I {cid} {}", case.show());
        for o in obs {
            println!("O {cid} {o}");
        }
        for v in viol {
            println!("V {cid} {}", keyed(&v));
        }
        {
            let mut g = ctl.m.lock().unwrap();
            g.abort = true;
            for cv in &ctl.cv_thr {
                cv.notify_all();
            }
        }
        *CASE.lock().unwrap() = None;
        return;
    }
    let mut finals: Vec<(BTreeMap<u64, Vec<u8>>, BTreeMap<u64, Region>)> = vec![];
    for j in joins {
        let _ = j.join();
    }
    {
        let g = ctl.m.lock().unwrap();
        for (t, th) in g.th.iter().enumerate() {
            obs.push(format!("res {t} {}", if th.results.is_empty() { "-".into() } else { th.results.join(",") }));
        }
        viol.extend(g.viol.iter().cloned());
    }
    *CASE.lock().unwrap() = None;
    finals.clear();
    // quiescent oracles
    let ext = catch_unwind(AssertUnwindSafe(|| check_extents(&db, w.dir.path())));
    match ext {
        Ok(Some(v)) => viol.push(format!("quiescent-extent-invariant-{}", v.replacen(' ', " ", 1))),
        Ok(None) => {}
        Err(_) => viol.push("quiescent-extent-check-panicked".into()),
    }
    let fin = catch_unwind(AssertUnwindSafe(|| format!("fin {} | {}", w.dump(), contents(&db))));
    obs.push(fin.unwrap_or_else(|_| "fin panic".into()));
    // answered by the model side only: the step model run without interleaving equals Rawdb/Alloc.v
    obs.push("serial steps=alloc".into());
    println!("I {cid} {}", case.show());
    for o in obs {
        println!("O {cid} {o}");
    }
    viol.dedup();
    for v in viol {
        println!("V {cid} {}", keyed(&v));
    }
    let mut tags: Vec<String> = vec![];
    let tr = c.trace.join(" ");
    for (pat, tag) in [("Z:write_with:relocate:after-copy", "path:relocate"), ("Z:write_with:fits:after-data", "path:fits"),
                       ("Pw", "path:file-growth"), ("Z:punch_holes:locks-held", "path:punch"), ("Z:flush:before-promote", "path:flush"),
                       (":blk", "sched:blocked-pick")] {
        if tr.contains(pat) {
            tags.push(tag.into());
        }
    }
    let switches = c.trace.windows(2).filter(|w| w[0].as_bytes()[0] != w[1].as_bytes()[0]).count();
    tags.push(format!("switches:{}", if switches == 0 { "0" } else if switches < 4 { "1-3" } else if switches < 16 { "4-15" } else { "16+" }));
    for t in tags {
        println!("M {cid} {t}");
    }
}

// ------------------------------------------------------------------------------------ directed schedules
fn ops(s: &str) -> Vec<Op> {
    if s.is_empty() { vec![] } else { s.split(',').map(Op::parse).collect() }
}
fn tops(s: &str) -> Vec<TOp> {
    if s.is_empty() { vec![] } else { s.split(',').map(TOp::parse).collect() }
}
fn sch(s: &str) -> Vec<String> {
    if s.is_empty() { vec![] } else { s.split(',').map(|x| x.to_string()).collect() }
}

/// (name, min_len, pre, programs, schedule)
fn directed() -> Vec<(&'static str, Case)> {
    let mk = |min_len: u64, pre: &str, progs: &[&str], s: &str| Case { min_len, pre: ops(pre), progs: progs.iter().map(|p| tops(p)).collect(), sched: sch(s) };
    vec![
        // C12 race: the writer of region 1 (len 10, reserve 8192) copies 5000 bytes into its reserve and is
        // held before the length update; compact's punch_holes then inspects (len 10) and punches [4096, 8192)
        ("compact-between-data-copy-and-length-update",
         mk(0, "c:1:0,w:1:1:5000,t:1:10,f", &["w:1:2:5000", "cp"], "0>Z:write_with:fits:after-data,1*,0*")),
        // same window, but the new data ends below ceil_page(old len): harmless
        ("compact-between-copy-and-update-same-page",
         mk(0, "c:1:0,w:1:1:5000,t:1:10,f", &["w:1:2:3000", "cp"], "0>Z:write_with:fits:after-data,1*,0*")),
        // the write runs to completion while compaction is parked after it has listed the regions and taken
        // its locks: punch_holes must use the length it reads under the metadata lock, not an earlier one
        ("write-completes-while-compact-parked-after-listing",
         mk(0, "c:1:0,w:1:1:5000,t:1:10,f", &["w:1:2:6000", "cp"], "1>Z:punch_holes:locks-held,0*,1*")),
        // compact entirely before / after the write
        ("compact-before-write", mk(0, "c:1:0,w:1:1:5000,t:1:10,f", &["w:1:2:5000", "cp"], "1*,0*")),
        ("compact-after-publish", mk(0, "c:1:0,w:1:1:5000,t:1:10,f", &["w:1:2:5000", "cp"], "0*,1*")),
        // reader lifetime: reader on region 1 (at 0), region 1 relocates (held between 2 and 3), flush promotes the
        // old extent, thread 2 creates region 4 on it and writes; the reader then reads
        ("reader-across-relocation-flush-reuse",
         mk(0, "c:1:0,w:1:1:100,c:2:0,w:2:2:100,f", &["do:1,dr,dr,dc", "w:1:3:5000,f", "c:4:0,w:4:4:200"], "0!,0!,1*,2*,0*")),
        // the same without the flush: the old extent stays pending, the reader keeps reading the old bytes
        ("reader-across-relocation-no-flush",
         mk(0, "c:1:0,w:1:1:100,c:2:0,w:2:2:100,f", &["do:1,dr,dr,dc", "w:1:3:5000", "c:4:0,w:4:4:200"], "0!,0!,1*,2*,0*")),
        // reader across relocation + compact: the promoted old extent is punched
        ("reader-across-relocation-compact",
         mk(0, "c:1:0,w:1:1:100,c:2:0,w:2:2:100,f", &["do:1,dr,dr,dc", "w:1:3:5000,cp"], "0!,0!,1*,0*")),
        // reader across truncate + compact: the tail beyond the new length is punched under the live reader
        ("reader-across-truncate-compact", mk(0, "c:1:0,w:1:1:100,f", &["do:1,dr,dr,dc", "t:1:0,cp"], "0!,0!,1*,0*")),
        // reader across an in-place overwrite and truncate (no relocation)
        ("reader-across-inplace-write", mk(0, "c:1:0,w:1:1:100,f", &["do:1,dr,dr,dc", "a:1:3:50:10,t:1:20,w:1:5:30"], "0!,0!,1!,0!,1*,0*")),
        // a reader blocks file growth: the writer needs a larger file and must wait
        ("reader-blocks-file-growth", mk(0, "c:1:0,w:1:1:100,f", &["do:1,dr,dc", "w:1:3:2000000"], "0!,1*,0*,1*")),
        // create / create: both pass the unlocked check, then serialise on layout+regions
        ("create-create", mk(0, "", &["c:1:0,w:1:1:10", "c:2:0,w:2:2:10"], "0>Lw,1>Lw,0*,1*")),
        ("create-create-same-page-budget", mk(0, "c:9:0,w:9:9:1044480", &["c:1:0,w:1:1:10", "c:2:0,w:2:2:10"], "0>Lw,1>Lw,0*,1*")),
        // relocate vs create: the creator has done its unlocked file-length check, then a relocation to the end of
        // the file grows the file to EXACTLY the new layout length, then the creator allocates at the end
        ("relocate-to-end-between-create-check-and-create",
         mk(0, "c:1:0,c:2:0,c:3:0", &["c:4:0,w:4:1:10", "w:2:2:1100000"], "0>Lw,1*,0*")),
        // creator allocates while the relocation target is only reserved (layout lock dropped around set_min_len)
        ("create-while-relocation-reserved",
         mk(0, "c:1:0,c:2:0,c:3:0", &["w:2:2:9000", "c:4:0,w:4:1:10"], "0>Z:write_with:relocate:before-copy,1*,0*")),
        ("create-while-relocation-copied",
         mk(0, "c:1:0,c:2:0,c:3:0", &["w:2:2:9000", "c:4:0,w:4:1:5000"], "0>Z:write_with:relocate:after-copy,1*,0*")),
        // two relocations in flight at once (both reserve at the end)
        ("relocate-relocate", mk(0, "c:1:0,c:2:0,c:3:0", &["w:1:1:9000", "w:2:2:20000"], "0>Z:write_with:relocate:before-copy,1>Z:write_with:relocate:after-copy,0*,1*")),
        // growth of the last region (layout lock dropped around set_min_len) while another thread creates
        ("extend-last-vs-create", mk(0, "c:1:0,c:2:0", &["w:2:2:2000000", "c:3:0,w:3:3:10"], "0>Pw,1*,0*")),
        ("extend-last-vs-create-after-growth", mk(0, "c:1:0,c:2:0", &["w:2:2:2000000", "c:3:0,w:3:3:10"], "0>Pw,0,0,1*,0*")),
        // remove vs relocate of the neighbour, flush in between (promotion while a relocation is in flight)
        ("remove-vs-relocate", mk(0, "c:1:0,c:2:0,c:3:0,w:1:1:10,w:2:2:10,f", &["w:2:3:9000", "rm:1,f,c:5:0,w:5:5:6000"], "0>Z:write_with:relocate:before-copy,1*,0*")),
        ("remove-flush-create-vs-relocate-after-copy", mk(0, "c:1:0,c:2:0,c:3:0,w:1:1:10,w:2:2:10,f", &["w:2:3:9000", "rm:1,f,c:5:0,w:5:5:6000"], "0>Z:write_with:relocate:after-copy,1*,0*")),
        // flush (which keeps clones of the dirty regions) vs remove by the owner
        ("remove-while-flush-holds-dirty-list", mk(0, "c:1:0,c:2:0", &["w:1:1:10,rm:1", "f"], "0!,1>Z:flush:before-promote,0*,1*")),
        // compact (which keeps clones of all regions until it returns) vs remove by the owner
        ("remove-while-compact-syncs", mk(0, "c:1:0,c:2:0,w:2:2:5000,t:2:10,f", &["w:1:1:10,rm:1", "cp"], "0!,1>Z:punch_holes:locks-held,1>Fr,0*,1*")),
        // flush promotes between a relocation's copy and its layout update
        ("flush-between-relocate-copy-and-move", mk(0, "c:1:0,c:2:0,c:3:0,w:2:2:10,f", &["w:2:3:9000", "f,c:5:0,w:5:5:10"], "0>Z:write_with:relocate:after-copy,1*,0*")),
        // reader vs remove by the owner: refused by design while the reader lives, succeeds afterwards
        ("reader-vs-remove", mk(0, "c:1:0,w:1:1:100,f", &["do:1,dr,dc", "rm:1,rm:1"], "0!,1!,0*,1*")),
        // two writers growing at once: one extends the last region (file growth), one relocates to the end
        ("extend-last-vs-relocate-to-end", mk(0, "c:1:0,c:2:0,c:3:0", &["w:3:1:1500000", "w:1:2:9000,w:1:3:100"], "0>Pw,1>Z:write_with:relocate:before-copy,0*,1*")),
        // flush marks a region clean although its length was republished in between
        ("publish-between-flush-write-and-mark-clean", mk(0, "c:1:0,w:1:1:10,c:2:0", &["f", "w:1:2:10,w:1:3:10"], "0>Fr,1*,0*")),
        // rename vs create of the same new name
        ("rename-vs-create-same-name", mk(0, "c:1:0,w:1:1:10", &["mv:1:7", "c:8:0,w:8:2:10"], "0>Rw,1>Lw,0*,1*")),
        // truncate vs compact
        ("truncate-vs-compact", mk(0, "c:1:0,w:1:1:9000,f", &["t:1:100,w:1:2:6000", "cp"], "0!,1>Z:punch_holes:locks-held,0>Z:write_with:fits:after-data,1*,0*")),
    ]
}

// ------------------------------------------------------------------------------------ random schedules
fn random_case(rng: &mut Rng) -> Case {
    let n = if rng.chance(1, 3) { 3 } else { 2 };
    let mut pre = vec![];
    let mut next_w = 100u64;
    let mut progs: Vec<Vec<TOp>> = vec![];
    // every thread owns 1-2 regions; some exist before the threads start
    let mut owned: Vec<Vec<u64>> = vec![];
    let mut id = 0u64;
    let spacer = rng.chance(1, 2);
    for _ in 0..n {
        let k = rng.range(1, 2);
        let mut mine = vec![];
        for _ in 0..k {
            id += 1;
            mine.push(id);
            if rng.chance(2, 3) {
                pre.push(Op::Create(id, false));
                if rng.chance(1, 2) {
                    next_w += 1;
                    pre.push(Op::Write(id, next_w, *rng.pick(&[10u64, 100, 4096, 5000, 9000])));
                }
            }
        }
        owned.push(mine);
    }
    if spacer {
        pre.push(Op::Create(90, false));
    }
    if rng.chance(1, 2) {
        pre.push(Op::Flush);
    }
    let size = |rng: &mut Rng| -> u64 {
        match rng.below(12) {
            0 => 0,
            1 => 1,
            2..=4 => rng.range(2, 4000),
            5 => 4096,
            6..=8 => rng.range(4000, 12000),
            9..=10 => rng.range(12000, 40000),
            _ => rng.range(40000, 70000),
        }
    };
    let mut reader_thread_used = false;
    let orig_owned = owned.clone();
    for t in 0..n {
        let mut p = vec![];
        // at most one thread per case is a pure reader of somebody else's region
        if !reader_thread_used && n == 3 && t == 2 && rng.chance(1, 2) {
            reader_thread_used = true;
            let who = rng.below(2) as usize;
            let target = *rng.pick(&orig_owned[who]);
            p.push(TOp::RdOpen(target));
            for _ in 0..rng.range(1, 3) {
                p.push(TOp::RdRead);
            }
            p.push(TOp::RdClose);
            if rng.chance(1, 2) {
                p.push(TOp::RdOpen(target));
                p.push(TOp::RdRead);
                p.push(TOp::RdClose);
            }
            progs.push(p);
            continue;
        }
        let nops = rng.range(2, 6);
        let mut lens: BTreeMap<u64, u64> = BTreeMap::new();
        for _ in 0..nops {
            let rid = *rng.pick(&owned[t]);
            next_w += 1;
            let l = *lens.get(&rid).unwrap_or(&0);
            let op = match rng.below(100) {
                0..=9 => Op::Create(rid, false),
                10..=44 => {
                    let s = size(rng);
                    lens.insert(rid, l + s);
                    Op::Write(rid, next_w, s)
                }
                45..=54 => {
                    let at = rng.below(l + 1);
                    let s = size(rng).min(20000);
                    lens.insert(rid, l.max(at + s));
                    Op::WriteAt(rid, next_w, s, at)
                }
                55..=62 => {
                    let at = rng.below(l + 1);
                    let s = size(rng).min(20000);
                    lens.insert(rid, at + s);
                    Op::TruncWrite(rid, next_w, s, at)
                }
                63..=72 => {
                    let f = rng.below(l + 1);
                    lens.insert(rid, f);
                    Op::Truncate(rid, f)
                }
                73..=80 => Op::Flush,
                81..=88 => Op::Compact,
                89..=93 => Op::Remove(rid),
                94..=96 => {
                    // rename to a fresh id that nobody else uses (readers never target it)
                    next_w += 1;
                    let new = 50 + next_w;
                    if let Some(p) = owned[t].iter().position(|x| *x == rid) {
                        owned[t][p] = new;
                    }
                    let l0 = lens.remove(&rid).unwrap_or(0);
                    lens.insert(new, l0);
                    Op::Rename(rid, new)
                }
                _ => Op::Create(rid, false),
            };
            p.push(TOp::Base(op));
        }
        progs.push(p);
    }
    // schedule: random thread picks with random burst lengths, sometimes run-until directives
    let mut sched = vec![];
    for _ in 0..rng.range(10, 60) {
        let t = rng.below(n as u64);
        match rng.below(10) {
            0 => sched.push(format!("{t}!")),
            1 => sched.push(format!("{t}>{}", rng.pick(&["Lw", "Z:write_with:fits:after-data", "Z:write_with:relocate:after-copy", "Z:write_with:relocate:before-copy",
                                                          "Z:flush:before-promote", "Z:punch_holes:locks-held", "Pw", "Rw"]))),
            _ => {
                for _ in 0..rng.range(1, 4) {
                    sched.push(format!("{t}"));
                }
            }
        }
    }
    Case { min_len: if rng.chance(1, 4) { 1 << 20 } else { 0 }, pre, progs, sched }
}

pub fn run(args: &[String]) -> i32 {
    let a = parse_args(args);
    quiet_panics();
    if let Some(path) = a.replay {
        for (cid, body) in replay_inputs(&path) {
            run_case(&cid, &Case::parse(&body));
        }
        return 0;
    }
    let only_random = a.rest.iter().any(|x| x == "--random-only");
    let mut n = 0u64;
    if !only_random && a.seed % 1000 == 0 {
        // shard 0 runs the directed schedules first
        for (nm, c) in directed() {
            run_case(&format!("d-{nm}"), &c);
            n += 1;
        }
    }
    let mut rng = Rng::new(a.seed);
    while n < a.cases {
        let c = random_case(&mut rng);
        run_case(&format!("{}", n), &c);
        n += 1;
    }
    0
}
