//! Engine `lazy` (C15): builds real lazy vectors (LazyVecFrom1/2/3, LazyDeltaVec<DeltaSub|DeltaChange>,
//! LazyAggVec<Sparse>) over real stored sources (BytesVec / PcoVec, elements u64 / i64 / u32), runs every
//! ReadableVec read path on them under catch_unwind and prints one `O` line per step.
//!
//! Spec-level oracle (no model involved): every result is compared with the defining formula evaluated
//! directly on the source contents held by the harness; a disagreement or a panic on a request whose
//! formula is defined prints a `V` line (key `<family>-plain-<panic|wrong>`).  Requests that touch an index whose
//! window start runs ahead of the index by more than an empty window (DeltaSub: start > h+1, DeltaChange:
//! start > h) or a non-governing FromN source shorter than len() are outside the property's hypotheses: they are
//! tagged (`M class:…`) and only compared with the model.
//!
//! I line:  <ovf> <kind> <ty> <stor> <counts> S=<csv> [S=<csv> [S=<csv>]] M=<csv> <op>...
//!   ovf    1 = integer overflow checks are on in this build (debug), 0 = wrapping (release)
//!   kind   from1 | from2 | from3 | dsub | dchg | agg
//!   ty     u64 | i64 | u32          stor: one letter per source, b = BytesVec, p = PcoVec
//!   counts one digit per source: 1 = the source has the lazy vector's index type (governs len)
//!   ops    len | cr:f:t | fr:f:t | fe:f:t | ri:f:t | tf:f:t:k | c1:i | rs:<csv> | cu:<csv> | mn:f:t | mx:f:t
//!          | sm:f:t | cs:<i64|n>:<i64|n> | co | fi | la | g:<k>:<csv> (push to source k and write) | M:<csv>
use crate::rng::Rng;
use crate::util::{parse_args, quiet_panics, replay_inputs};
use std::panic::{AssertUnwindSafe, catch_unwind};
use std::sync::Arc;
use vecdb::{
    AnyStoredVec, BytesVec, BytesVecValue, CheckedSub, Database, DeltaChange, DeltaSub, ImportableVec,
    LazyAggVec, LazyDeltaVec, LazyVecFrom1, LazyVecFrom2, LazyVecFrom3, PcoVec, PcoVecValue, PrintableIndex,
    ReadableBoxedVec, ReadableCloneableVec, ReadableVec, VecIndex, VecValue, Version, WritableVec,
};

// ------------------------------------------------------------------ a second index type
#[derive(Debug, Default, Clone, Copy, PartialEq, Eq, PartialOrd, Ord)]
pub struct Ix2(usize);
impl From<usize> for Ix2 {
    fn from(v: usize) -> Self {
        Ix2(v)
    }
}
impl From<Ix2> for usize {
    fn from(v: Ix2) -> usize {
        v.0
    }
}
impl std::ops::Add<usize> for Ix2 {
    type Output = Ix2;
    fn add(self, r: usize) -> Ix2 {
        Ix2(self.0 + r)
    }
}
impl PrintableIndex for Ix2 {
    fn to_string() -> &'static str {
        "ix2"
    }
    fn to_possible_strings() -> &'static [&'static str] {
        &["ix2"]
    }
}

// ------------------------------------------------------------------ element types
pub trait El:
    BytesVecValue + PcoVecValue + Copy + Default + PartialOrd + std::ops::AddAssign + From<u8> + CheckedSub + 'static
{
    const LO: i128;
    const HI: i128;
    fn of(v: i128) -> Self;
    fn to(self) -> i128;
    fn f1(i: usize, a: Self) -> Self;
    fn f2(i: usize, a: Self, b: Self) -> Self;
    fn f3(i: usize, a: Self, b: Self, c: Self) -> Self;
}
macro_rules! impl_el {
    ($($t:ty),*) => {$(
        impl El for $t {
            const LO: i128 = <$t>::MIN as i128;
            const HI: i128 = <$t>::MAX as i128;
            fn of(v: i128) -> Self { v as $t }
            fn to(self) -> i128 { self as i128 }
            // the defining formulas of the FromN vectors (explicitly wrapping: identical in every build profile)
            fn f1(i: usize, a: Self) -> Self { a.wrapping_mul(3).wrapping_add(i as $t) }
            fn f2(i: usize, a: Self, b: Self) -> Self { a.wrapping_sub(b.wrapping_mul(5)).wrapping_add(i as $t) }
            fn f3(i: usize, a: Self, b: Self, c: Self) -> Self {
                a.wrapping_add(b.wrapping_mul(7)).wrapping_sub(c).wrapping_add((i as $t).wrapping_mul(2))
            }
        }
    )*};
}
impl_el!(u64, i64, u32);

fn wrap(lo: i128, hi: i128, v: i128) -> i128 {
    let m = hi - lo + 1;
    (v - lo).rem_euclid(m) + lo
}

// ------------------------------------------------------------------ case description
#[derive(Clone, Copy, PartialEq, Debug)]
enum Kind {
    From1,
    From2,
    From3,
    DSub,
    DChg,
    Agg,
}
impl Kind {
    fn name(self) -> &'static str {
        match self {
            Kind::From1 => "from1",
            Kind::From2 => "from2",
            Kind::From3 => "from3",
            Kind::DSub => "dsub",
            Kind::DChg => "dchg",
            Kind::Agg => "agg",
        }
    }
    fn nsrc(self) -> usize {
        match self {
            Kind::From2 => 2,
            Kind::From3 => 3,
            _ => 1,
        }
    }
}

#[derive(Clone, Debug)]
enum Op {
    Len,
    Range(&'static str, usize, usize), // cr fr fe ri mn mx sm
    TryFold(usize, usize, usize),
    One(usize),
    Sorted(Vec<usize>),
    Cursor(Vec<usize>),
    Signed(Option<i64>, Option<i64>),
    Collect,
    First,
    Last,
    Grow(usize, Vec<i128>),
    SetMap(Vec<usize>),
}

struct Case {
    ovf: bool,
    kind: Kind,
    ty: String,
    stor: Vec<u8>,
    counts: Vec<bool>,
    srcs: Vec<Vec<i128>>,
    map: Vec<usize>,
    ops: Vec<Op>,
}

fn csv<T: std::fmt::Display>(v: &[T]) -> String {
    if v.is_empty() {
        "-".into()
    } else {
        v.iter().map(|x| x.to_string()).collect::<Vec<_>>().join(",")
    }
}
fn uncsv<T: std::str::FromStr>(s: &str) -> Vec<T>
where
    T::Err: std::fmt::Debug,
{
    if s == "-" { vec![] } else { s.split(',').map(|x| x.parse().unwrap()).collect() }
}

fn op_token(o: &Op) -> String {
    match o {
        Op::Len => "len".into(),
        Op::Range(m, f, t) => format!("{m}:{f}:{t}"),
        Op::TryFold(f, t, k) => format!("tf:{f}:{t}:{k}"),
        Op::One(i) => format!("c1:{i}"),
        Op::Sorted(v) => format!("rs:{}", csv(v)),
        Op::Cursor(v) => format!("cu:{}", csv(v)),
        Op::Signed(f, t) => format!(
            "cs:{}:{}",
            f.map(|x| x.to_string()).unwrap_or("n".into()),
            t.map(|x| x.to_string()).unwrap_or("n".into())
        ),
        Op::Collect => "co".into(),
        Op::First => "fi".into(),
        Op::Last => "la".into(),
        Op::Grow(k, v) => format!("g:{k}:{}", csv(v)),
        Op::SetMap(v) => format!("M:{}", csv(v)),
    }
}

fn parse_op(t: &str) -> Op {
    let p: Vec<&str> = t.split(':').collect();
    let sig = |s: &str| if s == "n" { None } else { Some(s.parse::<i64>().unwrap()) };
    match p[0] {
        "len" => Op::Len,
        "cr" | "fr" | "fe" | "ri" | "mn" | "mx" | "sm" => {
            let m = ["cr", "fr", "fe", "ri", "mn", "mx", "sm"].iter().find(|x| **x == p[0]).unwrap();
            Op::Range(m, p[1].parse().unwrap(), p[2].parse().unwrap())
        }
        "tf" => Op::TryFold(p[1].parse().unwrap(), p[2].parse().unwrap(), p[3].parse().unwrap()),
        "c1" => Op::One(p[1].parse().unwrap()),
        "rs" => Op::Sorted(uncsv(p[1])),
        "cu" => Op::Cursor(uncsv(p[1])),
        "cs" => Op::Signed(sig(p[1]), sig(p[2])),
        "co" => Op::Collect,
        "fi" => Op::First,
        "la" => Op::Last,
        "g" => Op::Grow(p[1].parse().unwrap(), uncsv(p[2])),
        "M" => Op::SetMap(uncsv(p[1])),
        _ => panic!("bad op {t}"),
    }
}

fn case_tokens(c: &Case) -> String {
    let mut s = format!(
        "{} {} {} {} {}",
        c.ovf as u8,
        c.kind.name(),
        c.ty,
        String::from_utf8(c.stor.clone()).unwrap(),
        c.counts.iter().map(|b| if *b { '1' } else { '0' }).collect::<String>()
    );
    for v in &c.srcs {
        s.push_str(&format!(" S={}", csv(v)));
    }
    s.push_str(&format!(" M={}", csv(&c.map)));
    for o in &c.ops {
        s.push(' ');
        s.push_str(&op_token(o));
    }
    s
}

fn parse_case(line: &str, ovf: bool) -> Case {
    let t: Vec<&str> = line.split(' ').filter(|x| !x.is_empty()).collect();
    let kind = match t[1] {
        "from1" => Kind::From1,
        "from2" => Kind::From2,
        "from3" => Kind::From3,
        "dsub" => Kind::DSub,
        "dchg" => Kind::DChg,
        "agg" => Kind::Agg,
        k => panic!("bad kind {k}"),
    };
    let mut srcs = vec![];
    let mut map = vec![];
    let mut ops = vec![];
    for x in &t[5..] {
        if let Some(r) = x.strip_prefix("S=") {
            srcs.push(uncsv::<i128>(r));
        } else if let Some(r) = x.strip_prefix("M=") {
            map = uncsv::<usize>(r);
        } else {
            ops.push(parse_op(x));
        }
    }
    Case {
        ovf,
        kind,
        ty: t[2].to_string(),
        stor: t[3].as_bytes().to_vec(),
        counts: t[4].chars().map(|c| c == '1').collect(),
        srcs,
        map,
        ops,
    }
}

// ------------------------------------------------------------------ stored sources
enum Src<I: VecIndex, T: El> {
    B(BytesVec<I, T>),
    P(PcoVec<I, T>),
}
impl<I: VecIndex, T: El> Src<I, T> {
    fn new(db: &Database, name: &str, stor: u8) -> Self {
        if stor == b'p' {
            Src::P(PcoVec::forced_import(db, name, Version::ONE).unwrap())
        } else {
            Src::B(BytesVec::forced_import(db, name, Version::ONE).unwrap())
        }
    }
    fn push_all(&mut self, vals: &[i128]) {
        match self {
            Src::B(v) => {
                for x in vals {
                    v.push(T::of(*x));
                }
                v.write().unwrap();
            }
            Src::P(v) => {
                for x in vals {
                    v.push(T::of(*x));
                }
                v.write().unwrap();
            }
        }
    }
    fn boxed(&self) -> ReadableBoxedVec<I, T> {
        match self {
            Src::B(v) => v.read_only_boxed_clone(),
            Src::P(v) => v.read_only_boxed_clone(),
        }
    }
}

/// something a `g:k:…` op can push to
trait Growable {
    fn grow(&mut self, vals: &[i128]);
}
impl<I: VecIndex, T: El> Growable for Src<I, T> {
    fn grow(&mut self, vals: &[i128]) {
        self.push_all(vals)
    }
}

type SharedMap = Arc<parking_lot::RwLock<Arc<[usize]>>>;

// ------------------------------------------------------------------ running the read paths
fn guard_s<F: FnOnce() -> String>(f: F) -> String {
    match catch_unwind(AssertUnwindSafe(f)) {
        Ok(s) => s,
        Err(_) => "panic".into(),
    }
}

fn show_list<O>(v: &[O], show: &dyn Fn(&O) -> String) -> String {
    if v.is_empty() { "v -".into() } else { format!("v {}", v.iter().map(|x| show(x)).collect::<Vec<_>>().join(",")) }
}
fn show_opt<O>(v: &Option<O>, show: &dyn Fn(&O) -> String) -> String {
    match v {
        Some(x) => format!("some {}", show(x)),
        None => "none".into(),
    }
}

fn run_read<O, V>(v: &V, op: &Op, show: &dyn Fn(&O) -> String, sum: Option<&dyn Fn(&V, usize, usize) -> Option<O>>) -> String
where
    O: VecValue + PartialOrd,
    V: ReadableVec<usize, O>,
{
    guard_s(|| match op {
        Op::Len => format!("len {}", v.len()),
        Op::Range("cr", f, t) => show_list(&v.collect_range_at(*f, *t), show),
        Op::Range("fr", f, t) => show_list(
            &v.fold_range_at(*f, *t, Vec::new(), |mut a, x| {
                a.push(x);
                a
            }),
            show,
        ),
        Op::Range("fe", f, t) => {
            let mut out = vec![];
            v.for_each_range_dyn_at(*f, *t, &mut |x| out.push(x));
            show_list(&out, show)
        }
        Op::Range("ri", f, t) => {
            let mut out = vec![];
            v.read_into_at(*f, *t, &mut out);
            let n0 = out.len();
            // must append, never clear
            v.read_into_at(*f, *t, &mut out);
            if out.len() != 2 * n0 {
                return format!("ri-not-appending {} {}", n0, out.len());
            }
            out.truncate(n0);
            show_list(&out, show)
        }
        Op::Range("mn", f, t) => show_opt(&v.min_at(*f, *t), show),
        Op::Range("mx", f, t) => show_opt(&v.max_at(*f, *t), show),
        Op::Range("sm", f, t) => match sum {
            Some(s) => show_opt(&s(v, *f, *t), show),
            None => "nosum".into(),
        },
        Op::Range(..) => unreachable!(),
        Op::TryFold(f, t, k) => {
            let mut out = vec![];
            let r = v.try_fold_range_at(*f, *t, (), |(), x| {
                if out.len() == *k {
                    Err(())
                } else {
                    out.push(x);
                    Ok(())
                }
            });
            format!("{}{}", show_list(&out, show), if r.is_err() { " E" } else { "" })
        }
        Op::One(i) => show_opt(&v.collect_one_at(*i), show),
        Op::Sorted(ix) => show_list(&v.read_sorted_at(ix), show),
        Op::Cursor(ix) => {
            let mut c = v.cursor();
            let outs: Vec<String> = ix.iter().map(|i| c.get(*i).map(|x| show(&x)).unwrap_or("_".into())).collect();
            if outs.is_empty() { "v -".into() } else { format!("v {}", outs.join(",")) }
        }
        Op::Signed(f, t) => show_list(&v.collect_signed_range(*f, *t), show),
        Op::Collect => show_list(&v.collect(), show),
        Op::First => show_opt(&v.collect_first(), show),
        Op::Last => show_opt(&v.collect_last(), show),
        Op::Grow(..) | Op::SetMap(..) => unreachable!(),
    })
}

// ------------------------------------------------------------------ the spec: defining formulas on plain data
struct Spec<'a> {
    c: &'a Case,
    lo: i128,
    hi: i128,
}

/// what the formula says about index h: a value (`Some(text)`), or "the formula is not defined here"
enum At {
    Val(i128),
    OptNone, // agg: empty group
    Undef,
}

impl<'a> Spec<'a> {
    fn srclen(&self, k: usize) -> usize {
        self.c.srcs[k].len()
    }
    /// the length the vector reports (governing sources)
    fn len(&self) -> usize {
        match self.c.kind {
            Kind::From1 => self.srclen(0),
            Kind::From2 | Kind::From3 => {
                (0..self.c.kind.nsrc()).filter(|k| self.c.counts[*k]).map(|k| self.srclen(k)).min().unwrap_or(usize::MAX)
            }
            // delta/any_vec.rs: len() is bounded by the window-start mapping as well
            Kind::DSub | Kind::DChg => self.srclen(0).min(self.c.map.len()),
            Kind::Agg => self.c.map.len(),
        }
    }
    /// the number of indices at which the formula has all its inputs
    fn dom(&self) -> usize {
        match self.c.kind {
            Kind::From1 | Kind::From2 | Kind::From3 => (0..self.c.kind.nsrc()).map(|k| self.srclen(k)).min().unwrap().min(self.len()),
            Kind::DSub | Kind::DChg => self.srclen(0).min(self.c.map.len()),
            Kind::Agg => self.c.map.len(),
        }
    }
    fn w(&self, v: i128) -> i128 {
        wrap(self.lo, self.hi, v)
    }
    fn at(&self, h: usize) -> At {
        let s = &self.c.srcs;
        let hi = h as i128;
        match self.c.kind {
            Kind::From1 => At::Val(self.w(s[0][h] * 3 + hi)),
            Kind::From2 => At::Val(self.w(s[0][h] - self.w(s[1][h] * 5) + hi)),
            Kind::From3 => At::Val(self.w(s[0][h] + self.w(s[1][h] * 7) - s[2][h] + self.w(hi * 2))),
            Kind::DSub => {
                let start = self.c.map[h];
                let ago = if start == 0 {
                    0
                } else {
                    match s[0].get(start - 1) {
                        Some(v) => *v,
                        None => return At::Undef,
                    }
                };
                let d = s[0][h] - ago;
                At::Val(if d < self.lo || d > self.hi { 0 } else { d })
            }
            Kind::DChg => {
                let start = self.c.map[h];
                match s[0].get(start) {
                    Some(v) => At::Val(s[0][h] - *v),
                    None => At::Undef,
                }
            }
            Kind::Agg => {
                // group h = source positions [map[h], map[h+1]) (last group: up to the end of the source),
                // value = last source element of the group, None when the group holds no source element
                let n = s[0].len();
                let cur = self.c.map[h];
                let next = self.c.map.get(h + 1).copied().unwrap_or(n).min(n);
                if cur >= next { At::OptNone } else { At::Val(s[0][next - 1]) }
            }
        }
    }
    /// class of index h of the configuration (why the code may misbehave there), "" = plain
    fn class_at(&self, h: usize) -> &'static str {
        if h >= self.dom() {
            // the vector reports a length (`len()`) that covers h, but the formula has no inputs there
            return match self.c.kind {
                Kind::DSub | Kind::DChg | Kind::Agg => "",
                _ => "noncounting-source-shorter",
            };
        }
        match self.c.kind {
            Kind::DSub => {
                let st = self.c.map[h];
                if st == h + 1 {
                    "empty-window"
                } else if st > h + 1 {
                    "start-after-index"
                } else {
                    ""
                }
            }
            Kind::DChg => {
                if self.c.map[h] > h {
                    "start-after-index"
                } else {
                    ""
                }
            }
            Kind::Agg => {
                let n = self.c.srcs[0].len();
                let cur = self.c.map[h];
                let next = self.c.map.get(h + 1).copied().unwrap_or(n);
                if next > n && cur < next { "mapping-past-source-end" } else { "" }
            }
            _ => "",
        }
    }
    fn show(&self, a: &At) -> String {
        match a {
            At::Val(v) => v.to_string(),
            At::OptNone => "n".into(),
            At::Undef => "?".into(),
        }
    }
    /// expected values over [f, min(t, dom)); None when the formula is undefined somewhere in there
    fn range(&self, f: usize, t: usize) -> Option<Vec<At>> {
        let t = t.min(self.dom());
        let mut out = vec![];
        let mut h = f;
        while h < t {
            let a = self.at(h);
            if let At::Undef = a {
                return None;
            }
            out.push(a);
            h += 1;
        }
        Some(out)
    }
    fn list(&self, v: &[At]) -> String {
        if v.is_empty() { "v -".into() } else { format!("v {}", v.iter().map(|a| self.show(a)).collect::<Vec<_>>().join(",")) }
    }
    fn touched_range(&self, f: usize, t: usize) -> Vec<usize> {
        let t = t.min(self.dom());
        if f >= t { vec![] } else { (f..t).collect() }
    }
    fn i64_to_usize(i: i64, len: usize) -> usize {
        if i >= 0 { (i as u64).min(len as u64) as usize } else { (len as i128 + i as i128).max(0) as usize }
    }
    /// (expected O body or None = formula undefined, touched indices)
    fn expect(&self, op: &Op) -> (Option<String>, Vec<usize>) {
        let dom = self.dom();
        let key = |a: &At| match a {
            At::Val(v) => (1, *v),
            _ => (0, 0),
        };
        match op {
            Op::Len => (Some(format!("len {}", self.len())), vec![]),
            Op::Range(m, f, t) => {
                let touched = self.touched_range(*f, *t);
                let r = match self.range(*f, *t) {
                    Some(r) => r,
                    None => return (None, touched),
                };
                let s = match *m {
                    "cr" | "fr" | "fe" | "ri" => self.list(&r),
                    "mn" => match r.iter().min_by_key(|a| key(a)) {
                        // first minimal element: `cur <= v` keeps the current one
                        Some(a) => format!("some {}", self.show(a)),
                        None => "none".into(),
                    },
                    "mx" => {
                        let mut best: Option<&At> = None;
                        for a in &r {
                            if best.map(|b| key(b) < key(a)).unwrap_or(true) {
                                best = Some(a);
                            }
                        }
                        match best {
                            Some(a) => format!("some {}", self.show(a)),
                            None => "none".into(),
                        }
                    }
                    "sm" => {
                        if self.c.kind == Kind::Agg {
                            "nosum".into()
                        } else if r.is_empty() {
                            "none".into()
                        } else {
                            // `acc += v` on the output type: overflow panics when checks are on, wraps otherwise
                            let (lo, hi) = if self.c.kind == Kind::DChg { (i128::MIN / 4, i128::MAX / 4) } else { (self.lo, self.hi) };
                            let mut acc: i128 = 0;
                            let mut ovf = false;
                            for a in &r {
                                if let At::Val(v) = a {
                                    acc += *v;
                                    if acc < lo || acc > hi {
                                        ovf = true;
                                        acc = wrap(lo, hi, acc);
                                    }
                                }
                            }
                            if ovf && self.c.ovf { "panic".into() } else { format!("some {acc}") }
                        }
                    }
                    _ => unreachable!(),
                };
                (Some(s), touched)
            }
            Op::TryFold(f, t, k) => {
                // only the first k+1 elements are ever evaluated
                let t2 = (*t).min(dom).min(f.saturating_add(*k).saturating_add(1));
                let touched = self.touched_range(*f, t2);
                match self.range(*f, t2) {
                    Some(r) => {
                        let e = r.len() > *k;
                        let r = &r[..r.len().min(*k)];
                        (Some(format!("{}{}", self.list(r), if e { " E" } else { "" })), touched)
                    }
                    None => (None, touched),
                }
            }
            Op::One(i) => {
                if *i >= dom {
                    (Some("none".into()), vec![])
                } else {
                    match self.at(*i) {
                        At::Undef => (None, vec![*i]),
                        a => (Some(format!("some {}", self.show(&a))), vec![*i]),
                    }
                }
            }
            Op::Sorted(ix) | Op::Cursor(ix) => {
                let is_cursor = matches!(op, Op::Cursor(_));
                let sorted = ix.windows(2).all(|w| w[0] <= w[1]);
                let mut touched: Vec<usize> = ix.iter().copied().filter(|i| *i < dom).collect();
                if self.c.kind == Kind::Agg || is_cursor {
                    // served through a Cursor: whole aligned chunks (up to the reported length) are evaluated
                    let len = self.len();
                    touched = ix.iter().copied().filter(|i| *i < len).collect();
                    let mut t2 = vec![];
                    for i in &touched {
                        let a = (i / 4096) * 4096;
                        for h in a..(a + 4096).min(len) {
                            t2.push(h);
                        }
                    }
                    t2.sort();
                    t2.dedup();
                    touched = t2;
                }
                if !sorted && !is_cursor {
                    return (None, vec![]); // outside the contract of read_sorted_at: model-level comparison only
                }
                let mut out = vec![];
                for i in ix {
                    if *i < dom {
                        match self.at(*i) {
                            At::Undef => return (None, touched),
                            a => out.push(self.show(&a)),
                        }
                    } else if is_cursor {
                        out.push("_".into());
                    }
                }
                (Some(if out.is_empty() { "v -".into() } else { format!("v {}", out.join(",")) }), touched)
            }
            Op::Signed(f, t) => {
                let len = self.len();
                let f = f.map(|i| Self::i64_to_usize(i, len)).unwrap_or(0);
                let t = t.map(|i| Self::i64_to_usize(i, len)).unwrap_or(len);
                (self.range(f, t).map(|r| self.list(&r)), self.touched_range(f, t))
            }
            Op::Collect => (self.range(0, self.len()).map(|r| self.list(&r)), self.touched_range(0, self.len())),
            Op::First => self.expect(&Op::One(0)),
            Op::Last => {
                let len = self.len();
                if len == 0 { (Some("none".into()), vec![]) } else { self.expect(&Op::One(len - 1)) }
            }
            Op::Grow(..) | Op::SetMap(..) => (None, vec![]),
        }
    }
}

fn method_name(op: &Op) -> &'static str {
    match op {
        Op::Len => "len",
        Op::Range("cr", ..) => "collect_range_at",
        Op::Range("fr", ..) => "fold_range_at",
        Op::Range("fe", ..) => "for_each_range_dyn_at",
        Op::Range("ri", ..) => "read_into_at",
        Op::Range("mn", ..) => "min_at",
        Op::Range("mx", ..) => "max_at",
        Op::Range("sm", ..) => "sum_at",
        Op::Range(..) => "?",
        Op::TryFold(..) => "try_fold_range_at",
        Op::One(_) => "collect_one_at",
        Op::Sorted(_) => "read_sorted_at",
        Op::Cursor(_) => "cursor.get",
        Op::Signed(..) => "collect_signed_range",
        Op::Collect => "collect",
        Op::First => "collect_first",
        Op::Last => "collect_last",
        Op::Grow(..) => "grow",
        Op::SetMap(..) => "setmap",
    }
}

/// Executes the case's ops against `v`; `apply` performs the state-changing ops on the real sources.
fn drive<O, V>(
    id: &str,
    c: &mut Case,
    v: &V,
    show: &dyn Fn(&O) -> String,
    sum: Option<&dyn Fn(&V, usize, usize) -> Option<O>>,
    apply: &mut dyn FnMut(&Op),
    out: &mut String,
    tags: &mut Vec<String>,
) where
    O: VecValue + PartialOrd,
    V: ReadableVec<usize, O>,
{
    let (lo, hi) = ty_range(&c.ty);
    let ops = c.ops.clone();
    for op in &ops {
        match op {
            Op::Grow(k, vals) => {
                apply(op);
                c.srcs[*k].extend(vals.iter().copied());
                out.push_str(&format!("O {id} grown {}\n", c.srcs[*k].len()));
                continue;
            }
            Op::SetMap(m) => {
                apply(op);
                c.map = m.clone();
                out.push_str(&format!("O {id} map {}\n", c.map.len()));
                continue;
            }
            _ => {}
        }
        let got = run_read(v, op, show, sum);
        out.push_str(&format!("O {id} {got}\n"));
        let spec = Spec { c, lo, hi };
        let (exp, touched) = spec.expect(op);
        let mut classes: Vec<&'static str> = touched.iter().map(|h| spec.class_at(*h)).filter(|s| !s.is_empty()).collect();
        classes.sort();
        classes.dedup();
        // classes are distribution tags; two of them put the request outside the property's hypotheses
        // (no V line, model-level comparison only): a window start running ahead of its index by more than
        // an empty window, and a non-governing FromN source shorter than the reported length
        let outside = classes.contains(&"start-after-index") || classes.contains(&"noncounting-source-shorter");
        let class = "plain";
        for cl in &classes {
            let t = format!("class:{cl}");
            if !tags.contains(&t) {
                tags.push(t);
            }
        }
        let fam = match c.kind {
            Kind::From1 | Kind::From2 | Kind::From3 => "fromN",
            Kind::DSub | Kind::DChg => "delta",
            Kind::Agg => "agg-sparse",
        };
        let bad = match &exp {
            Some(e) => {
                if *e != got {
                    Some(if got == "panic" { "panic" } else { "wrong" })
                } else {
                    None
                }
            }
            None => {
                if got == "panic" && !touched.is_empty() {
                    Some("panic")
                } else {
                    None
                }
            }
        };
        let bad = if outside { None } else { bad };
        if let Some(b) = bad {
            out.push_str(&format!(
                "V {id} {fam}-{class}-{b} {} {} on {}: got [{}] formula says [{}]\n",
                c.kind.name(),
                method_name(op),
                op_token(op),
                got,
                exp.clone().unwrap_or("undefined".into())
            ));
        }
        let t = format!("m:{}", method_name(op));
        if !tags.contains(&t) {
            tags.push(t);
        }
        if got == "panic" && !tags.contains(&"panic".to_string()) {
            tags.push("panic".into());
        }
    }
}

fn ty_range(ty: &str) -> (i128, i128) {
    match ty {
        "u64" => (u64::LO, u64::HI),
        "i64" => (i64::LO, i64::HI),
        _ => (u32::LO, u32::HI),
    }
}

// ------------------------------------------------------------------ building the real vectors
fn run_typed<T: El>(db: &Database, id: &str, uid: u64, c: &mut Case, out: &mut String, tags: &mut Vec<String>) {
    let show_t = |x: &T| x.to().to_string();
    let sum_t = |v: &dyn Fn(usize, usize) -> Option<T>, f: usize, t: usize| v(f, t);
    let _ = sum_t;
    let map: SharedMap = Arc::new(parking_lot::RwLock::new(Arc::from(c.map.clone())));
    let name = |k: usize| format!("c{uid}_s{k}");
    macro_rules! mk {
        ($I:ty, $k:expr) => {{
            let mut s: Src<$I, T> = Src::new(db, &name($k), c.stor[$k]);
            s.push_all(&c.srcs[$k]);
            s
        }};
    }
    macro_rules! apply_fn {
        ($($s:ident),*) => {{
            let map = map.clone();
            move |op: &Op| match op {
                Op::Grow(k, vals) => {
                    let mut i = 0;
                    $( if i == *k { $s.grow(vals); } i += 1; )*
                    let _ = i;
                }
                Op::SetMap(m) => *map.write() = Arc::from(m.clone()),
                _ => {}
            }
        }};
    }
    match c.kind {
        Kind::From1 => {
            let mut s0 = mk!(usize, 0);
            let v: LazyVecFrom1<usize, T, usize, T> = LazyVecFrom1::init("l", Version::ZERO, s0.boxed(), |i, a| T::f1(i, a));
            let mut ap = apply_fn!(s0);
            drive(id, c, &v, &show_t, Some(&|v: &LazyVecFrom1<usize, T, usize, T>, f, t| v.sum_at(f, t)), &mut ap, out, tags);
        }
        Kind::From2 => {
            macro_rules! go {
                ($I0:ty, $I1:ty) => {{
                    let mut s0 = mk!($I0, 0);
                    let mut s1 = mk!($I1, 1);
                    let v: LazyVecFrom2<usize, T, $I0, T, $I1, T> =
                        LazyVecFrom2::init("l", Version::ZERO, s0.boxed(), s1.boxed(), |i, a, b| T::f2(i, a, b));
                    let mut ap = apply_fn!(s0, s1);
                    drive(id, c, &v, &show_t, Some(&|v: &LazyVecFrom2<usize, T, $I0, T, $I1, T>, f, t| v.sum_at(f, t)), &mut ap, out, tags);
                }};
            }
            match (c.counts[0], c.counts[1]) {
                (true, true) => go!(usize, usize),
                (true, false) => go!(usize, Ix2),
                _ => go!(Ix2, usize),
            }
        }
        Kind::From3 => {
            macro_rules! go {
                ($I0:ty, $I1:ty, $I2:ty) => {{
                    let mut s0 = mk!($I0, 0);
                    let mut s1 = mk!($I1, 1);
                    let mut s2 = mk!($I2, 2);
                    let v: LazyVecFrom3<usize, T, $I0, T, $I1, T, $I2, T> =
                        LazyVecFrom3::init("l", Version::ZERO, s0.boxed(), s1.boxed(), s2.boxed(), |i, a, b, c| T::f3(i, a, b, c));
                    let mut ap = apply_fn!(s0, s1, s2);
                    drive(id, c, &v, &show_t, Some(&|v: &LazyVecFrom3<usize, T, $I0, T, $I1, T, $I2, T>, f, t| v.sum_at(f, t)), &mut ap, out, tags);
                }};
            }
            match (c.counts[0], c.counts[1], c.counts[2]) {
                (true, true, true) => go!(usize, usize, usize),
                (true, false, true) => go!(usize, Ix2, usize),
                (false, true, false) => go!(Ix2, usize, Ix2),
                _ => go!(usize, usize, Ix2),
            }
        }
        Kind::DSub => {
            let mut s0 = mk!(usize, 0);
            let m2 = map.clone();
            let v: LazyDeltaVec<usize, T, T, DeltaSub> =
                LazyDeltaVec::new("l", Version::ZERO, s0.boxed(), Version::ZERO, move || m2.read().clone());
            let mut ap = apply_fn!(s0);
            drive(id, c, &v, &show_t, Some(&|v: &LazyDeltaVec<usize, T, T, DeltaSub>, f, t| v.sum_at(f, t)), &mut ap, out, tags);
        }
        Kind::Agg => {
            let mut s0 = mk!(usize, 0);
            let m2 = map.clone();
            let v: LazyAggVec<usize, Option<T>, usize, usize, T> =
                LazyAggVec::new("l", Version::ZERO, Version::ZERO, s0.boxed(), move || m2.read().clone());
            let mut ap = apply_fn!(s0);
            let show_o = |x: &Option<T>| match x {
                Some(v) => v.to().to_string(),
                None => "n".into(),
            };
            drive(id, c, &v, &show_o, None, &mut ap, out, tags);
        }
        Kind::DChg => unreachable!(),
    }
}

fn run_dchg(db: &Database, id: &str, uid: u64, c: &mut Case, out: &mut String, tags: &mut Vec<String>) {
    let map: SharedMap = Arc::new(parking_lot::RwLock::new(Arc::from(c.map.clone())));
    let mut s0: Src<usize, u32> = Src::new(db, &format!("c{uid}_s0"), c.stor[0]);
    s0.push_all(&c.srcs[0]);
    let m2 = map.clone();
    let v: LazyDeltaVec<usize, u32, f64, DeltaChange> =
        LazyDeltaVec::new("l", Version::ZERO, s0.boxed(), Version::ZERO, move || m2.read().clone());
    let mut ap = move |op: &Op| match op {
        Op::Grow(_, vals) => s0.grow(vals),
        Op::SetMap(m) => *map.write() = Arc::from(m.clone()),
        _ => {}
    };
    // differences of u32 values are exact in f64: printed as integers, anything else as raw bits
    let show = |x: &f64| if x.fract() == 0.0 && x.abs() < 1e18 { (*x as i64).to_string() } else { format!("bits{:016x}", x.to_bits()) };
    drive(id, c, &v, &show, Some(&|v: &LazyDeltaVec<usize, u32, f64, DeltaChange>, f, t| v.sum_at(f, t)), &mut ap, out, tags);
}

fn run_case(db: &Database, id: &str, uid: u64, c: &mut Case) -> String {
    let mut out = format!("I {id} {}\n", case_tokens(c));
    let mut tags = vec![
        format!("kind:{}", c.kind.name()),
        format!("ty:{}", c.ty),
        format!("stor:{}", String::from_utf8(c.stor.clone()).unwrap()),
    ];
    if c.kind.nsrc() > 1 && c.counts.iter().any(|b| !*b) {
        tags.push("noncounting-source".into());
    }
    if c.srcs.iter().any(|s| s.len() > 4096) {
        tags.push("multi-chunk".into());
    }
    if c.ops.iter().any(|o| matches!(o, Op::Grow(..))) {
        tags.push("grown".into());
    }
    let r = catch_unwind(AssertUnwindSafe(|| match (c.kind, c.ty.as_str()) {
        (Kind::DChg, _) => run_dchg(db, id, uid, c, &mut out, &mut tags),
        (_, "u64") => run_typed::<u64>(db, id, uid, c, &mut out, &mut tags),
        (_, "i64") => run_typed::<i64>(db, id, uid, c, &mut out, &mut tags),
        _ => run_typed::<u32>(db, id, uid, c, &mut out, &mut tags),
    }));
    if r.is_err() {
        out.push_str(&format!("O {id} harness-panic\n"));
    }
    for t in tags {
        out.push_str(&format!("M {id} {t}\n"));
    }
    out
}

// ------------------------------------------------------------------ generation
fn gen_vals(r: &mut Rng, n: usize, lo: i128, hi: i128, cumulative: bool) -> Vec<i128> {
    let mode = r.below(10);
    let mut acc: i128 = if lo < 0 && r.chance(1, 3) { -(r.below(50) as i128) } else { r.below(5) as i128 };
    (0..n)
        .map(|_| {
            if cumulative && mode < 8 {
                acc += r.below(9) as i128;
                acc.min(hi)
            } else if mode < 7 {
                let v = r.below(40) as i128;
                if lo < 0 && r.chance(1, 3) { -v } else { v }
            } else {
                match r.below(6) {
                    0 => lo,
                    1 => hi,
                    2 => hi - r.below(3) as i128,
                    3 => lo + r.below(3) as i128,
                    4 => (hi / 3) + r.below(1000) as i128,
                    _ => r.below(10) as i128,
                }
            }
        })
        .collect()
}

fn gen_len(r: &mut Rng) -> usize {
    match r.below(100) {
        0..=5 => 0,
        6..=15 => 1 + r.below(2) as usize,
        16..=70 => 3 + r.below(10) as usize,
        71..=96 => 13 + r.below(28) as usize,
        97 => 4090 + r.below(12) as usize,
        98 => 4096,
        _ => 8190 + r.below(8) as usize,
    }
}

fn gen_starts(r: &mut Rng, n: usize, inclusive: bool) -> Vec<usize> {
    // length: equal, shorter, longer, empty
    let m = match r.below(10) {
        0 => 0,
        1 | 2 => n.saturating_sub(1 + r.below(3) as usize),
        3 | 4 => n + 1 + r.below(3) as usize,
        _ => n,
    };
    let cap = |h: usize| if inclusive { h + 1 } else { h };
    let mode = r.below(100);
    let mut prev = 0usize;
    (0..m)
        .map(|h| {
            let v = if mode < 35 {
                // sliding window of width w (inclusive ops: w = 0 is the empty window)
                let w = (mode % 5) as usize;
                if inclusive { (h + 1).saturating_sub(w) } else { h.saturating_sub(w) }
            } else if mode < 45 {
                0
            } else if mode < 80 {
                // random monotone, within the index (window never starts after its end + 1)
                let c = cap(h);
                (prev + r.below(3) as usize).min(c)
            } else if mode < 88 {
                // calendar-like: start of the block of 4 containing h
                (h / 4) * 4
            } else if mode < 94 {
                // empty windows / latest allowed start
                cap(h)
            } else {
                // monotone but running ahead of the index, possibly past the end of the source
                prev + r.below(4) as usize
            };
            let v = v.max(prev);
            prev = v;
            v
        })
        .collect()
}

fn gen_first_indexes(r: &mut Rng, n: usize) -> Vec<usize> {
    let m = match r.below(10) {
        0 => 0,
        1 => 1,
        _ => 1 + r.below((n as u64 / 2).max(3)) as usize,
    };
    let mode = r.below(100);
    let mut cur = if r.chance(3, 4) { 0 } else { r.below(3) as usize };
    let mut out = vec![];
    for _ in 0..m {
        out.push(cur);
        let step = match r.below(10) {
            0..=2 => 0, // duplicate: empty group
            3..=6 => 1,
            _ => 1 + r.below(4) as usize,
        };
        cur += step;
        if mode < 78 {
            cur = cur.min(n); // stays within the source (== n: empty trailing groups)
        }
    }
    if mode >= 78 && mode < 90 && !out.is_empty() {
        // the mapping knows more than the source holds: trailing first-indexes past the end
        let k = out.len() - 1 - r.below(out.len().min(3) as u64) as usize;
        for (j, x) in out.iter_mut().enumerate().skip(k) {
            *x = (*x).max(n + 1 + (j - k) * (r.below(2) as usize));
        }
        let mut p = 0;
        for x in out.iter_mut() {
            *x = (*x).max(p);
            p = *x;
        }
    }
    if mode >= 97 && out.len() > 2 {
        // not monotone (outside the property's quantifier): model-level comparison
        let j = r.below(out.len() as u64) as usize;
        out[j] = r.below(n as u64 + 2) as usize;
    }
    out
}

fn gen_bound(r: &mut Rng, len: usize) -> usize {
    match r.below(20) {
        0 => 0,
        1 => len,
        2 => len + 1 + r.below(3) as usize,
        3 => usize::MAX,
        4 => usize::MAX - 1,
        5 => len.saturating_sub(1),
        6 => 4096,
        _ => r.below(len as u64 + 2) as usize,
    }
}

fn gen_range(r: &mut Rng, len: usize) -> (usize, usize) {
    match r.below(12) {
        0 => {
            let a = gen_bound(r, len);
            (a, a)
        } // empty
        1 => {
            let a = r.below(len as u64 + 3) as usize;
            (a + 1 + r.below(3) as usize, a)
        } // reversed
        2 => (0, len),                                   // whole
        3 => (0, usize::MAX),                            // whole, to beyond
        4 => (len + r.below(3) as usize, len + 5),       // entirely out of bounds
        5 | 6 => (gen_bound(r, len), gen_bound(r, len)), // anything
        _ => {
            let a = r.below(len as u64 + 1) as usize;
            let b = a + r.below((len - a.min(len)) as u64 + 2) as usize;
            (a, b)
        } // inside / slightly over
    }
}

fn gen_sorted(r: &mut Rng, len: usize) -> Vec<usize> {
    let k = r.below(9) as usize;
    let mut v: Vec<usize> = (0..k)
        .map(|_| match r.below(12) {
            0 => len,
            1 => len + 1 + r.below(5) as usize,
            2 => 0,
            3 => len.saturating_sub(1),
            4 => usize::MAX,
            _ => r.below(len as u64 + 1) as usize,
        })
        .collect();
    v.sort();
    if k >= 2 && r.chance(1, 3) {
        let j = 1 + r.below(k as u64 - 1) as usize;
        v[j] = v[j - 1]; // duplicate
        v.sort();
    }
    if k >= 2 && r.chance(1, 30) {
        v.swap(0, k - 1); // unsorted: outside the contract
    }
    v
}

fn gen_case(r: &mut Rng, ovf: bool) -> Case {
    let kind = match r.below(100) {
        0..=13 => Kind::From1,
        14..=27 => Kind::From2,
        28..=37 => Kind::From3,
        38..=62 => Kind::DSub,
        63..=74 => Kind::DChg,
        _ => Kind::Agg,
    };
    let ty = if kind == Kind::DChg { "u32" } else { *r.pick(&["u64", "i64", "u32"]) };
    let (lo, hi) = ty_range(ty);
    let ns = kind.nsrc();
    let n = gen_len(r);
    let big = n > 1000;
    let stor: Vec<u8> = (0..ns).map(|_| if r.chance(1, 2) { b'b' } else { b'p' }).collect();
    let mut counts: Vec<bool> = (0..ns).map(|_| r.chance(4, 5)).collect();
    if kind == Kind::From1 || !counts.iter().any(|b| *b) {
        counts[0] = true;
    }
    if kind == Kind::From2 && !counts[0] && !counts[1] {
        counts[1] = true;
    }
    if kind == Kind::From3 {
        // the instantiated index-type combinations
        let ok = [[true, true, true], [true, false, true], [false, true, false], [true, true, false]];
        if !ok.iter().any(|c| c[..] == counts[..]) {
            counts = vec![true, true, true];
        }
    }
    if ns == 1 {
        counts = vec![true];
    }
    let unequal = r.chance(1, 2);
    let srcs: Vec<Vec<i128>> = (0..ns)
        .map(|k| {
            let nk = if unequal && k > 0 {
                match r.below(4) {
                    0 => n.saturating_sub(1 + r.below(3) as usize),
                    1 => n + 1 + r.below(3) as usize,
                    2 => 0,
                    _ => n,
                }
            } else {
                n
            };
            gen_vals(r, nk, lo, hi, kind == Kind::DSub)
        })
        .collect();
    let mut map = match kind {
        Kind::DSub => gen_starts(r, n, true),
        Kind::DChg => gen_starts(r, n, false),
        Kind::Agg => gen_first_indexes(r, n),
        _ => vec![],
    };
    // ops
    let mut c = Case { ovf, kind, ty: ty.to_string(), stor, counts, srcs, map: vec![], ops: vec![Op::Len] };
    std::mem::swap(&mut c.map, &mut map);
    let nops = if big { 8 } else { 14 + r.below(28) as usize };
    let grow = r.chance(3, 10);
    let setmap = r.chance(15, 100) && matches!(kind, Kind::DSub | Kind::DChg | Kind::Agg);
    let mut cur_len = n;
    for j in 0..nops {
        let (lo_, hi_) = (lo, hi);
        if grow && (j == nops / 3 || (j == 2 * nops / 3 && r.chance(1, 2))) {
            let k = r.below(ns as u64) as usize;
            let add = 1 + r.below(5) as usize;
            let vals = gen_vals(r, add, lo_, hi_, kind == Kind::DSub);
            if k == 0 {
                cur_len += add;
            }
            c.ops.push(Op::Grow(k, vals));
            c.ops.push(Op::Len);
            continue;
        }
        if setmap && j == nops / 2 {
            let m = match kind {
                Kind::DSub => gen_starts(r, cur_len, true),
                Kind::DChg => gen_starts(r, cur_len, false),
                _ => gen_first_indexes(r, cur_len),
            };
            c.ops.push(Op::SetMap(m));
            c.ops.push(Op::Len);
            continue;
        }
        // the length requests are drawn around
        let l = if kind == Kind::Agg { c.map.len().max(1) } else { cur_len };
        let op = match r.below(100) {
            0..=11 => {
                let (f, t) = gen_range(r, l);
                Op::Range("cr", f, t)
            }
            12..=19 => {
                let (f, t) = gen_range(r, l);
                Op::Range("fr", f, t)
            }
            20..=27 => {
                let (f, t) = gen_range(r, l);
                Op::Range("fe", f, t)
            }
            28..=35 => {
                let (f, t) = gen_range(r, l);
                Op::Range("ri", f, t)
            }
            36..=43 => {
                let (f, t) = gen_range(r, l);
                Op::TryFold(f, t, if r.chance(1, 4) { usize::MAX } else { r.below(6) as usize })
            }
            44..=57 => Op::One(gen_bound(r, l)),
            58..=73 => Op::Sorted(gen_sorted(r, l)),
            74..=77 => Op::Cursor(gen_sorted(r, l)),
            78..=81 => {
                let (f, t) = gen_range(r, l);
                Op::Range("mn", f, t)
            }
            82..=84 => {
                let (f, t) = gen_range(r, l);
                Op::Range("mx", f, t)
            }
            85..=88 => {
                let (f, t) = gen_range(r, l);
                Op::Range("sm", f, t)
            }
            89..=93 => {
                let s = |r: &mut Rng| match r.below(6) {
                    0 => None,
                    1 => Some(-(r.below(l as u64 + 3) as i64)),
                    2 => Some(i64::MIN),
                    3 => Some(i64::MAX),
                    _ => Some(r.below(l as u64 + 3) as i64),
                };
                let a = s(r);
                let b = s(r);
                Op::Signed(a, b)
            }
            94..=95 => Op::Collect,
            96..=97 => Op::First,
            _ => Op::Last,
        };
        if big && matches!(op, Op::Collect | Op::Range(_, 0, _)) && r.chance(3, 4) {
            c.ops.push(Op::One(gen_bound(r, l)));
        } else {
            c.ops.push(op);
        }
    }
    c
}

fn overflow_checks_on() -> bool {
    catch_unwind(|| {
        let a: usize = std::hint::black_box(0);
        let b: usize = std::hint::black_box(1);
        std::hint::black_box(a - b)
    })
    .is_err()
}

pub fn run(args: &[String]) -> i32 {
    let a = parse_args(args);
    if std::env::var("LAZY_SHOW_PANICS").is_err() {
        quiet_panics();
    }
    let ovf = overflow_checks_on();
    let mut dir = tempfile::TempDir::new().unwrap();
    let mut db = Database::open(dir.path()).unwrap();
    let mut uid = 0u64;
    let emit = |id: &str, c: &mut Case, db: &Database, uid: u64| {
        let s = run_case(db, id, uid, c);
        print!("{s}");
    };
    if let Some(p) = &a.replay {
        for (id, line) in replay_inputs(p) {
            let mut c = parse_case(&line, ovf);
            emit(&id, &mut c, &db, uid);
            uid += 1;
        }
        return 0;
    }
    let mut r = Rng::new(a.seed);
    for n in 0..a.cases {
        if n % 64 == 63 {
            // fresh database: keeps the file small
            drop(db);
            dir = tempfile::TempDir::new().unwrap();
            db = Database::open(dir.path()).unwrap();
        }
        let c0 = gen_case(&mut r, ovf);
        // through the textual form, so that generated and replayed cases take the same path
        let mut c = parse_case(&case_tokens(&c0), ovf);
        emit(&format!("{}-{}", a.seed, n), &mut c, &db, uid);
        uid += 1;
    }
    0
}
