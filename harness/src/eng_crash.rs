//! Engine `crash` (C05, C12 crash part): runs operation histories on a real database with the
//! durability tap installed, reconstructs for every crash point the set of images the disk may
//! hold (OS mode: any page may hold any version written since the last sync of its file;
//! LIB mode: pages reach the disk only during the library's syncs, any subset of the then-dirty
//! pages), materialises sampled / extremal / exhaustive images as real files, opens them with
//! the real `Database::open` and checks the property's oracle.  The abstract trace is printed
//! on the `I` line so that the extracted Coq monitor (Rawdb/Crash.v) can decide it for ALL
//! crash points and page choices at once.
use crate::eng_rawdb::{Gen, Op, World, name};
use crate::rng::Rng;
use crate::util::{parse_args, quiet_panics, replay_inputs};
use rawdb::Database;
use rawdb::verif_tap::{self, Event};
use std::collections::{BTreeMap, BTreeSet};
use std::os::unix::fs::FileExt;
use std::panic::{AssertUnwindSafe, catch_unwind};
use std::sync::Mutex;

const PAGE: u64 = 4096;

#[derive(Clone, Debug)]
enum Ev {
    /// bytes written into the map of `file` (0 data, 1 regions); `pages` = content of every touched page afterwards
    Write { file: u8, off: u64, len: u64, pages: Vec<(u64, Vec<u8>)> },
    SetLen { file: u8, len: u64 },
    Sync { file: u8 },
    Punch { off: u64, len: u64 },
    Promote,
    OpStart(usize),
    OpEnd(usize),
}

struct Recorder {
    events: Vec<Ev>,
    /// a write whose page snapshot has not been taken yet (taken when the next event arrives)
    open_write: Option<(u8, u64, u64)>,
    files: Option<(std::fs::File, std::fs::File)>,
    on: bool,
}

static REC: Mutex<Recorder> = Mutex::new(Recorder { events: vec![], open_write: None, files: None, on: false });

fn read_page(f: &std::fs::File, page: u64) -> Vec<u8> {
    let mut buf = vec![0u8; PAGE as usize];
    let mut done = 0;
    while done < buf.len() {
        match f.read_at(&mut buf[done..], page * PAGE + done as u64) {
            Ok(0) => break,
            Ok(n) => done += n,
            Err(_) => break,
        }
    }
    buf
}

impl Recorder {
    fn close_write(&mut self) {
        if let Some((file, off, len)) = self.open_write.take() {
            let mut pages = vec![];
            if len > 0 {
                if let Some((d, r)) = &self.files {
                    let f = if file == 0 { d } else { r };
                    for p in off / PAGE..=(off + len - 1) / PAGE {
                        pages.push((p, read_page(f, p)));
                    }
                }
            }
            self.events.push(Ev::Write { file, off, len, pages });
        }
    }
    fn push(&mut self, e: Ev) {
        self.close_write();
        self.events.push(e);
    }
}

fn sink(e: &Event) {
    let mut r = REC.lock().unwrap();
    if !r.on {
        return;
    }
    match e {
        Event::MmapWrite { file, offset, len } => {
            r.close_write();
            r.open_write = Some((*file, *offset as u64, *len as u64));
        }
        Event::SetLen { file, len } => r.push(Ev::SetLen { file: *file, len: *len as u64 }),
        Event::SyncData { file } => r.push(Ev::Sync { file: *file }),
        Event::Punch { offset, len } => r.push(Ev::Punch { off: *offset as u64, len: *len as u64 }),
        Event::Layout { kind, .. } if *kind == "promote" => r.push(Ev::Promote),
        _ => {}
    }
}

/// what the reference looked like at a point: id -> bytes
type Snap = BTreeMap<u64, Vec<u8>>;

fn snap(w: &World) -> Snap {
    // a region that never held data and was never renamed has no metadata on disk by design
    // (C01: only regions that "ever held data or were renamed" survive a reopen)
    w.reference.iter().filter(|(_, v)| v.persisted).map(|(k, v)| (*k, v.data.clone())).collect()
}

#[derive(Default, Clone)]
struct FileSim {
    durable: BTreeMap<u64, Vec<u8>>,
    pending: BTreeMap<u64, Vec<Vec<u8>>>,
    len: u64,
}

impl FileSim {
    fn write_image(&self, path: &std::path::Path, choice: &BTreeMap<u64, usize>) {
        // choice: page -> 0 = durable, k>0 = k-th pending version
        let f = std::fs::OpenOptions::new().create(true).write(true).truncate(true).open(path).unwrap();
        f.set_len(self.len).unwrap();
        let zero = vec![0u8; PAGE as usize];
        let mut pages: BTreeSet<u64> = self.durable.keys().copied().collect();
        pages.extend(self.pending.keys().copied());
        for p in pages {
            let k = choice.get(&p).copied().unwrap_or(0);
            let content = if k == 0 { self.durable.get(&p).unwrap_or(&zero) } else { &self.pending[&p][k - 1] };
            if p * PAGE >= self.len {
                continue;
            }
            if content.iter().any(|b| *b != 0) {
                let n = ((self.len - p * PAGE).min(PAGE)) as usize;
                f.write_all_at(&content[..n], p * PAGE).unwrap();
            }
        }
    }
    fn sync(&mut self) {
        for (p, vs) in std::mem::take(&mut self.pending) {
            self.durable.insert(p, vs.last().unwrap().clone());
        }
    }
}

struct Outcome {
    images: u64,
    viol: Vec<String>,
}

/// Open a materialised image with the real library and evaluate the oracle.
/// `must_equal`: id -> acceptable states (None = absent, Some(bytes)).
fn check_image(dir: &std::path::Path, must: &BTreeMap<u64, Vec<Option<Vec<u8>>>>, what: &str) -> Option<String> {
    let r = catch_unwind(AssertUnwindSafe(|| Database::open(dir)));
    let db = match r {
        Err(_) => return Some(format!("open-panicked {what}")),
        Ok(Err(e)) => return Some(format!("open-failed {what} err={e}")),
        Ok(Ok(db)) => db,
    };
    let regions = db.regions();
    let mut ext: Vec<(u64, u64, String)> = regions.index_to_region().iter().flatten().map(|r| {
        let m = r.meta();
        (m.start() as u64, m.reserved() as u64, m.id().to_string())
    }).collect();
    ext.sort();
    let flen = std::fs::metadata(dir.join("data")).map(|m| m.len()).unwrap_or(0);
    let mut pos = 0;
    for (s, z, id) in &ext {
        if *s < pos {
            return Some(format!("recovered-regions-overlap {what} region={id} start={s}"));
        }
        pos = s + z;
        if pos > flen {
            return Some(format!("recovered-region-outside-file {what} region={id} end={pos} file={flen}"));
        }
    }
    drop(regions);
    for (id, accepted) in must {
        let got: Option<Vec<u8>> = db.get_region(&name(*id)).map(|r| r.create_reader().read_all().to_vec());
        if !accepted.iter().any(|a| *a == got) {
            let d = |o: &Option<Vec<u8>>| match o { None => "absent".to_string(), Some(b) => format!("len{}", b.len()) };
            return Some(format!("region-not-recovered-as-flushed {what} region=r{id} got={} accepted={}", d(&got), accepted.iter().map(d).collect::<Vec<_>>().join("|")));
        }
    }
    None
}

/// Canonical form of an abstract trace (the same function as `canon` in ocaml/eng_crash.ml):
/// ids of an `op` token sorted; maximal runs of `mw:<slot>:z` tokens sorted by slot
/// (retain_regions removes in HashMap order); maximal runs of `pu` tokens sorted by offset
/// (punch_holes punches the layout holes in parallel).
fn canon(toks: &[String]) -> Vec<String> {
    let key = |t: &String| -> u64 { t.split(':').nth(1).and_then(|x| x.parse().ok()).unwrap_or(0) };
    let is_mwz = |t: &String| t.starts_with("mw:") && t.split(':').count() == 3 && t.ends_with(":z");
    let is_pu = |t: &String| t.starts_with("pu:");
    let mut v: Vec<String> = toks.iter().map(|t| {
        if let Some(body) = t.strip_prefix("op:") {
            if body.is_empty() { return t.clone(); }
            let mut ids: Vec<u64> = body.split('+').map(|x| x.parse().unwrap()).collect();
            ids.sort();
            format!("op:{}", ids.iter().map(|x| x.to_string()).collect::<Vec<_>>().join("+"))
        } else { t.clone() }
    }).collect();
    for pred in [&is_mwz as &dyn Fn(&String) -> bool, &is_pu as &dyn Fn(&String) -> bool] {
        let mut i = 0;
        while i < v.len() {
            if pred(&v[i]) {
                let mut j = i;
                while j < v.len() && pred(&v[j]) { j += 1; }
                v[i..j].sort_by_key(|t| key(t));
                i = j;
            } else {
                i += 1;
            }
        }
    }
    v
}

fn run_case(cid: &str, min_len: u64, ops: Option<Vec<Op>>, mut g: Option<&mut Gen>, nops: u64, img_budget: u64, seed: u64) {
    verif_tap::set_sink(Some(Box::new(sink)));
    {
        let mut r = REC.lock().unwrap();
        r.events.clear();
        r.open_write = None;
        r.files = None;
        r.on = false;
    }
    let mut w = World::new(min_len);
    {
        let mut r = REC.lock().unwrap();
        let d = std::fs::File::open(w.dir.path().join("data")).unwrap();
        let rf = std::fs::File::open(w.dir.path().join("regions")).unwrap();
        r.files = Some((d, rf));
        r.on = true;
        r.events.push(Ev::SetLen { file: 0, len: min_len });
    }
    let mut hist: Vec<Op> = vec![];
    let mut snaps: Vec<Snap> = vec![];
    let mut results: Vec<String> = vec![];
    let total = ops.as_ref().map(|o| o.len() as u64).unwrap_or(nops);
    for step in 0..total {
        let op = match (&ops, g.as_deref_mut()) {
            (Some(o), _) => o[step as usize].clone(),
            (None, Some(g)) => loop {
                let o = g.next_op(&w, false);
                // reopen is a different experiment (it IS the recovery); keep histories on one instance
                if !matches!(o, Op::Reopen | Op::SetMinRegions(_)) {
                    break o;
                }
            },
            _ => unreachable!(),
        };
        REC.lock().unwrap().push(Ev::OpStart(step as usize));
        let got = w.exec(&op);
        REC.lock().unwrap().push(Ev::OpEnd(step as usize));
        w.apply_ref(&op);
        hist.push(op);
        results.push(got.clone());
        snaps.push(snap(&w));
        if got == "panic" {
            break;
        }
    }
    let events = {
        let mut r = REC.lock().unwrap();
        r.close_write();
        r.on = false;
        std::mem::take(&mut r.events)
    };
    verif_tap::set_sink(None);
    drop(w);

    // ---- replay the event log, enumerating crash images -------------------------------------
    let mut rng = Rng::new(seed ^ 0xC0FFEE);
    let mut sim = [FileSim::default(), FileSim::default()];
    let mut out = Outcome { images: 0, viol: vec![] };
    let scratch = tempfile::Builder::new().prefix("anydb-crash").tempdir_in(if std::path::Path::new("/dev/shm").exists() { "/dev/shm" } else { "/tmp" }).unwrap();
    let mut cur_op: Option<usize> = None;
    let mut last_flush: Option<usize> = None; // op index of the last completed Database::flush / compact
    let mut last_sync_op: Option<usize> = None; // op index of the last completed syncing op (LIB mode)
    let mut touched: BTreeSet<u64> = BTreeSet::new(); // ids addressed since last_flush
    let mut inplace: BTreeSet<u64> = BTreeSet::new(); // ids whose flushed bytes may have been overwritten in place since last_sync_op
    // a region renamed since the last sync may be recovered under any of its names
    let mut names_of: BTreeMap<u64, Vec<u64>> = BTreeMap::new();
    let mut abstract_trace: Vec<String> = vec![];
    let empty = Snap::new();
    let n_events = events.len();
    for (k, e) in events.iter().enumerate() {
        // LIB mode: a crash inside this sync may have written any subset of the dirty pages of that file
        if let Ev::Sync { file } = e {
            if last_sync_op.is_some() && out.viol.is_empty() {
                let f = *file as usize;
                let pages: Vec<u64> = sim[f].pending.keys().copied().collect();
                if !pages.is_empty() {
                    let before = snaps.get(last_sync_op.unwrap()).unwrap_or(&empty);
                    let begin = cur_op.and_then(|c| if c == 0 { None } else { snaps.get(c - 1) }).unwrap_or(&empty);
                    let mut must: BTreeMap<u64, Vec<Option<Vec<u8>>>> = BTreeMap::new();
                    let ids: BTreeSet<u64> = before.keys().chain(begin.keys()).copied().collect();
                    for id in ids {
                        if !inplace.contains(&id) {
                            must.insert(id, vec![before.get(&id).cloned(), begin.get(&id).cloned()]);
                        }
                    }
                    let subsets: Vec<Vec<bool>> = if pages.len() <= 5 {
                        (0..(1u32 << pages.len())).map(|m| (0..pages.len()).map(|i| m >> i & 1 == 1).collect()).collect()
                    } else {
                        let mut v: Vec<Vec<bool>> = vec![vec![false; pages.len()], vec![true; pages.len()]];
                        for i in 0..pages.len().min(6) { let mut s = vec![false; pages.len()]; s[i] = true; v.push(s); }
                        for _ in 0..4 { v.push((0..pages.len()).map(|_| rng.chance(1, 2)).collect()); }
                        v
                    };
                    for sub in subsets {
                        if out.images >= img_budget { break; }
                        let mut choice = [BTreeMap::new(), BTreeMap::new()];
                        for (i, p) in pages.iter().enumerate() {
                            if sub[i] { choice[f].insert(*p, sim[f].pending[p].len()); }
                        }
                        sim[0].write_image(&scratch.path().join("data"), &choice[0]);
                        sim[1].write_image(&scratch.path().join("regions"), &choice[1]);
                        out.images += 1;
                        if let Some(v) = check_image(scratch.path(), &must, &format!("mode=lib crash-inside-sync-of-file{} event={k} op={}", file, cur_op.map(|c| hist[c].show()).unwrap_or_default())) {
                            out.viol.push(v);
                            break;
                        }
                    }
                }
            }
        }
        // apply the event
        match e {
            Ev::Write { file, off, len, pages } => {
                let f = *file as usize;
                for (p, content) in pages {
                    sim[f].pending.entry(*p).or_default().push(content.clone());
                }
                if *file == 1 {
                    let slot = off / PAGE;
                    let content = &pages[0].1;
                    let tok = match rawdb::RegionMetadata::from_bytes(content) {
                        Ok(m) => format!("mw:{slot}:{}:{}:{}:{}", m.start(), m.len(), m.reserved(), m.id().trim_start_matches('r')),
                        Err(_) => format!("mw:{slot}:z"),
                    };
                    abstract_trace.push(tok);
                } else {
                    abstract_trace.push(format!("dw:{off}:{len}"));
                }
            }
            Ev::SetLen { file, len } => {
                sim[*file as usize].len = *len;
                if *file == 0 { abstract_trace.push(format!("sl:{len}")); }
            }
            Ev::Sync { file } => {
                sim[*file as usize].sync();
                abstract_trace.push(if *file == 0 { "ds".into() } else { "ms".into() });
            }
            Ev::Punch { off, len } => {
                for p in off / PAGE..(off + len) / PAGE {
                    sim[0].pending.entry(p).or_default().push(vec![0u8; PAGE as usize]);
                }
                abstract_trace.push(format!("pu:{off}:{len}"));
            }
            Ev::Promote => abstract_trace.push("pr".into()),
            Ev::OpStart(i) => {
                cur_op = Some(*i);
                let ids: Vec<u64> = match &hist[*i] {
                    Op::Create(a, _) | Op::Write(a, ..) | Op::WriteAt(a, ..) | Op::TruncWrite(a, ..) | Op::Truncate(a, _) | Op::Remove(a) => vec![*a],
                    Op::Rename(a, b) => vec![*a, *b],
                    Op::Retain(keep) => { let prev = if *i == 0 { &empty } else { &snaps[*i - 1] }; prev.keys().filter(|k| !keep.contains(k)).copied().collect() }
                    _ => vec![],
                };
                let prev = if *i == 0 { &empty } else { &snaps[*i - 1] };
                for id in &ids {
                    touched.insert(*id);
                    let mut aliases = names_of.get(id).cloned().unwrap_or_default();
                    aliases.push(*id);
                    let flen = last_sync_op.and_then(|s| aliases.iter().filter_map(|a| snaps[s].get(a)).map(|b| b.len() as u64).max());
                    let cur_len = prev.get(id).map(|b| b.len() as u64).unwrap_or(0);
                    let hits = match &hist[*i] {
                        Op::Write(..) => flen.map(|f| cur_len < f).unwrap_or(false),
                        Op::WriteAt(_, _, n, at) | Op::TruncWrite(_, _, n, at) => flen.map(|f| *at < f && *n > 0).unwrap_or(false),
                        _ => false,
                    };
                    if hits {
                        inplace.insert(*id);
                        for alias in names_of.get(id).cloned().unwrap_or_default() {
                            inplace.insert(alias);
                        }
                    }
                }
                if let Op::Rename(a, b) = &hist[*i] {
                    let mut l = names_of.remove(a).unwrap_or_else(|| vec![*a]);
                    l.push(*b);
                    if inplace.contains(a) { inplace.insert(*b); }
                    names_of.insert(*b, l);
                }
                abstract_trace.push(format!("op:{}", ids.iter().map(|x| x.to_string()).collect::<Vec<_>>().join("+")));
            }
            Ev::OpEnd(i) => {
                cur_op = None;
                let ok = results[*i].starts_with("ok");
                match &hist[*i] {
                    Op::Flush | Op::Compact if ok => {
                        last_flush = Some(*i);
                        last_sync_op = Some(*i);
                        touched.clear();
                        inplace.clear();
                        names_of.clear();
                        abstract_trace.push("fl".into());
                    }
                    Op::FlushRegion(_) if results[*i] == "ok:1" => {
                        last_sync_op = Some(*i);
                        inplace.clear();
                        names_of.clear();
                        abstract_trace.push("fr".into());
                    }
                    _ => abstract_trace.push("end".into()),
                }
            }
        }
        if !out.viol.is_empty() || out.images >= img_budget {
            continue;
        }
        // ---- OS mode crash point after this event -------------------------------------------
        let Some(lf) = last_flush else { continue };
        let interesting = matches!(e, Ev::Write { file: 1, .. } | Ev::Sync { .. } | Ev::Promote | Ev::Punch { .. } | Ev::OpEnd(_)) || rng.chance(1, 4) || k + 1 == n_events;
        if !interesting {
            continue;
        }
        let flushed = &snaps[lf];
        let mut must: BTreeMap<u64, Vec<Option<Vec<u8>>>> = BTreeMap::new();
        for (id, bytes) in flushed {
            if !touched.contains(id) {
                must.insert(*id, vec![Some(bytes.clone())]);
            }
        }
        let mpages: Vec<u64> = sim[1].pending.keys().copied().collect();
        let dpages: Vec<u64> = sim[0].pending.keys().copied().collect();
        // metadata pages: exhaustive over (durable | latest) up to 6 pages, plus random version picks;
        // data pages: all durable / all latest / random
        let mut meta_choices: Vec<BTreeMap<u64, usize>> = vec![];
        if mpages.len() <= 6 {
            for m in 0..(1u32 << mpages.len()) {
                meta_choices.push(mpages.iter().enumerate().filter(|(i, _)| m >> i & 1 == 1).map(|(_, p)| (*p, sim[1].pending[p].len())).collect());
            }
        } else {
            meta_choices.push(BTreeMap::new());
            meta_choices.push(mpages.iter().map(|p| (*p, sim[1].pending[p].len())).collect());
            for p in &mpages { meta_choices.push([(*p, sim[1].pending[p].len())].into_iter().collect()); }
        }
        for _ in 0..3 {
            meta_choices.push(mpages.iter().map(|p| (*p, rng.below(sim[1].pending[p].len() as u64 + 1) as usize)).collect());
        }
        for (ci, mc) in meta_choices.iter().enumerate() {
            if out.images >= img_budget { break; }
            let dc: BTreeMap<u64, usize> = match ci % 3 {
                0 => BTreeMap::new(),
                1 => dpages.iter().map(|p| (*p, sim[0].pending[p].len())).collect(),
                _ => dpages.iter().map(|p| (*p, rng.below(sim[0].pending[p].len() as u64 + 1) as usize)).collect(),
            };
            sim[0].write_image(&scratch.path().join("data"), &dc);
            sim[1].write_image(&scratch.path().join("regions"), mc);
            out.images += 1;
            let what = format!("mode=os event={k} after-op={} meta-pages-new={:?}", cur_op.map(|c| hist[c].show()).unwrap_or("-".into()), mc.iter().filter(|(_, v)| **v > 0).map(|(p, _)| *p).collect::<Vec<_>>());
            if let Some(v) = check_image(scratch.path(), &must, &what) {
                out.viol.push(v);
                break;
            }
        }
    }
    println!("I {cid} open:{min_len} {} | {}", hist.iter().map(|o| o.show()).collect::<Vec<_>>().join(" "), abstract_trace.join(" "));
    println!("O {cid} monitor ok");
    // model-level tie: the extracted allocator model with the event semantics of
    // Rawdb/AllocEvents.v must produce the same trace, token for token, in canonical form
    println!("O {cid} trace {}", canon(&abstract_trace).join(" "));
    for v in &out.viol {
        let p = if v.contains("punch") { "C12" } else { "C05" };
        println!("V {cid} {p}:{v}");
    }
    println!("M {cid} images:{}", out.images);
    println!("M {cid} events:{}", n_events);
}

pub fn run(args: &[String]) -> i32 {
    let a = parse_args(args);
    quiet_panics();
    let budget: u64 = a.rest.iter().position(|x| x == "--images").map(|i| a.rest[i + 1].parse().unwrap()).unwrap_or(600);
    if let Some(path) = a.replay {
        for (cid, body) in replay_inputs(&path) {
            let body = body.split(" | ").next().unwrap().to_string();
            let t: Vec<&str> = body.split_whitespace().collect();
            let min_len: u64 = t[0].trim_start_matches("open:").parse().unwrap();
            let ops: Vec<Op> = t[1..].iter().map(|s| Op::parse(s)).collect();
            run_case(&cid, min_len, Some(ops), None, 0, 100000, a.seed);
        }
        return 0;
    }
    let mut g = Gen { rng: Rng::new(a.seed), next_id: 0, next_w: 0, max_size: 30000 };
    for c in 0..a.cases {
        g.next_id = 0;
        let nops = g.rng.range(10, 40);
        run_case(&format!("{c}"), 0, None, Some(&mut g), nops, budget, a.seed * 7919 + c);
    }
    0
}
