//! Engine `vecerr` (C13, vecdb part): refused requests on real vectors must have no effect.
//! Implementation-only oracles (no model is involved; the OCaml side only acknowledges each
//! case): a vector is brought into a generated state, the complete observable state of the
//! database is recorded (every region's name and bytes, the vector's contents after a re-import),
//! a request that the library refuses is issued, and the state is recorded again.
//!   * checked_push at a wrong index                      -> Err(UnexpectedIndex)
//!   * remove() of a vector whose region is still held     -> Err(RegionStillReferenced)
//!   * plain import with a mismatching version             -> Err(DifferentVersion)
//!   * rollback without a change record                    -> Err(_)
//!   * plain import of the same name through ANOTHER storage format (a compressed type over a raw
//!     vector, a raw type over a compressed one, another codec)  -> Err(DifferentFormat / …): no
//!     auxiliary region (`_pages`, `_holes`) may be created or touched by the refused request
use crate::rng::{Rng, fnv};
use crate::util::{parse_args, quiet_panics, replay_inputs};
use std::collections::BTreeMap;
use std::panic::{AssertUnwindSafe, catch_unwind};
use vecdb::{
    AnyStoredVec, AnyVec, BytesVec, Database, ImportOptions, ImportableVec, LZ4Vec, PcoVec, ReadableVec, Stamp, Version,
    WritableVec, ZeroCopyVec, ZstdVec,
};

fn regions_dump(db: &Database) -> BTreeMap<String, (usize, u64)> {
    let names: Vec<String> = db.regions().id_to_index().keys().cloned().collect();
    let mut out = BTreeMap::new();
    for n in names {
        if let Some(r) = db.get_region(&n) {
            let rd = r.create_reader();
            out.insert(n, (rd.len(), fnv(rd.read_all())));
        }
    }
    out
}

fn changes_dump(db: &Database) -> Vec<(String, u64)> {
    let mut v = vec![];
    let root = db.path().join("changes");
    fn walk(p: &std::path::Path, v: &mut Vec<(String, u64)>) {
        if let Ok(rd) = std::fs::read_dir(p) {
            for e in rd.flatten() {
                let path = e.path();
                if path.is_dir() {
                    walk(&path, v);
                } else if let Ok(b) = std::fs::read(&path) {
                    v.push((path.to_string_lossy().into_owned(), fnv(&b)));
                }
            }
        }
    }
    walk(&root, &mut v);
    v.sort();
    v
}

/// A plain import of "v" (same version) through a storage format other than the one it was created with.
fn other_import(db: &Database, fmt: &str, pick: u64) -> (&'static str, String) {
    let others: [&'static str; 4] = match fmt {
        "bytes" => ["pco", "lz4", "zstd", "pco"],
        "zc" => ["lz4", "pco", "zstd", "lz4"],
        "pco" => ["bytes", "lz4", "zc", "zstd"],
        _ => ["bytes", "pco", "zc", "zstd"],
    };
    let other = others[(pick % 4) as usize];
    let opts = ImportOptions::new(db, "v", Version::ONE).with_saved_stamped_changes(2);
    let r = match other {
        "bytes" => BytesVec::<usize, u32>::import_with(opts).map(|_| ()),
        "zc" => ZeroCopyVec::<usize, u32>::import_with(opts).map(|_| ()),
        "pco" => PcoVec::<usize, u32>::import_with(opts).map(|_| ()),
        "lz4" => LZ4Vec::<usize, u32>::import_with(opts).map(|_| ()),
        _ => ZstdVec::<usize, u32>::import_with(opts).map(|_| ()),
    };
    (other, match r { Ok(_) => "ok".into(), Err(e) => format!("err:{}", kind(&e)) })
}

/// One case: `<fmt> <seed> <request>`; prints the verdict tokens.
fn run_case(fmt: &str, seed: u64, req: &str) -> (String, Vec<String>) {
    let mut viol = vec![];
    let mut rng = Rng::new(seed);
    let dir = tempfile::tempdir().unwrap();
    let db = Database::open(dir.path()).unwrap();
    macro_rules! body {
        ($V:ty, $raw:expr, $del:expr) => {{
            let opts = || ImportOptions::new(&db, "v", Version::ONE).with_saved_stamped_changes(2);
            let mut v = <$V>::forced_import_with(opts()).unwrap();
            // a generated state: stored + (raw: deleted slots with a holes region) + buffered values
            let n = rng.range(3, 40);
            for i in 0..n { v.push((i * 7 + seed) as u32); }
            v.stamped_write_with_changes(Stamp::new(1)).unwrap();
            #[allow(unused_mut)]
            let mut deleted: Vec<usize> = vec![];
            if $raw && rng.chance(3, 4) {
                for _ in 0..rng.range(1, 3) { deleted.push(rng.below(n) as usize); }
            }
            if !deleted.is_empty() {
                let del: fn(&mut $V, usize) = $del;
                for d in &deleted { del(&mut v, *d); }
                v.stamped_write_with_changes(Stamp::new(2)).unwrap();   // raw: creates the holes region
            }
            let extra = rng.below(4);
            let before_regions;
            let before_changes;
            let before_contents: Vec<u32>;
            let result: String;
            match req {
                "checked_push" => {
                    for i in 0..extra { v.push(900 + i as u32); }
                    before_regions = regions_dump(&db);
                    before_changes = changes_dump(&db);
                    before_contents = v.collect();
                    let len = v.len();
                    let wrong = if rng.chance(1, 2) { len + 1 + rng.below(5) as usize } else { len.saturating_sub(1 + rng.below(3) as usize) };
                    let r = if wrong == len { Ok(()) } else { v.checked_push_at(wrong, 4242) };
                    result = match r { Ok(_) => "ok".into(), Err(e) => format!("err:{}", kind(&e)) };
                    if result.starts_with("err") {
                        if v.collect() != before_contents || v.len() != len { viol.push("C13:checked-push-refused-but-vector-changed".to_string()); }
                    }
                    v.write().unwrap();
                    let _ = (&before_regions, &before_changes);
                }
                "remove_held" => {
                    v.flush().unwrap();
                    db.flush().unwrap();
                    before_contents = v.collect();
                    before_regions = regions_dump(&db);
                    before_changes = changes_dump(&db);
                    // another live handle on the vector's data region
                    let held = v.region().clone();
                    let r = v.remove();
                    result = match r { Ok(_) => "ok".into(), Err(e) => format!("err:{}", kind(&e)) };
                    if result.starts_with("err") {
                        let after = regions_dump(&db);
                        if after != before_regions {
                            let missing: Vec<&String> = before_regions.keys().filter(|k| !after.contains_key(*k)).collect();
                            viol.push(format!("C13:refused-vector-remove-changed-the-regions missing={missing:?}"));
                        }
                        drop(held);
                        match <$V>::forced_import_with(opts()) {
                            Ok(again) => { if again.collect() != before_contents { viol.push("C13:refused-vector-remove-changed-the-contents".to_string()); } }
                            Err(e) => viol.push(format!("C13:vector-unusable-after-refused-remove err={}", kind(&e))),
                        }
                    } else {
                        drop(held);
                    }
                }
                "import_mismatch" => {
                    v.flush().unwrap();
                    db.flush().unwrap();
                    before_contents = v.collect();
                    drop(v);
                    before_regions = regions_dump(&db);
                    before_changes = changes_dump(&db);
                    let r = <$V>::import_with(ImportOptions::new(&db, "v", Version::new(7)).with_saved_stamped_changes(2));
                    result = match r { Ok(_) => "ok".into(), Err(e) => format!("err:{}", kind(&e)) };
                    if result.starts_with("err") {
                        if regions_dump(&db) != before_regions || changes_dump(&db) != before_changes { viol.push("C13:refused-import-changed-the-regions".to_string()); }
                        // forced_import_with was used for creation: reopen through the same entry point
                        match <$V>::forced_import_with(opts()) {
                            Ok(again) => { if again.collect() != before_contents { viol.push("C13:refused-import-changed-the-contents".to_string()); } }
                            Err(e) => viol.push(format!("C13:vector-unusable-after-refused-import err={}", kind(&e))),
                        }
                    } else {
                        viol.push("C13:import-with-mismatching-version-accepted".to_string());
                    }
                }
                "import_other_format" => {
                    v.flush().unwrap();
                    db.flush().unwrap();
                    before_contents = v.collect();
                    drop(v);
                    before_regions = regions_dump(&db);
                    before_changes = changes_dump(&db);
                    let (other, r) = other_import(&db, fmt, rng.next());
                    if r.starts_with("err") {
                        let after = regions_dump(&db);
                        if after != before_regions {
                            let added: Vec<&String> = after.keys().filter(|k| !before_regions.contains_key(*k)).collect();
                            let gone: Vec<&String> = before_regions.keys().filter(|k| !after.contains_key(*k)).collect();
                            viol.push(format!("C13:refused-import-through-another-format-changed-the-regions as={other} added={added:?} removed={gone:?}"));
                        }
                        if changes_dump(&db) != before_changes { viol.push(format!("C13:refused-import-through-another-format-changed-the-change-files as={other}")); }
                        match <$V>::forced_import_with(opts()) {
                            Ok(again) => { if again.collect() != before_contents { viol.push(format!("C13:refused-import-through-another-format-changed-the-contents as={other}")); } }
                            Err(e) => viol.push(format!("C13:vector-unusable-after-refused-import-through-another-format as={other} err={}", kind(&e))),
                        }
                    }
                    result = format!("{other}:{r}");
                }
                _ => {
                    // rollback without a record: remove the change files first
                    for i in 0..extra { v.push(900 + i as u32); }
                    let _ = std::fs::remove_dir_all(db.path().join("changes"));
                    before_regions = regions_dump(&db);
                    before_changes = changes_dump(&db);
                    before_contents = v.collect();
                    let (len, stamp) = (v.len(), v.stamp());
                    let r = v.rollback();
                    result = match r { Ok(_) => "ok".into(), Err(e) => format!("err:{}", kind(&e)) };
                    if result.starts_with("err") {
                        if v.collect() != before_contents || v.len() != len || v.stamp() != stamp { viol.push("C13:refused-rollback-changed-the-vector".to_string()); }
                        if regions_dump(&db) != before_regions { viol.push("C13:refused-rollback-changed-the-regions".to_string()); }
                    } else {
                        viol.push("C13:rollback-without-record-accepted".to_string());
                    }
                    let _ = &before_changes;
                }
            }
            result
        }};
    }
    let res = catch_unwind(AssertUnwindSafe(|| match fmt {
        "bytes" => body!(BytesVec<usize, u32>, true, |v, i| v.delete_at(i)),
        "zc" => body!(ZeroCopyVec<usize, u32>, true, |v, i| v.delete_at(i)),
        "pco" => body!(PcoVec<usize, u32>, false, |_v, _i| {}),
        _ => body!(LZ4Vec<usize, u32>, false, |_v, _i| {}),
    }));
    match res {
        Ok(r) => (r, viol),
        Err(_) => ("panic".into(), vec!["C13:refused-request-panicked".into()]),
    }
}

fn kind(e: &vecdb::Error) -> String {
    let s = format!("{e:?}");
    s.split(|c: char| !c.is_alphanumeric()).next().unwrap_or("Other").to_string()
}

pub fn run(args: &[String]) -> i32 {
    let a = parse_args(args);
    quiet_panics();
    let exec = |cid: &str, fmt: &str, seed: u64, req: &str| {
        crate::util::running(cid, &format!("{fmt} {seed} {req}"));
        let (r, viol) = run_case(fmt, seed, req);
        println!("I {cid} {fmt} {seed} {req}");
        println!("O {cid} done");
        println!("M {cid} result:{req}:{r}");
        for v in viol {
            println!("V {cid} {v}");
        }
    };
    if let Some(path) = a.replay {
        for (cid, body) in replay_inputs(&path) {
            let t: Vec<&str> = body.split_whitespace().collect();
            exec(&cid, t[0], t[1].parse().unwrap(), t[2]);
        }
        return 0;
    }
    let mut rng = Rng::new(a.seed);
    let fmts = ["bytes", "zc", "pco", "lz4"];
    let reqs = ["checked_push", "remove_held", "import_mismatch", "rollback_no_record", "import_other_format"];
    for c in 0..a.cases {
        let fmt = fmts[(c % 4) as usize];
        let req = reqs[((c / 4) % 5) as usize];
        exec(&format!("{c}"), fmt, rng.next() % 100000, req);
    }
    0
}
