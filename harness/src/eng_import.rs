//! Engine `import` (C14): the full cross product
//!   (created through e1 with version v1 as format f1) x (reopened through e2 with v2 as f2)
//! on the real vectors (BytesVec, ZeroCopyVec, PcoVec, LZ4Vec, ZstdVec, and EagerVec around each),
//! for several element types, with and without data, with and without a holes region, plus
//! damaged stored regions and versions at the top of u32.
//!
//! Per case:  `I <id> f1 e1 v1 f2 e2 v2 ty wrap ndata holes tamper oc`
//!            `O <id> create ok|err <Kind>|panic`
//!            `O <id> reopen ok len=.. slots=.. holes=.. regs=<main><pages><holes>` | `reopen err <Kind> regs=...` | `reopen panic regs=...`
//!            `O <id> probe <slots after pushing 4 more values> write=ok|err <Kind>`   (only after a successful reopen;
//!                                                               the pushed values are written; the database is also flushed in the u64 slice)
//!            `O <id> again ok len=.. slots=.. holes=.. regs=...` | `again err <Kind> regs=...`   step 3: the SAME request
//!                                                               (e2, v2, f2) once more; must return what was just written
//!            `V <id> <key> ...`   the property text itself checked on the implementation (undamaged vectors;
//!                                 damaged regions are model-level cases only, except the unreadable header)
//!            `M <id> <tag>`       distribution tags
//! regs: one letter per region `name/usize`, `name/usize_pages`, `name/usize_holes`:
//!       a = absent before and after, s = same bytes, c = bytes changed, n = newly created, r = removed.
//! The enumeration is exhaustive and deterministic; `--shards K` + the shard number in the seed
//! (seed % 1000) select the slice `index % K == shard`.
use crate::util;
use rawdb::Database;
use std::fmt::Debug;
use std::panic::{AssertUnwindSafe, catch_unwind};
use vecdb::{
    AnyStoredVec, AnyVec, BytesVec, EagerVec, ImportableVec, LZ4Vec, PcoVec, ReadableVec, Version,
    WritableVec, ZeroCopyVec, ZstdVec,
};

const NAME: &str = "vec";

#[derive(Clone, Debug)]
struct Case {
    f1: char,
    e1: char,
    v1: u32,
    f2: char,
    e2: char,
    v2: u32,
    ty: &'static str,
    wrap: char, // p = plain wrapper, e = EagerVec around it
    ndata: usize,
    holes: bool,
    tamper: &'static str, // n hv fb sh ax
}

impl Case {
    fn line(&self, oc: bool) -> String {
        format!(
            "{} {} {} {} {} {} {} {} {} {} {} {}",
            self.f1, self.e1, self.v1, self.f2, self.e2, self.v2, self.ty, self.wrap, self.ndata,
            self.holes as u8, self.tamper, oc as u8
        )
    }
    fn parse(s: &str) -> Option<Case> {
        let t: Vec<&str> = s.split_whitespace().collect();
        if t.len() < 11 {
            return None;
        }
        let ty = match t[6] { "u16" => "u16", "u32" => "u32", "u64" => "u64", "i64" => "i64", _ => return None };
        let tamper = match t[10] { "n" => "n", "hv" => "hv", "fb" => "fb", "sh" => "sh", "ax" => "ax", "ml" => "ml", _ => return None };
        Some(Case {
            f1: t[0].chars().next()?,
            e1: t[1].chars().next()?,
            v1: t[2].parse().ok()?,
            f2: t[3].chars().next()?,
            e2: t[4].chars().next()?,
            v2: t[5].parse().ok()?,
            ty,
            wrap: t[7].chars().next()?,
            ndata: t[8].parse().ok()?,
            holes: t[9] == "1",
            tamper,
        })
    }
}

const FORMATS: [char; 5] = ['b', 'z', 'p', 'l', 's'];
const ENTRIES: [char; 2] = ['i', 'f'];
fn is_raw(f: char) -> bool {
    f == 'b' || f == 'z'
}

fn all_cases() -> Vec<Case> {
    let mut out = vec![];
    let base: u32 = 10;
    let cross = |ty: &'static str, wrap: char, dvs: &[i64], out: &mut Vec<Case>| {
        for &f1 in &FORMATS {
            for &e1 in &ENTRIES {
                for &f2 in &FORMATS {
                    for &e2 in &ENTRIES {
                        for &dv in dvs {
                            // (ndata, holes): empty, data, data + holes region (raw creator, plain wrapper)
                            let mut shapes = vec![(0usize, false), (5, false)];
                            if is_raw(f1) && wrap == 'p' {
                                shapes.push((5, true));
                            }
                            for (ndata, holes) in shapes {
                                out.push(Case {
                                    f1, e1, v1: base, f2, e2, v2: (base as i64 + dv) as u32, ty, wrap,
                                    ndata, holes, tamper: "n",
                                });
                            }
                        }
                    }
                }
            }
        }
    };
    let wide: Vec<i64> = (-6..=6).collect();
    cross("u32", 'p', &wide, &mut out);
    for ty in ["u16", "u64", "i64"] {
        cross(ty, 'p', &[0, 1], &mut out);
    }
    cross("u32", 'e', &[0, 1], &mut out);
    // damaged stored regions: same request as at creation
    for tamper in ["hv", "fb", "sh", "ax", "ml"] {
        for &f in &FORMATS {
            for &e1 in &ENTRIES {
                for &e2 in &ENTRIES {
                    out.push(Case { f1: f, e1, v1: base, f2: f, e2, v2: base, ty: "u32", wrap: 'p', ndata: 5,
                                    holes: is_raw(f), tamper });
                }
            }
        }
    }
    // versions at the top of u32 (Version + Version is a plain u32 `+`)
    for top in [u32::MAX, u32::MAX - 1, u32::MAX - 2, u32::MAX - 5, u32::MAX - 6, u32::MAX - 7] {
        for &f in &FORMATS {
            for &e1 in &ENTRIES {
                for &e2 in &ENTRIES {
                    out.push(Case { f1: f, e1, v1: top, f2: f, e2, v2: top, ty: "u32", wrap: 'p', ndata: 5,
                                    holes: false, tamper: "n" });
                }
            }
        }
    }
    out
}

// ---------------------------------------------------------------- element types
trait Elem: Copy + Debug + PartialEq + 'static {
    fn of(x: u64) -> Self;
    fn show(self) -> String;
}
macro_rules! elem {
    ($($t:ty),*) => {$(
        impl Elem for $t {
            fn of(x: u64) -> Self { x as $t }
            fn show(self) -> String { format!("{}", self) }
        }
    )*};
}
elem!(u16, u32, u64, i64);

fn data_val(i: usize) -> u64 {
    ((i as u64) * 37 + 11) % 251 + 1
}
fn probe_val(i: usize) -> u64 {
    60000 + i as u64
}
const HOLES: [usize; 2] = [1, 3];
const NPROBE: usize = 4;

// ---------------------------------------------------------------- one interface over all wrappers
trait VecOps<T>: Sized {
    fn open(db: &Database, v: u32, forced: bool) -> vecdb::Result<Self>;
    fn push_(&mut self, t: T);
    fn write_(&mut self) -> vecdb::Result<bool>;
    fn delete_(&mut self, i: usize);
    fn holes_(&self) -> Vec<usize>;
    fn slots_(&self) -> Vec<Option<T>>;
    fn len_(&self) -> usize;
}

macro_rules! ops_common {
    ($t:ty) => {
        fn open(db: &Database, v: u32, forced: bool) -> vecdb::Result<Self> {
            if forced {
                <Self as ImportableVec>::forced_import(db, NAME, Version::new(v))
            } else {
                <Self as ImportableVec>::import(db, NAME, Version::new(v))
            }
        }
        fn push_(&mut self, t: $t) {
            WritableVec::push(self, t)
        }
        fn write_(&mut self) -> vecdb::Result<bool> {
            AnyStoredVec::write(self)
        }
        fn len_(&self) -> usize {
            AnyVec::len(self)
        }
    };
}
macro_rules! raw_ops {
    ($w:ident, $($t:ty),*) => {$(
        impl VecOps<$t> for $w<usize, $t> {
            ops_common!($t);
            fn delete_(&mut self, i: usize) { self.delete_at(i) }
            fn holes_(&self) -> Vec<usize> { self.holes().iter().copied().collect() }
            fn slots_(&self) -> Vec<Option<$t>> { self.collect_holed().expect("collect_holed") }
        }
        impl VecOps<$t> for EagerVec<$w<usize, $t>> {
            ops_common!($t);
            fn delete_(&mut self, _i: usize) {}
            fn holes_(&self) -> Vec<usize> { vec![] }
            fn slots_(&self) -> Vec<Option<$t>> { ReadableVec::collect(self).into_iter().map(Some).collect() }
        }
    )*};
}
macro_rules! comp_ops {
    ($w:ident, $($t:ty),*) => {$(
        impl VecOps<$t> for $w<usize, $t> {
            ops_common!($t);
            fn delete_(&mut self, _i: usize) {}
            fn holes_(&self) -> Vec<usize> { vec![] }
            fn slots_(&self) -> Vec<Option<$t>> { ReadableVec::collect(self).into_iter().map(Some).collect() }
        }
        impl VecOps<$t> for EagerVec<$w<usize, $t>> {
            ops_common!($t);
            fn delete_(&mut self, _i: usize) {}
            fn holes_(&self) -> Vec<usize> { vec![] }
            fn slots_(&self) -> Vec<Option<$t>> { ReadableVec::collect(self).into_iter().map(Some).collect() }
        }
    )*};
}
raw_ops!(BytesVec, u16, u32, u64, i64);
raw_ops!(ZeroCopyVec, u16, u32, u64, i64);
comp_ops!(PcoVec, u16, u32, u64, i64);
comp_ops!(LZ4Vec, u16, u32, u64, i64);
comp_ops!(ZstdVec, u16, u32, u64, i64);

pub fn err_name(e: &vecdb::Error) -> &'static str {
    use vecdb::Error::*;
    match e {
        WrongEndian => "WrongEndian",
        WrongLength { .. } => "WrongLength",
        DifferentFormat { .. } => "DifferentFormat",
        DifferentVersion { .. } => "DifferentVersion",
        InvalidFormat(_) => "InvalidFormat",
        TryLockError(_) => "TryLock",
        IO(_) => "IO",
        RawDB(_) => "RawDB",
        CorruptedRegion { .. } => "CorruptedRegion",
        _ => "Other",
    }
}

// ---------------------------------------------------------------- regions
fn region_ids() -> [String; 3] {
    let main = vecdb::vec_region_name_with::<usize>(NAME);
    [main.clone(), format!("{main}_pages"), format!("{main}_holes")]
}
fn snapshot(db: &Database) -> Vec<Option<Vec<u8>>> {
    region_ids()
        .iter()
        .map(|id| db.get_region(id).map(|r| r.create_reader().read_all().to_vec()))
        .collect()
}
fn regs(before: &[Option<Vec<u8>>], after: &[Option<Vec<u8>>]) -> String {
    before
        .iter()
        .zip(after)
        .map(|(b, a)| match (b, a) {
            (None, None) => 'a',
            (Some(x), Some(y)) => if x == y { 's' } else { 'c' },
            (None, Some(_)) => 'n',
            (Some(_), None) => 'r',
        })
        .collect()
}

fn show_slots<T: Elem>(s: &[Option<T>]) -> String {
    if s.is_empty() {
        return "-".into();
    }
    s.iter().map(|o| o.map_or("_".to_string(), |v| v.show())).collect::<Vec<_>>().join(",")
}
fn show_idx(s: &[usize]) -> String {
    if s.is_empty() {
        return "-".into();
    }
    s.iter().map(|i| i.to_string()).collect::<Vec<_>>().join(",")
}

fn tamper(db: &Database, c: &Case) {
    let ids = region_ids();
    match c.tamper {
        "hv" => {
            // header_version := HEADER_VERSION + 7 (first 4 bytes, LE); the stored value is read back first
            if let Some(r) = db.get_region(&ids[0]) {
                let cur = { let rd = r.create_reader(); let b = rd.read_all(); u32::from_le_bytes([b[0], b[1], b[2], b[3]]) };
                r.write_at(&(cur + 7).to_le_bytes(), 0).expect("tamper hv");
            }
        }
        "fb" => {
            if let Some(r) = db.get_region(&ids[0]) {
                r.write_at(&[7u8], 20).expect("tamper fb");
            }
        }
        "sh" => {
            if let Some(r) = db.get_region(&ids[0]) {
                r.truncate(10).expect("tamper sh");
            }
        }
        "ml" => {
            // three stray bytes behind the data: header, version and format stay intact
            if let Some(r) = db.get_region(&ids[0]) {
                r.write(&[9u8, 9, 9]).expect("tamper ml");
            }
        }
        "ax" => {
            let id = if is_raw(c.f1) { &ids[2] } else { &ids[1] };
            if let Some(r) = db.get_region(id) {
                r.truncate(7).expect("tamper ax");
            }
        }
        _ => {}
    }
}

/// what the vector was filled with, as slots
fn expected_slots<T: Elem>(c: &Case) -> Vec<Option<T>> {
    (0..c.ndata)
        .map(|i| if c.holes && is_raw(c.f1) && c.wrap == 'p' && HOLES.contains(&i) { None } else { Some(T::of(data_val(i))) })
        .collect()
}

fn create<V: VecOps<T>, T: Elem>(db: &Database, c: &Case) -> String {
    let r = catch_unwind(AssertUnwindSafe(|| -> Result<(), String> {
        let mut v = V::open(db, c.v1, c.e1 == 'f').map_err(|e| err_name(&e).to_string())?;
        for i in 0..c.ndata {
            v.push_(T::of(data_val(i)));
        }
        v.write_().map_err(|e| format!("write:{}", err_name(&e)))?;
        if c.holes {
            for &h in &HOLES {
                v.delete_(h);
            }
            v.write_().map_err(|e| format!("write:{}", err_name(&e)))?;
        }
        drop(v);
        Ok(())
    }));
    match r {
        Ok(Ok(())) => "create ok".into(),
        Ok(Err(k)) => format!("create err {k}"),
        Err(_) => "create panic".into(),
    }
}

struct Reopened<T> {
    kind: String, // ok | err <Kind> | panic
    len: usize,
    slots: Vec<Option<T>>,
    holes: Vec<usize>,
    probe: Vec<Option<T>>,
    wrote: String, // ok | err <Kind> | - (nothing pushed)
    snap: Option<Vec<Option<Vec<u8>>>>, // the regions right after the import call returned Ok
}

/// Opens the vector through (e2, v2, f2).  `extend`: push the probe values, observe, write them and
/// flush the database (step 2); otherwise only observe (step 3).
fn reopen<W: VecOps<T>, T: Elem>(db: &Database, c: &Case, extend: bool) -> Reopened<T> {
    let none = |kind: String| Reopened { kind, len: 0, slots: vec![], holes: vec![], probe: vec![], wrote: "-".into(), snap: None };
    let r = catch_unwind(AssertUnwindSafe(|| match W::open(db, c.v2, c.e2 == 'f') {
        Ok(mut w) => {
            let len = w.len_();
            let slots = w.slots_();
            let holes = w.holes_();
            let snap = Some(snapshot(db));
            let mut probe = vec![];
            let mut wrote = "-".to_string();
            if extend {
                for i in 0..NPROBE {
                    w.push_(T::of(probe_val(i)));
                }
                probe = w.slots_();
                wrote = match w.write_() {
                    Ok(_) => "ok".into(),
                    Err(e) => format!("err {}", err_name(&e)),
                };
            }
            drop(w);
            // Database::flush is an fdatasync: done for the u64 slice only (all formats x entry points x
            // {same version, next version}, i.e. every kept and every reset path), to keep the run short;
            // in-process visibility does not depend on it.
            if extend && c.ty == "u64" {
                if let Err(e) = db.flush() {
                    wrote = format!("flush-err {e:?}").split_whitespace().take(2).collect::<Vec<_>>().join(" ");
                }
            }
            Reopened { kind: "ok".into(), len, slots, holes, probe, wrote, snap }
        }
        Err(e) => none(format!("err {}", err_name(&e))),
    }));
    r.unwrap_or_else(|_| none("panic".into()))
}

fn ename(e: char) -> &'static str {
    if e == 'f' { "forced-import" } else { "import" }
}

/// The property text, checked on the implementation alone (no model involved).
fn oracle<T: Elem>(c: &Case, ro: &Reopened<T>, regs: &str) -> Vec<String> {
    let mut v = vec![];
    let (e1, e2) = (ename(c.e1), ename(c.e2));
    let same_req = c.v1 == c.v2 && c.f1 == c.f2;
    let want = expected_slots::<T>(c);
    let main_gone = matches!(regs.as_bytes()[0], b'c' | b'r');
    let ctx = format!("created={}({},{}) reopened={}({},{}) ty={} wrap={} got={} len={} regs={}",
                      e1, c.v1, c.f1, e2, c.v2, c.f2, c.ty, c.wrap, ro.kind, ro.len, regs);
    if c.tamper == "n" {
        if same_req {
            // "Importing a vector whose stored version and format match the request returns its stored contents"
            if ro.kind == "panic" {
                v.push(format!("{e2}-after-{e1}-panics-on-version-overflow {ctx}"));
            } else if ro.kind != "ok" {
                v.push(format!("{e2}-after-{e1}-rejects-matching-data {ctx}"));
            } else if ro.slots != want {
                v.push(format!("{e2}-after-{e1}-discards-matching-data {ctx}"));
            }
        } else if c.e2 == 'i' {
            // "the plain import fails with a version or format error and leaves the data untouched"
            if ro.kind == "ok" {
                let what = if c.v1 != c.v2 { "version" } else { "format" };
                v.push(format!("{e2}-after-{e1}-accepts-different-{what} {ctx}"));
            } else if ro.kind != "err DifferentVersion" && ro.kind != "err DifferentFormat" {
                v.push(format!("{e2}-after-{e1}-mismatch-wrong-error {ctx}"));
            }
            if regs.chars().any(|x| x != 's' && x != 'a') {
                v.push(format!("{e2}-after-{e1}-mismatch-touches-regions {ctx}"));
            }
        } else {
            // "the forced import discards the old data and returns an empty vector"
            if ro.kind != "ok" {
                v.push(format!("{e2}-after-{e1}-mismatch-fails {ctx}"));
            } else if ro.len != 0 {
                v.push(format!("{e2}-after-{e1}-keeps-data-of-different-request {ctx}"));
            } else if !ro.holes.is_empty() || ro.probe.iter().any(|o| o.is_none()) {
                v.push(format!("forced-import-reset-keeps-stale-holes {ctx} holes={} probe={}", show_idx(&ro.holes), show_slots(&ro.probe)));
            }
        }
    } else if c.tamper == "ml" && same_req && c.e2 == 'f' && c.e1 == 'f' {
        // (created and reopened through the SAME entry point: across entry points the effective versions differ,
        // known finding "double VERSION")
        // "the forced import discards data only for such a mismatch or an unreadable stored header … never when
        // version and format match": here both match and the header is readable; whatever the call returns, the
        // stored data must still be there
        if main_gone || (ro.kind == "ok" && ro.len == 0 && c.ndata > 0) {
            v.push(format!("forced-import-discards-data-although-version-and-format-match {ctx}"));
        }
    } else if c.tamper == "hv" && c.e2 == 'f' && main_gone {
        // Damaged files are outside the property's quantifier (their cases are compared with the model
        // only), except the one the text names: "an unreadable stored header" may be discarded by the
        // forced import — and then what comes back has to be an empty vector.
        if ro.kind != "ok" || ro.len != 0 || !ro.holes.is_empty() || ro.probe.iter().any(|o| o.is_none()) {
            v.push(format!("forced-import-unreadable-header-reset-not-empty {ctx} holes={} probe={}", show_idx(&ro.holes), show_slots(&ro.probe)));
        }
    }
    v
}

fn run2<V: VecOps<T>, W: VecOps<T>, T: Elem>(id: &str, c: &Case) {
    let dir = tempfile::tempdir().expect("tempdir");
    let db = Database::open(dir.path()).expect("open db");
    let cr = create::<V, T>(&db, c);
    println!("O {id} {cr}");
    if cr != "create ok" {
        println!("M {id} create:{}", cr.replace(' ', "-"));
        return;
    }
    tamper(&db, c);
    let before = snapshot(&db);
    let ro = reopen::<W, T>(&db, c, true);
    // regions: before the call vs right after it returned (before anything is pushed or written)
    let after = ro.snap.clone().unwrap_or_else(|| snapshot(&db));
    let rg = regs(&before, &after);
    if ro.kind == "ok" {
        println!("O {id} reopen ok len={} slots={} holes={} regs={}", ro.len, show_slots(&ro.slots), show_idx(&ro.holes), rg);
        println!("O {id} probe {} write={}", show_slots(&ro.probe), ro.wrote);
    } else {
        println!("O {id} reopen {} regs={}", ro.kind, rg);
    }
    for w in oracle(c, &ro, &rg) {
        println!("V {id} {w}");
    }
    // step 3: the same request again, after the pushed values were written and flushed
    if ro.kind == "ok" && ro.wrote == "ok" {
        let before3 = snapshot(&db);
        let again = reopen::<W, T>(&db, c, false);
        let after3 = again.snap.clone().unwrap_or_else(|| snapshot(&db));
        let rg3 = regs(&before3, &after3);
        if again.kind == "ok" {
            println!("O {id} again ok len={} slots={} holes={} regs={}", again.len, show_slots(&again.slots), show_idx(&again.holes), rg3);
        } else {
            println!("O {id} again {} regs={}", again.kind, rg3);
        }
        // "Importing a vector whose stored version and format match the request returns its stored
        // contents": the request is literally the one that opened (or re-created) the vector.
        let ctx = format!("created={}({},{}) then twice {}({},{}) ty={} wrap={} tamper={} first={} len={} second={} len={} regs={}",
                          ename(c.e1), c.v1, c.f1, ename(c.e2), c.v2, c.f2, c.ty, c.wrap, c.tamper,
                          ro.kind, ro.len, again.kind, again.len, rg3);
        if again.kind != "ok" {
            println!("V {id} second-reopen-with-same-request-rejected {ctx}");
        } else if again.slots != ro.probe {
            println!("V {id} data-discarded-on-second-reopen-with-same-request {ctx}");
        } else if rg3.chars().any(|x| x != 's' && x != 'a') {
            println!("V {id} second-reopen-with-same-request-touches-regions {ctx}");
        }
    }
    let fam = |f| if is_raw(f) { "raw" } else { "comp" };
    println!("M {id} {}:{}->{}:{}:{}", fam(c.f1), ename(c.e1), fam(c.f2), ename(c.e2),
             if ro.kind == "ok" { if ro.len > 0 { "kept" } else { "empty" } } else { ro.kind.as_str() }.replace(' ', "-"));
}

fn run_w<V: VecOps<T>, T: Elem>(id: &str, c: &Case)
where
    BytesVec<usize, T>: VecOps<T>, ZeroCopyVec<usize, T>: VecOps<T>, PcoVec<usize, T>: VecOps<T>,
    LZ4Vec<usize, T>: VecOps<T>, ZstdVec<usize, T>: VecOps<T>,
    EagerVec<BytesVec<usize, T>>: VecOps<T>, EagerVec<ZeroCopyVec<usize, T>>: VecOps<T>, EagerVec<PcoVec<usize, T>>: VecOps<T>,
    EagerVec<LZ4Vec<usize, T>>: VecOps<T>, EagerVec<ZstdVec<usize, T>>: VecOps<T>,
{
    match (c.f2, c.wrap) {
        ('b', 'p') => run2::<V, BytesVec<usize, T>, T>(id, c),
        ('z', 'p') => run2::<V, ZeroCopyVec<usize, T>, T>(id, c),
        ('p', 'p') => run2::<V, PcoVec<usize, T>, T>(id, c),
        ('l', 'p') => run2::<V, LZ4Vec<usize, T>, T>(id, c),
        ('s', 'p') => run2::<V, ZstdVec<usize, T>, T>(id, c),
        ('b', _) => run2::<V, EagerVec<BytesVec<usize, T>>, T>(id, c),
        ('z', _) => run2::<V, EagerVec<ZeroCopyVec<usize, T>>, T>(id, c),
        ('p', _) => run2::<V, EagerVec<PcoVec<usize, T>>, T>(id, c),
        ('l', _) => run2::<V, EagerVec<LZ4Vec<usize, T>>, T>(id, c),
        _ => run2::<V, EagerVec<ZstdVec<usize, T>>, T>(id, c),
    }
}

fn run_t<T: Elem>(id: &str, c: &Case)
where
    BytesVec<usize, T>: VecOps<T>, ZeroCopyVec<usize, T>: VecOps<T>, PcoVec<usize, T>: VecOps<T>,
    LZ4Vec<usize, T>: VecOps<T>, ZstdVec<usize, T>: VecOps<T>,
    EagerVec<BytesVec<usize, T>>: VecOps<T>, EagerVec<ZeroCopyVec<usize, T>>: VecOps<T>, EagerVec<PcoVec<usize, T>>: VecOps<T>,
    EagerVec<LZ4Vec<usize, T>>: VecOps<T>, EagerVec<ZstdVec<usize, T>>: VecOps<T>,
{
    match (c.f1, c.wrap) {
        ('b', 'p') => run_w::<BytesVec<usize, T>, T>(id, c),
        ('z', 'p') => run_w::<ZeroCopyVec<usize, T>, T>(id, c),
        ('p', 'p') => run_w::<PcoVec<usize, T>, T>(id, c),
        ('l', 'p') => run_w::<LZ4Vec<usize, T>, T>(id, c),
        ('s', 'p') => run_w::<ZstdVec<usize, T>, T>(id, c),
        ('b', _) => run_w::<EagerVec<BytesVec<usize, T>>, T>(id, c),
        ('z', _) => run_w::<EagerVec<ZeroCopyVec<usize, T>>, T>(id, c),
        ('p', _) => run_w::<EagerVec<PcoVec<usize, T>>, T>(id, c),
        ('l', _) => run_w::<EagerVec<LZ4Vec<usize, T>>, T>(id, c),
        _ => run_w::<EagerVec<ZstdVec<usize, T>>, T>(id, c),
    }
}

fn run_case(id: &str, c: &Case, oc: bool) {
    println!("I {id} {}", c.line(oc));
    match c.ty {
        "u16" => run_t::<u16>(id, c),
        "u32" => run_t::<u32>(id, c),
        "u64" => run_t::<u64>(id, c),
        _ => run_t::<i64>(id, c),
    }
}

/// does `Version + Version` of this build check for overflow?  (asked of the library itself)
fn overflow_checks() -> bool {
    catch_unwind(|| std::hint::black_box(Version::new(std::hint::black_box(u32::MAX))) + Version::ONE).is_err()
}

pub fn run(args: &[String]) -> i32 {
    let a = util::parse_args(args);
    util::quiet_panics();
    let oc = overflow_checks();
    if let Some(path) = &a.replay {
        for (id, body) in util::replay_inputs(path) {
            match Case::parse(&body) {
                Some(c) => run_case(&id, &c, oc),
                None => eprintln!("bad case line: {body}"),
            }
        }
        return 0;
    }
    let mut shards = 1u64;
    let mut i = 0;
    while i < a.rest.len() {
        if a.rest[i] == "--shards" {
            shards = a.rest[i + 1].parse().unwrap();
            i += 1;
        }
        i += 1;
    }
    let shard = a.seed % 1000 % shards;
    for (n, c) in all_cases().iter().enumerate() {
        if n as u64 % shards == shard {
            run_case(&format!("c{n}"), c, oc);
        }
    }
    0
}
