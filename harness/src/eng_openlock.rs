//! Engine `openlock` (C18 — rawdb: at most one open Database per directory).
//!
//! Executes generated histories of open / clone / region.db() / drop / reader / background-task /
//! flush operations on the real `rawdb::Database`, the instances living in WORKERS that are either
//! threads of this process or child processes (this binary re-executed through
//! `std::env::current_exe()` with `openlock --child <dir>`; the child runs the same worker loop
//! over stdin/stdout).  `open_with_min_len` is called with lengths below and above the current
//! size of the data file.
//!
//! Input line:  `x=<fresh|dlen:rlen> w=<t|p>… <ops…>` with ops
//!   o:<w>:<min_len>  open attempt by worker w (attempt ids k = 0,1,2… in order of appearance)
//!   c:<k> clone   g:<k> region.db() kept as a handle   d:<k> drop one handle
//!   r:<k> create_reader   R:<k> drop a reader   b:<k> run_bg   B:<k> the oldest running background closure returns
//!   E:<k> the most recently started background closure returns (tasks are joined in start order)
//!   f:<k>:<c> write content token c into region "r" and flush
//!   L / U   an open file description outside the library locks / unlocks `regions`
//! One `O` line per op.  Spec-level oracle (no model involved), `V` keys:
//!   open-succeeded-while-holder-alive, open-refused-with-no-holder,
//!   refused-open-changed-data-file, refused-open-changed-regions-file,
//!   reopen-lost-flushed-content, open-failed-with-other-error, kernel-flock-rule-violated,
//!   worker-panicked, racing-drops-release-lock-while-bg-task-alive (the `race <n>` probe).
//!
//! DETERMINISM.  No O line depends on time.  Every step of a history is a synchronous hand-shake:
//! the coordinator sends one command and blocks for the worker's one reply (channel / pipe); a
//! Reader lives in a thread that acknowledges its creation; a background closure blocks on a channel
//! until it is told to return; "the drop is blocked in sync_bg_tasks" is established by the
//! library's own verification tap (`Lock{class:"join"}` emitted inside sync_bg_tasks), matched to
//! the dropping thread by a ticket — not by sleeping or by looking at thread states.  The timeouts
//! that remain (HANDSHAKE_TIMEOUT, REPLY_TIMEOUT, a worker that cannot be spawned) only ever abort
//! the CASE: it is printed as `M <id> inconclusive` with neither I nor O line, so neither the
//! oracle nor the model comparison sees it.  The race probe is probabilistic by nature; its O line is
//! the constant `race done` and it speaks only through its V line.
use crate::rng::Rng;
use rawdb::{Database, Region};
use std::collections::BTreeMap;
use std::fs::{self, File, OpenOptions};
use std::io::{BufRead, BufReader, Read, Write};
use std::panic::{AssertUnwindSafe, catch_unwind};
use std::path::{Path, PathBuf};
use std::process::{Child, ChildStdin, ChildStdout, Command, Stdio};
use std::sync::atomic::{AtomicBool, Ordering};
use std::sync::{Arc, mpsc};
use std::thread::{self, JoinHandle};
use std::time::Duration;

const REGION: &str = "r";

fn errname(e: &rawdb::Error) -> String {
    use rawdb::Error::*;
    match e {
        TryLock(_) => "TryLock".into(),
        IO(_) => "IO".into(),
        CorruptedMetadata(_) => "CorruptedMetadata".into(),
        _ => "Other".into(),
    }
}

fn token_bytes(c: u64) -> [u8; 16] {
    let mut b = [0u8; 16];
    b[..8].copy_from_slice(&c.to_le_bytes());
    b[8..].copy_from_slice(&(!c).to_le_bytes());
    b
}

fn read_token(region: &Region) -> String {
    let rd = region.create_reader();
    let b = rd.read_all();
    if b.len() != 16 {
        return format!("badlen{}", b.len());
    }
    let c = u64::from_le_bytes(b[..8].try_into().unwrap());
    let n = u64::from_le_bytes(b[8..].try_into().unwrap());
    if n != !c { "garbled".into() } else { c.to_string() }
}

// ------------------------------------------------------------------------------------------
// worker: owns the instances it opened; the same code serves thread workers and child processes
// ------------------------------------------------------------------------------------------
struct ReaderSlot {
    drop_tx: mpsc::Sender<()>,
    dropping_rx: mpsc::Receiver<u64>,
    th: JoinHandle<()>,
}

/// Deterministic hand-shake for "this drop is now blocked in sync_bg_tasks": rawdb's verification
/// tap reports `Lock { class: "join" }` from inside Database::sync_bg_tasks right before each
/// `handle.join()` (lib.rs, cfg(anydb_verif)).  A thread that is about to drop what the worker
/// believes is the last strong reference takes a unique ticket; the sink publishes the ticket of the
/// thread that reaches the join; the worker waits for that ticket.  Seeing it proves the dropper has
/// passed `strong_count == 1` and sits in the join — no sleeping, no /proc polling, no guess.
/// The only timeout left (HANDSHAKE_TIMEOUT) aborts the CASE as inconclusive.
static JOIN_TICKETS: std::sync::Mutex<Vec<u64>> = std::sync::Mutex::new(Vec::new());
static JOIN_CV: std::sync::Condvar = std::sync::Condvar::new();
static NEXT_TICKET: std::sync::atomic::AtomicU64 = std::sync::atomic::AtomicU64::new(1);
thread_local! { static MY_TICKET: std::cell::Cell<u64> = const { std::cell::Cell::new(0) }; }
const HANDSHAKE_TIMEOUT: Duration = Duration::from_secs(120);
const REPLY_TIMEOUT: Duration = Duration::from_secs(300);

fn install_tap() {
    rawdb::verif_tap::set_sink(Some(Box::new(|e| {
        if let rawdb::verif_tap::Event::Lock { class, .. } = e
            && *class == "join"
        {
            let t = MY_TICKET.with(|c| c.get());
            if t != 0 {
                JOIN_TICKETS.lock().unwrap().push(t);
                JOIN_CV.notify_all();
            }
        }
    })));
}

fn take_ticket() -> u64 {
    let t = NEXT_TICKET.fetch_add(1, Ordering::Relaxed);
    MY_TICKET.with(|c| c.set(t));
    t
}

/// true = the thread holding `ticket` has entered the join of sync_bg_tasks
fn wait_join_entered(ticket: u64) -> bool {
    let g = JOIN_TICKETS.lock().unwrap();
    let (mut g, res) = JOIN_CV.wait_timeout_while(g, HANDSHAKE_TIMEOUT, |v| !v.contains(&ticket)).unwrap();
    g.retain(|x| *x != ticket);
    !res.timed_out()
}

impl ReaderSlot {
    /// the Reader lives in a thread of its own (its lock guard is not Send, and dropping the last
    /// strong reference may block in sync_bg_tasks)
    fn new(region: &Region) -> Self {
        let (drop_tx, drop_rx) = mpsc::channel::<()>();
        let (made_tx, made_rx) = mpsc::channel::<()>();
        let (dropping_tx, dropping_rx) = mpsc::channel::<u64>();
        let region = region.clone();
        let th = thread::spawn(move || {
            let rd = region.create_reader();
            drop(region);
            let _ = made_tx.send(());
            let _ = drop_rx.recv();
            let _ = dropping_tx.send(take_ticket());
            drop(rd);
        });
        let _ = made_rx.recv();
        ReaderSlot { drop_tx, dropping_rx, th }
    }
    /// the drop is expected to block in sync_bg_tasks: start it and wait (hand-shake) until it does
    fn start_drop(&self) -> bool {
        let _ = self.drop_tx.send(());
        match self.dropping_rx.recv() {
            Ok(ticket) => wait_join_entered(ticket),
            Err(_) => false,
        }
    }
    fn finish(self) {
        let _ = self.drop_tx.send(());
        let _ = self.th.join();
    }
}

enum Joiner {
    Handle(JoinHandle<()>),
    Reader(ReaderSlot),
}

#[derive(Default)]
struct InstW {
    handles: Vec<Database>,
    readers: Vec<ReaderSlot>,
    region: Option<Region>,
    bg: Vec<mpsc::Sender<()>>, // background closures that have not been told to return yet
    joiner: Option<Joiner>,   // a dropper blocked in Drop → sync_bg_tasks (still a strong reference)
}

impl InstW {
    fn strong(&self) -> usize {
        self.handles.len() + self.readers.len() + self.joiner.is_some() as usize
    }
}

struct Worker {
    dir: PathBuf,
    insts: BTreeMap<u64, InstW>,
}

impl Worker {
    fn new(dir: &Path) -> Self {
        Worker { dir: dir.to_path_buf(), insts: BTreeMap::new() }
    }

    /// after a strong reference went away synchronously
    fn settle(&mut self, k: u64) -> String {
        if self.insts.get(&k).map(|i| i.strong() == 0).unwrap_or(false) {
            // region handles only hold a Weak; forget the bookkeeping
            self.insts.remove(&k);
            "released".into()
        } else {
            "ok".into()
        }
    }

    fn handle(&mut self, cmd: &str) -> String {
        let t: Vec<&str> = cmd.split_whitespace().collect();
        let k: u64 = t.get(1).and_then(|s| s.parse().ok()).unwrap_or(0);
        match t[0] {
            "open" => {
                let min_len: usize = t[2].parse().unwrap();
                match Database::open_with_min_len(&self.dir, min_len) {
                    Ok(db) => {
                        let region = db.get_region(REGION);
                        let c = region.as_ref().map(read_token).unwrap_or_else(|| "none".into());
                        self.insts.insert(k, InstW { handles: vec![db], region, ..Default::default() });
                        format!("ok {c}")
                    }
                    Err(e) => format!("err {}", errname(&e)),
                }
            }
            "clone" => match self.insts.get_mut(&k) {
                Some(i) if !i.handles.is_empty() => {
                    let h = i.handles[0].clone();
                    i.handles.push(h);
                    "ok".into()
                }
                _ => "skip".into(),
            },
            "regiondb" => match self.insts.get_mut(&k) {
                Some(i) if i.strong() > 0 && i.region.is_some() => {
                    let h = i.region.as_ref().unwrap().db();
                    i.handles.push(h);
                    "ok".into()
                }
                _ => "skip".into(),
            },
            "drop" => {
                let Some(i) = self.insts.get_mut(&k) else { return "skip".into() };
                if i.handles.is_empty() {
                    return "skip".into();
                }
                let last = i.strong() == 1;
                let h = i.handles.pop().unwrap();
                if last && !i.bg.is_empty() {
                    // Drop will block in sync_bg_tasks until the background closures return
                    let (tk_tx, tk_rx) = mpsc::channel::<u64>();
                    i.joiner = Some(Joiner::Handle(thread::spawn(move || {
                        let _ = tk_tx.send(take_ticket());
                        drop(h)
                    })));
                    match tk_rx.recv() {
                        Ok(ticket) if wait_join_entered(ticket) => "joining".into(),
                        _ => "inconclusive".into(),
                    }
                } else {
                    drop(h);
                    self.settle(k)
                }
            }
            "reader" => match self.insts.get_mut(&k) {
                Some(i) if i.strong() > 0 && i.region.is_some() => {
                    let slot = ReaderSlot::new(i.region.as_ref().unwrap());
                    i.readers.push(slot);
                    "ok".into()
                }
                _ => "skip".into(),
            },
            "dropreader" => {
                let Some(i) = self.insts.get_mut(&k) else { return "skip".into() };
                if i.readers.is_empty() {
                    return "skip".into();
                }
                let last = i.strong() == 1;
                let slot = i.readers.pop().unwrap();
                if last && !i.bg.is_empty() {
                    let entered = slot.start_drop();
                    i.joiner = Some(Joiner::Reader(slot));
                    if entered { "joining".into() } else { "inconclusive".into() }
                } else {
                    slot.finish();
                    self.settle(k)
                }
            }
            "bg" => match self.insts.get_mut(&k) {
                Some(i) if !i.handles.is_empty() && i.joiner.is_none() => {
                    let (tx, rx) = mpsc::channel::<()>();
                    // the closure never touches the uncounted handle it is given; it blocks
                    // until it is told to return (or the sender goes away)
                    i.handles[0].run_bg(move |_db| {
                        let _ = rx.recv();
                        Ok(())
                    });
                    i.bg.push(tx);
                    "ok".into()
                }
                _ => "skip".into(),
            },
            "finbg" | "finbglast" => {
                let Some(i) = self.insts.get_mut(&k) else { return "skip".into() };
                if i.bg.is_empty() {
                    return "skip".into();
                }
                let tx = if t[0] == "finbglast" { i.bg.pop().unwrap() } else { i.bg.remove(0) };
                let _ = tx.send(());
                if i.bg.is_empty() && i.joiner.is_some() {
                    match i.joiner.take().unwrap() {
                        Joiner::Handle(th) => {
                            let _ = th.join();
                        }
                        Joiner::Reader(slot) => slot.finish(),
                    }
                    self.settle(k)
                } else {
                    "ok".into()
                }
            }
            "flush" => {
                let c: u64 = t[2].parse().unwrap();
                let Some(i) = self.insts.get_mut(&k) else { return "skip".into() };
                if i.handles.is_empty() {
                    return "skip".into();
                }
                let db = &i.handles[0];
                let r = (|| -> rawdb::Result<Region> {
                    let region = db.create_region_if_needed(REGION)?;
                    region.truncate_write(0, &token_bytes(c))?;
                    db.flush()?;
                    Ok(region)
                })();
                match r {
                    Ok(region) => {
                        i.region = Some(region);
                        "flushed".into()
                    }
                    Err(e) => format!("err {}", errname(&e)),
                }
            }
            "quit" => {
                let ks: Vec<u64> = self.insts.keys().copied().collect();
                for k in ks {
                    let mut i = self.insts.remove(&k).unwrap();
                    for tx in i.bg.drain(..) {
                        let _ = tx.send(());
                    }
                    match i.joiner.take() {
                        Some(Joiner::Handle(th)) => {
                            let _ = th.join();
                        }
                        Some(Joiner::Reader(s)) => s.finish(),
                        None => {}
                    }
                    for s in i.readers.drain(..) {
                        s.finish();
                    }
                    i.region = None;
                    i.handles.clear();
                }
                "bye".into()
            }
            _ => "badcmd".into(),
        }
    }

    fn handle_guarded(&mut self, cmd: &str) -> String {
        match catch_unwind(AssertUnwindSafe(|| self.handle(cmd))) {
            Ok(s) => s,
            Err(_) => "panic".into(),
        }
    }
}

/// Probe for the non-atomic `strong_count == 1` test in Drop for Database (lib.rs:636-642): two
/// threads drop the last two handles at the same instant while a run_bg closure is still running.
/// If both read strong_count == 2, neither joins the background task, the Arc goes to zero, the
/// Files are closed (locks released) and a new open succeeds although a background task of the
/// old instance is alive.  Runs in a child process; prints `hits <n> reopened <m> of <iters>`.
fn race_child(dir: &str, iters: u64) -> i32 {
    let dir = Path::new(dir);
    let (mut hits, mut reopened) = (0u64, 0u64);
    for _ in 0..iters {
        let Ok(db) = Database::open(dir) else { continue };
        let (fin_tx, fin_rx) = mpsc::channel::<()>();
        db.run_bg(move |_db| {
            let _ = fin_rx.recv();
            Ok(())
        });
        let a = db.clone();
        let b = db;
        let go = Arc::new(AtomicBool::new(false));
        let ready = Arc::new(std::sync::atomic::AtomicUsize::new(0));
        let mk = |h: Database| {
            let (go, ready) = (go.clone(), ready.clone());
            thread::spawn(move || {
                ready.fetch_add(1, Ordering::AcqRel);
                while !go.load(Ordering::Acquire) {
                    std::hint::spin_loop();
                }
                drop(h);
            })
        };
        let (t1, t2) = (mk(a), mk(b));
        while ready.load(Ordering::Acquire) < 2 {
            std::hint::spin_loop();
        }
        go.store(true, Ordering::Release);
        let mut both = false;
        for _ in 0..60 {
            if t1.is_finished() && t2.is_finished() {
                both = true;
                break;
            }
            thread::sleep(Duration::from_micros(50));
        }
        if both {
            // both drops returned while the background closure has not been told to return
            hits += 1;
            if let Ok(db2) = Database::open(dir) {
                reopened += 1;
                drop(db2);
            }
        }
        let _ = fin_tx.send(());
        let _ = t1.join();
        let _ = t2.join();
        thread::sleep(Duration::from_micros(200));
    }
    println!("hits {hits} reopened {reopened} of {iters}");
    0
}

/// child process: the worker loop over stdin/stdout
fn child_main(dir: &str) -> i32 {
    let mut w = Worker::new(Path::new(dir));
    let stdin = std::io::stdin();
    let mut out = std::io::stdout();
    for line in stdin.lock().lines() {
        let Ok(line) = line else { break };
        let r = w.handle_guarded(&line);
        let _ = writeln!(out, "{r}");
        let _ = out.flush();
        if line == "quit" {
            break;
        }
    }
    // stdin closed (the parent is gone or done): leave at once. Dropping the worker could block for ever in
    // Drop for Database, which joins background closures that wait for a command that will never come.
    std::mem::forget(w);
    0
}

enum Link {
    Thread { tx: mpsc::Sender<String>, rx: mpsc::Receiver<String>, th: Option<JoinHandle<()>> },
    Proc { child: Child, stdin: ChildStdin, stdout: BufReader<ChildStdout> },
}

impl Link {
    fn thread(dir: &Path) -> Link {
        let (tx, crx) = mpsc::channel::<String>();
        let (ctx, rx) = mpsc::channel::<String>();
        let dir = dir.to_path_buf();
        let th = thread::spawn(move || {
            let mut w = Worker::new(&dir);
            while let Ok(cmd) = crx.recv() {
                let r = w.handle_guarded(&cmd);
                let quit = cmd == "quit";
                let _ = ctx.send(r);
                if quit {
                    break;
                }
            }
        });
        Link::Thread { tx, rx, th: Some(th) }
    }
    fn process(dir: &Path) -> Option<Link> {
        let exe = std::env::current_exe().ok()?;
        let mut child = Command::new(exe)
            .args(["openlock", "--child", dir.to_str().unwrap()])
            .stdin(Stdio::piped())
            .stdout(Stdio::piped())
            .stderr(Stdio::null())
            .spawn()
            .ok()?;
        let stdin = child.stdin.take()?;
        let stdout = BufReader::new(child.stdout.take()?);
        Some(Link::Proc { child, stdin, stdout })
    }
    fn call(&mut self, cmd: &str) -> String {
        match self {
            Link::Thread { tx, rx, .. } => {
                if tx.send(cmd.to_string()).is_err() {
                    return "dead".into();
                }
                rx.recv_timeout(REPLY_TIMEOUT).unwrap_or_else(|_| "dead".into())
            }
            Link::Proc { stdin, stdout, .. } => {
                if writeln!(stdin, "{cmd}").is_err() || stdin.flush().is_err() {
                    return "dead".into();
                }
                // the only wait on another process: bounded, and a timeout aborts the case
                if stdout.buffer().is_empty() {
                    use std::os::unix::io::AsRawFd;
                    let mut pfd = libc::pollfd { fd: stdout.get_ref().as_raw_fd(), events: libc::POLLIN, revents: 0 };
                    let rc = loop {
                        let rc = unsafe { libc::poll(&mut pfd, 1, REPLY_TIMEOUT.as_millis() as i32) };
                        if rc >= 0 || std::io::Error::last_os_error().kind() != std::io::ErrorKind::Interrupted {
                            break rc;
                        }
                    };
                    if rc <= 0 {
                        return "dead".into();
                    }
                }
                let mut s = String::new();
                match stdout.read_line(&mut s) {
                    Ok(n) if n > 0 => s.trim_end().to_string(),
                    _ => "dead".into(),
                }
            }
        }
    }
    /// after an aborted case: no further hand-shake with the worker
    fn abandon(self) {
        if let Link::Proc { mut child, .. } = self {
            let _ = child.kill();
            let _ = child.wait();
        }
    }
    fn shutdown(mut self) {
        let r = self.call("quit");
        match &mut self {
            Link::Thread { th, .. } => {
                // a worker thread that did not answer is abandoned, never waited for
                if let Some(t) = th.take()
                    && r == "bye"
                {
                    let _ = t.join();
                }
            }
            Link::Proc { child, .. } => {
                if r != "bye" {
                    let _ = child.kill();
                }
                let _ = child.wait();
            }
        }
    }
}

// ------------------------------------------------------------------------------------------
// the coordinator: runs one history, prints O / V / M
// ------------------------------------------------------------------------------------------
fn fast_hash(path: &Path) -> String {
    let mut f = match File::open(path) {
        Ok(f) => f,
        Err(_) => return "absent".into(),
    };
    let mut buf = Vec::new();
    if f.read_to_end(&mut buf).is_err() {
        return "unreadable".into();
    }
    let mut h: u64 = 0x9E37_79B9_7F4A_7C15 ^ buf.len() as u64;
    let mut chunks = buf.chunks_exact(8);
    for c in &mut chunks {
        let v = u64::from_le_bytes(c.try_into().unwrap());
        h = (h ^ v).wrapping_mul(0x100_0000_01b3).rotate_left(23);
    }
    for b in chunks.remainder() {
        h = (h ^ *b as u64).wrapping_mul(0x100_0000_01b3).rotate_left(23);
    }
    format!("{}:{:016x}", buf.len(), h)
}

fn flen(path: &Path) -> u64 {
    fs::metadata(path).map(|m| m.len()).unwrap_or(0)
}

struct Out {
    o: Vec<String>,
    v: Vec<String>,
    m: Vec<String>,
    /// Some(reason): a hand-shake or a worker reply timed out, or a worker could not be started.
    /// The case is then not reported at all (no I, no O): it proves nothing either way.
    inconclusive: Option<String>,
}

fn exec_case(input: &str) -> Out {
    let mut out = Out { o: vec![], v: vec![], m: vec![], inconclusive: None };
    let toks: Vec<&str> = input.split_whitespace().collect();
    let tmp = tempfile::Builder::new().prefix("c18-").tempdir().expect("tempdir");
    let dir = tmp.path().join("db");
    let (dpath, rpath) = (dir.join("data"), dir.join("regions"));
    let mut kinds: Vec<char> = vec![];
    let mut links: Vec<Option<Link>> = vec![];
    let mut attempt_worker: Vec<usize> = vec![]; // attempt id → worker
    let mut alive: BTreeMap<u64, usize> = BTreeMap::new(); // live instance → worker (holder bookkeeping from the replies)
    let mut foreign: Option<File> = None;
    let mut last_flushed: Option<u64> = None;

    for t in &toks {
        if let Some(x) = t.strip_prefix("x=") {
            if x != "fresh" {
                let (d, r) = x.split_once(':').unwrap();
                fs::create_dir_all(&dir).unwrap();
                File::create(&dpath).unwrap().set_len(d.parse().unwrap()).unwrap();
                File::create(&rpath).unwrap().set_len(r.parse().unwrap()).unwrap();
            }
            continue;
        }
        if let Some(w) = t.strip_prefix("w=") {
            kinds = w.chars().collect();
            links = kinds.iter().map(|_| None).collect();
            continue;
        }
        let p: Vec<&str> = t.split(':').collect();
        let call = |links: &mut Vec<Option<Link>>, w: usize, cmd: String| -> String {
            if links[w].is_none() {
                links[w] = if kinds[w] == 'p' { Link::process(&dir) } else { Some(Link::thread(&dir)) };
            }
            match links[w].as_mut() {
                Some(l) => l.call(&cmd),
                None => "dead".into(),
            }
        };
        let line = match p[0] {
            "o" => {
                let w: usize = p[1].parse().unwrap();
                let min_len: u64 = p[2].parse().unwrap();
                let k = attempt_worker.len() as u64;
                attempt_worker.push(w);
                let holder = !alive.is_empty();
                let dlen0 = flen(&dpath);
                let before = if holder || foreign.is_some() { Some((fast_hash(&dpath), fast_hash(&rpath))) } else { None };
                let r = call(&mut links, w, format!("open {k} {min_len}"));
                if r == "dead" || r == "inconclusive" {
                    out.inconclusive = Some(format!("{r} at {t}"));
                    break;
                }
                let (dl, rl) = (flen(&dpath), flen(&rpath));
                let rt: Vec<&str> = r.split_whitespace().collect();
                let size_class = if min_len > dlen0 { "above" } else { "below" };
                match rt[0] {
                    "ok" => {
                        if holder {
                            out.v.push(format!("open-succeeded-while-holder-alive attempt {k} by worker {w} ({}) while instance(s) {:?} alive", kinds[w], alive.keys().collect::<Vec<_>>()));
                        } else if foreign.is_some() {
                            out.v.push(format!("kernel-flock-rule-violated open {k} succeeded although a foreign open file description holds the regions lock"));
                        }
                        let seen = rt[1].parse::<u64>().ok();
                        if !holder && (rt[1] != "none" || last_flushed.is_some()) && seen != last_flushed {
                            out.v.push(format!("reopen-lost-flushed-content attempt {k} sees {} but last flushed was {:?}", rt[1], last_flushed));
                        }
                        if !holder && last_flushed.is_some() {
                            out.m.push("reopen-sees-flushed-content".into());
                        }
                        out.m.push(format!("open-ok-{size_class}-size"));
                        alive.insert(k, w);
                        format!("open {k} ok {dl} {rl} {}", rt[1])
                    }
                    "err" if rt[1] == "TryLock" => {
                        let after = (fast_hash(&dpath), fast_hash(&rpath));
                        if holder {
                            let b = before.as_ref().unwrap();
                            if b.0 != after.0 {
                                out.v.push(format!("refused-open-changed-data-file attempt {k} min_len {min_len}: {} -> {}", b.0, after.0));
                            }
                            if b.1 != after.1 {
                                out.v.push(format!("refused-open-changed-regions-file attempt {k} min_len {min_len}: {} -> {}", b.1, after.1));
                            }
                            let same_worker = alive.values().any(|&hw| hw == w);
                            let how = if same_worker { "same-worker" } else if kinds[w] == 'p' || alive.values().any(|&hw| kinds[hw] == 'p') { "cross-process" } else { "cross-thread" };
                            out.m.push(format!("refused-{size_class}-size-{how}"));
                        } else if foreign.is_some() {
                            let b = before.as_ref().unwrap();
                            out.m.push(if b.0 != after.0 { "foreign-regions-lock:refused-after-growing-data".into() } else { "foreign-regions-lock:refused".to_string() });
                        } else {
                            out.v.push(format!("open-refused-with-no-holder attempt {k} by worker {w}"));
                        }
                        format!("open {k} err TryLock {dl} {rl}")
                    }
                    "panic" => {
                        out.v.push(format!("worker-panicked in open attempt {k}"));
                        format!("open {k} panic")
                    }
                    _ => {
                        out.v.push(format!("open-failed-with-other-error attempt {k}: {r}"));
                        format!("open {k} {r} {dl} {rl}")
                    }
                }
            }
            "L" => {
                if foreign.is_some() {
                    "skip".into()
                } else {
                    fs::create_dir_all(&dir).unwrap();
                    let f = OpenOptions::new().read(true).write(true).create(true).truncate(false).open(&rpath).unwrap();
                    match f.try_lock() {
                        Ok(()) => {
                            if !alive.is_empty() {
                                out.v.push("kernel-flock-rule-violated a second open file description locked `regions` while a Database holds it".into());
                            }
                            foreign = Some(f);
                            "locked".into()
                        }
                        Err(_) => {
                            if alive.is_empty() {
                                out.v.push("kernel-flock-rule-violated foreign try_lock refused although nobody holds the regions lock".into());
                            }
                            "busy".into()
                        }
                    }
                }
            }
            "U" => {
                if foreign.take().is_some() { "ok".into() } else { "skip".into() }
            }
            op => {
                let k: u64 = p[1].parse().unwrap();
                let Some(&w) = attempt_worker.get(k as usize) else {
                    out.o.push("skip".into());
                    continue;
                };
                let cmd = match op {
                    "c" => format!("clone {k}"),
                    "g" => format!("regiondb {k}"),
                    "d" => format!("drop {k}"),
                    "r" => format!("reader {k}"),
                    "R" => format!("dropreader {k}"),
                    "b" => format!("bg {k}"),
                    "B" => format!("finbg {k}"),
                    "E" => format!("finbglast {k}"),
                    "f" => format!("flush {k} {}", p[2]),
                    _ => "bad".into(),
                };
                let r = call(&mut links, w, cmd);
                if r == "dead" || r == "inconclusive" {
                    out.inconclusive = Some(format!("{r} at {t}"));
                    break;
                }
                match r.as_str() {
                    "released" => {
                        alive.remove(&k);
                    }
                    "flushed" => last_flushed = Some(p[2].parse().unwrap()),
                    "joining" => out.m.push("drop-blocked-on-bg-tasks".into()),
                    "panic" => out.v.push(format!("worker-panicked in op {t}")),
                    _ => {}
                }
                if op == "g" && r == "ok" {
                    out.m.push("region-db-upgrade".into());
                }
                r
            }
        };
        out.o.push(line);
    }
    drop(foreign);
    for l in links.into_iter().flatten() {
        if out.inconclusive.is_some() { l.abandon() } else { l.shutdown() }
    }
    out
}

// ------------------------------------------------------------------------------------------
// generator: a spec-level bookkeeping of who is alive steers a mostly-valid stream
// ------------------------------------------------------------------------------------------
#[derive(Default, Clone)]
struct GI {
    handles: u32,
    readers: u32,
    bg: u32,
    joining: bool,
}
impl GI {
    fn strong(&self) -> u32 {
        self.handles + self.readers + self.joining as u32
    }
}

fn gen_case(rng: &mut Rng) -> String {
    let nw = rng.range(1, 4) as usize;
    let pshare = *rng.pick(&[0u64, 0, 30, 50, 100]);
    let kinds: String = (0..nw).map(|_| if rng.chance(pshare, 100) { 'p' } else { 't' }).collect();
    let x = if rng.chance(70, 100) {
        "fresh".to_string()
    } else {
        format!("{}:{}", rng.pick(&[0u64, 100, 4096, 5000, 1 << 20, (1 << 20) + 4096]), rng.pick(&[0u64, 4096, 8192]))
    };
    let mut toks = vec![format!("x={x}"), format!("w={kinds}")];
    let mut insts: Vec<Option<GI>> = vec![]; // by attempt id; None = refused or gone
    let mut region = false;
    let mut foreign = false;
    let min_lens = [0u64, 0, 1, 100, 4095, 4096, 4097, 65536, 1 << 20, (1 << 20) + 1, (1 << 20) + 4096, 1_200_000, 1_500_000, (1 << 20) + (1 << 19), (1 << 21) + 17];
    let n = rng.range(6, 40);
    let mut content = rng.below(1 << 40);
    let live = |insts: &Vec<Option<GI>>| insts.iter().position(|i| i.is_some());
    for step in 0..n {
        let cur = live(&insts);
        let wind_down = step * 4 > n * 3 && rng.chance(70, 100);
        let r = rng.below(100);
        let open_tok = |rng: &mut Rng, insts: &mut Vec<Option<GI>>, ok: bool| {
            let w = rng.below(nw as u64);
            let m = *rng.pick(&min_lens);
            insts.push(if ok { Some(GI { handles: 1, ..Default::default() }) } else { None });
            format!("o:{w}:{m}")
        };
        match cur {
            None => {
                if r < 8 {
                    toks.push(if foreign { "U".into() } else { "L".into() });
                    foreign = !foreign;
                } else if r < 12 && !insts.is_empty() {
                    // operations on a dead / refused attempt must be no-ops
                    let k = rng.below(insts.len() as u64);
                    toks.push(format!("{}:{k}", rng.pick(&["c", "d", "g", "r", "R", "b", "B"])));
                } else {
                    toks.push(open_tok(rng, &mut insts, !foreign));
                }
            }
            Some(k) => {
                let mut i = insts[k].clone().unwrap();
                let bg_before = i.bg;
                let t = if wind_down {
                    // release: finish tasks, drop readers and handles
                    if i.bg > 0 && (i.joining || rng.chance(50, 100)) {
                        "B"
                    } else if i.readers > 0 && rng.chance(60, 100) {
                        "R"
                    } else if i.handles > 0 {
                        "d"
                    } else if i.readers > 0 {
                        "R"
                    } else {
                        "B"
                    }
                } else if r < 30 {
                    "o"
                } else if r < 40 {
                    "c"
                } else if r < 52 {
                    "d"
                } else if r < 64 {
                    "f"
                } else if r < 72 {
                    "r"
                } else if r < 79 {
                    "R"
                } else if r < 86 {
                    "b"
                } else if r < 93 {
                    "B"
                } else if r < 97 {
                    "g"
                } else {
                    "L"
                };
                match t {
                    "o" => {
                        toks.push(open_tok(rng, &mut insts, false));
                        continue;
                    }
                    "L" => {
                        toks.push(if foreign { "U".into() } else { "L".into() });
                        if foreign {
                            foreign = false;
                        } // a lock attempt while a holder is alive is refused: stays false
                        continue;
                    }
                    "c" => {
                        if i.handles > 0 {
                            i.handles += 1
                        }
                    }
                    "g" => {
                        if region {
                            i.handles += 1
                        }
                    }
                    "r" => {
                        if region {
                            i.readers += 1
                        }
                    }
                    "b" => {
                        if i.handles > 0 && !i.joining {
                            i.bg += 1
                        }
                    }
                    "f" => {
                        if i.handles > 0 {
                            region = true
                        }
                    }
                    "d" | "R" => {
                        let have = if t == "d" { i.handles } else { i.readers };
                        if have > 0 {
                            let last = i.strong() == 1;
                            if t == "d" { i.handles -= 1 } else { i.readers -= 1 }
                            if last && i.bg > 0 {
                                i.joining = true;
                            }
                        }
                    }
                    "B" => {
                        if i.bg > 0 {
                            i.bg -= 1;
                            if i.joining && i.bg == 0 {
                                i.joining = false;
                            }
                        }
                    }
                    _ => {}
                }
                if t == "f" {
                    content += 1 + rng.below(1000);
                    toks.push(format!("f:{k}:{content}"));
                } else if t == "B" && bg_before >= 2 && rng.chance(1, 2) {
                    // finish the most recently started task first (the tasks are joined in start order)
                    toks.push(format!("E:{k}"));
                } else {
                    toks.push(format!("{t}:{k}"));
                }
                insts[k] = if i.strong() == 0 { None } else { Some(i) };
            }
        }
    }
    // most histories end with a fresh open attempt (after full release if the wind-down got there)
    if rng.chance(80, 100) {
        if foreign && rng.chance(70, 100) {
            toks.push("U".into());
        }
        toks.push(format!("o:{}:{}", rng.below(nw as u64), rng.pick(&min_lens)));
    }
    toks.join(" ")
}

/// `race <iters>`: the drop-race probe, run in a child process
fn exec_race(iters: &str) -> Out {
    let mut out = Out { o: vec!["race done".into()], v: vec![], m: vec![], inconclusive: None };
    let tmp = tempfile::Builder::new().prefix("c18r-").tempdir().expect("tempdir");
    let dir = tmp.path().join("db");
    let exe = std::env::current_exe().expect("current_exe");
    let res = Command::new(exe).args(["openlock", "--race-child", dir.to_str().unwrap(), iters]).stderr(Stdio::null()).output();
    let text = res.map(|o| String::from_utf8_lossy(&o.stdout).to_string()).unwrap_or_default();
    let t: Vec<&str> = text.split_whitespace().collect();
    if t.len() == 6 && t[0] == "hits" {
        let (hits, reopened): (u64, u64) = (t[1].parse().unwrap_or(0), t[3].parse().unwrap_or(0));
        if reopened > 0 {
            out.v.push(format!("racing-drops-release-lock-while-bg-task-alive {reopened} of {iters} attempts: two threads dropped the last two handles at once, neither joined the running run_bg task (both read strong_count == 2), the locks were released and a second Database::open succeeded while the task was still running"));
        } else if hits > 0 {
            out.v.push(format!("racing-drops-skip-bg-join {hits} of {iters} attempts: both drops returned while the run_bg task was still running"));
        }
        out.m.push(if hits > 0 { "race-probe:hit".into() } else { "race-probe:no-hit".into() });
    } else {
        out.inconclusive = Some(format!("race probe child gave {text:?}"));
    }
    out
}

fn emit(id: &str, input: &str) {
    let out = match input.strip_prefix("race ") {
        Some(n) => exec_race(n.trim()),
        None => exec_case(input),
    };
    if let Some(why) = &out.inconclusive {
        // neither I nor O: the driver never sees the case, nothing can be compared
        println!("M {id} inconclusive");
        eprintln!("openlock: case {id} inconclusive ({why}): {input}");
        return;
    }
    println!("I {id} {input}");
    for o in &out.o {
        println!("O {id} {o}");
    }
    for v in &out.v {
        println!("V {id} {v}");
    }
    let mut tags = out.m.clone();
    tags.sort();
    tags.dedup();
    for m in &tags {
        println!("M {id} {m}");
    }
}

pub fn run(args: &[String]) -> i32 {
    install_tap();
    if let Some(p) = args.iter().position(|a| a == "--child") {
        return child_main(&args[p + 1]);
    }
    if let Some(p) = args.iter().position(|a| a == "--race-child") {
        return race_child(&args[p + 1], args[p + 2].parse().unwrap());
    }
    let a = crate::util::parse_args(args);
    crate::util::quiet_panics();
    if let Some(path) = a.replay {
        for (id, input) in crate::util::replay_inputs(&path) {
            emit(&id, &input);
        }
        return 0;
    }
    let mut rng = Rng::new(a.seed);
    for id in 0..a.cases {
        // the first case of every shard is the drop-race probe
        // directed: two background tasks, the last handle dropped, the YOUNGER task returns first — the
        // holder is alive until the older one returns, so the open in between must be refused
        let input = if id == 0 { "race 60".to_string() }
            else if id == 1 { "x=fresh w=tt o:0:0 b:0 b:0 d:0 E:0 o:1:0 B:0 o:1:0".to_string() }
            else if id == 2 { "x=fresh w=tp o:0:0 f:0:77 b:0 b:0 b:0 d:0 E:0 o:1:0 E:0 o:1:4096 B:0 o:1:0".to_string() }
            else { gen_case(&mut rng) };
        emit(&id.to_string(), &input);
    }
    0
}
