//! Scenarios of engine `locks` (C11): every public operation driven through every allocator path
//! with the lock recorder on (`record_scenarios`), and the real-thread replay scenarios of the
//! deadlock classes the model search finds (`replay_table`, `replay_scenario`).
//! (Discovered as an engine module because of its file name; it has no command of its own.)
use crate::eng_locks::{record, Ins, Lk, Prog, Scenario};
use rawdb::{Database, Region, PAGE_SIZE};
use std::collections::HashSet;
use std::time::Duration;

pub fn run(_args: &[String]) -> i32 {
    eprintln!("`lockscen` is the scenario module of engine `locks`; use `harness locks …`");
    2
}

pub struct W {
    pub dir: tempfile::TempDir,
    pub db: Database,
}

pub fn world() -> W {
    let dir = tempfile::tempdir().expect("tempdir");
    let db = Database::open(dir.path()).expect("open");
    W { dir, db }
}

pub fn mk(db: &Database, name: &str, n: usize) -> Region {
    let r = db.create_region_if_needed(name).expect("create");
    if n > 0 {
        r.write(&vec![7u8; n]).expect("write");
    }
    r
}

fn res<T, E: std::fmt::Debug>(r: Result<T, E>) -> String {
    match r {
        Ok(_) => "ok".into(),
        Err(e) => format!("err:{}", format!("{e:?}").split(|c: char| !c.is_alphanumeric()).next().unwrap_or("")),
    }
}

/// rawdb's write path is made for ONE writer per region at a time (concurrent work is on
/// distinct regions): operations that change a region's contents hold, in the model, the gate
/// lock `vecmut` of that region (the same gate a vector's `&mut self` operations hold for the
/// vector and its data region).  The tap cannot see it; it only serialises writers of one object.
fn gated(name: &str) -> bool {
    ["rawdb.write.", "rawdb.write_at.", "rawdb.truncate.", "rawdb.truncate_write.", "rawdb.batch_write_each"].iter().any(|p| name.starts_with(p))
}

fn rec(out: &mut Vec<Prog>, name: &str, db: &Database, f: impl FnOnce() -> String) {
    let (mut ins, mut notes, r) = record(db, f);
    notes.push(format!("result {r}"));
    // the written region is the first one the operation touches
    let first = ins.iter().find_map(|i| match i { Ins::Acq(l, _) if l.class == "meta" => Some(l.inst), _ => None });
    if let (true, Some(inst)) = (gated(name), first) {
        let g = Lk { class: "vecmut".to_string(), inst };
        ins.insert(0, Ins::Acq(g.clone(), true));
        ins.push(Ins::Rel(g));
    }
    out.push(Prog { name: name.to_string(), ins, notes });
}

const MIB: usize = 1024 * 1024;

pub fn record_scenarios(out: &mut Vec<Prog>) {
    rawdb_scenarios(out);
    crate::eng_lockvec::vec_scenarios(out);
}

fn rawdb_scenarios(out: &mut Vec<Prog>) {
    // ---- create_region_if_needed
    {
        let w = world();
        rec(out, "rawdb.create.end_grow", &w.db, || res(w.db.create_region_if_needed("a")));
        rec(out, "rawdb.create.exists", &w.db, || res(w.db.create_region_if_needed("a")));
        rec(out, "rawdb.create.end_nogrow", &w.db, || res(w.db.create_region_if_needed("b")));
        rec(out, "rawdb.get_region", &w.db, || format!("{}", w.db.get_region("a").is_some()));
        rec(out, "rawdb.disk_usage", &w.db, || res(w.db.disk_usage()));
    }
    {
        let w = world();
        let _a = mk(&w.db, "a", 10);
        let b = mk(&w.db, "b", 10);
        let _c = mk(&w.db, "c", 10);
        b.remove().unwrap();
        w.db.flush().unwrap();
        rec(out, "rawdb.create.hole", &w.db, || res(w.db.create_region_if_needed("d")));
    }
    // ---- write_with
    {
        let w = world();
        let a = mk(&w.db, "a", 0);
        rec(out, "rawdb.write.fits", &w.db, || res(a.write(&[1u8; 100])));
        rec(out, "rawdb.write_at.fits_samelen", &w.db, || res(a.write_at(&[2u8; 10], 5)));
        rec(out, "rawdb.write_at.out_of_bounds", &w.db, || res(a.write_at(&[2u8; 10], 5000)));
        rec(out, "rawdb.truncate_write.fits", &w.db, || res(a.truncate_write(50, &[3u8; 10])));
        rec(out, "rawdb.truncate.shrink", &w.db, || res(a.truncate(20)));
        rec(out, "rawdb.truncate.same", &w.db, || res(a.truncate(20)));
        rec(out, "rawdb.truncate.invalid", &w.db, || res(a.truncate(200)));
        rec(out, "rawdb.write.extend_last.nogrow", &w.db, || res(a.write(&vec![4u8; 2 * PAGE_SIZE])));
        rec(out, "rawdb.write.extend_last.grow", &w.db, || res(a.write(&vec![5u8; 2 * MIB])));
    }
    {
        let w = world();
        let a = mk(&w.db, "a", 10);
        let b = mk(&w.db, "b", 10);
        let _c = mk(&w.db, "c", 10);
        b.remove().unwrap();
        w.db.flush().unwrap();
        rec(out, "rawdb.write.expand_hole", &w.db, || res(a.write(&vec![6u8; 5000])));
    }
    {
        let w = world();
        let _a = mk(&w.db, "a", 10);
        let _b = mk(&w.db, "b", 10);
        let c = mk(&w.db, "c", 10);
        let _d = mk(&w.db, "d", 10);
        let x = mk(&w.db, "x", 3 * PAGE_SIZE);
        let _y = mk(&w.db, "y", 10);
        x.remove().unwrap();
        w.db.flush().unwrap();
        rec(out, "rawdb.write.relocate_hole", &w.db, || res(c.write(&vec![6u8; 5000])));
    }
    {
        let w = world();
        let a = mk(&w.db, "a", 10);
        let _b = mk(&w.db, "b", 10);
        rec(out, "rawdb.write.relocate_end.nogrow", &w.db, || res(a.write(&vec![6u8; 5000])));
        let c = mk(&w.db, "c", 10);
        let _d = mk(&w.db, "d", 10);
        rec(out, "rawdb.write.relocate_end.grow", &w.db, || res(c.write(&vec![6u8; 2 * MIB])));
        let e = mk(&w.db, "e", 10);
        let _f = mk(&w.db, "f", 10);
        rec(out, "rawdb.truncate_write.relocate", &w.db, || res(e.truncate_write(0, &vec![6u8; 5000])));
    }
    // ---- rename / remove / retain
    {
        let w = world();
        let a = mk(&w.db, "a", 10);
        let _b = mk(&w.db, "b", 10);
        rec(out, "rawdb.rename", &w.db, || res(a.rename("z")));
        rec(out, "rawdb.rename.exists", &w.db, || res(a.rename("b")));
        let a2 = a.clone();
        rec(out, "rawdb.remove.referenced", &w.db, || res(a2.remove()));
        rec(out, "rawdb.remove", &w.db, || res(a.remove()));
        rec(out, "rawdb.remove_region.missing", &w.db, || res(w.db.remove_region("nope")));
        rec(out, "rawdb.flush.clean_pending", &w.db, || res(w.db.flush()));
    }
    {
        let w = world();
        drop(mk(&w.db, "a", 10));
        drop(mk(&w.db, "b", 10));
        drop(mk(&w.db, "c", 10));
        rec(out, "rawdb.remove_region", &w.db, || res(w.db.remove_region("c")));
        let keep: HashSet<String> = ["a".to_string()].into_iter().collect();
        rec(out, "rawdb.retain_regions", &w.db, || res(w.db.retain_regions(keep)));
    }
    // ---- flushes, compaction
    {
        let w = world();
        let a = mk(&w.db, "a", 100);
        rec(out, "rawdb.flush.dirty", &w.db, || res(w.db.flush()));
        rec(out, "rawdb.flush.clean", &w.db, || res(w.db.flush()));
        a.write(&[1u8; 10]).unwrap();
        let b = mk(&w.db, "b", 100);
        rec(out, "rawdb.flush.dirty2", &w.db, || res(w.db.flush()));
        b.write(&[1u8; 10]).unwrap();
        rec(out, "rawdb.region_flush.dirty", &w.db, || res(b.flush()));
        rec(out, "rawdb.region_flush.clean", &w.db, || res(b.flush()));
        b.truncate(5).unwrap();
        rec(out, "rawdb.region_flush.meta_only", &w.db, || res(b.flush()));
        a.write(&[1u8; 10]).unwrap();
        rec(out, "rawdb.compact.dirty", &w.db, || res(w.db.compact()));
        rec(out, "rawdb.compact.clean2", &w.db, || res(w.db.compact()));
        rec(out, "rawdb.compact_deferred", &w.db, || res(w.db.compact_deferred(Duration::from_millis(1))));
    }
    {
        // one region, nothing dirty: the shape the three-thread replay meets
        let w = world();
        let _x = mk(&w.db, "x", 100);
        w.db.flush().unwrap();
        rec(out, "rawdb.compact.clean", &w.db, || res(w.db.compact()));
    }
    {
        let w = world();
        let x = mk(&w.db, "x", 100);
        rec(out, "rawdb.region_flush.new", &w.db, || res(x.flush()));
    }
    {
        // something to punch: a region tail and a layout hole with data in them
        let w = world();
        let a = mk(&w.db, "a", 3 * PAGE_SIZE);
        let b = mk(&w.db, "b", 100);
        let _c = mk(&w.db, "c", 100);
        w.db.flush().unwrap();
        a.truncate(10).unwrap();
        b.remove().unwrap();
        w.db.flush().unwrap();
        rec(out, "rawdb.compact.punch", &w.db, || res(w.db.compact()));
    }
    // ---- file growth
    {
        let w = world();
        let _a = mk(&w.db, "a", 10);
        rec(out, "rawdb.set_min_len.nogrow", &w.db, || res(w.db.set_min_len(10)));
        rec(out, "rawdb.set_min_len.grow", &w.db, || res(w.db.set_min_len(4 * MIB)));
        rec(out, "rawdb.set_min_regions.nogrow", &w.db, || res(w.db.set_min_regions(1)));
        rec(out, "rawdb.set_min_regions.grow", &w.db, || res(w.db.set_min_regions(4000)));
    }
    // ---- readers, batch writes, background tasks
    {
        let w = world();
        let a = mk(&w.db, "a", 100);
        rec(out, "rawdb.reader", &w.db, || {
            let r = a.create_reader();
            let n = r.read_all().len();
            drop(r);
            format!("ok{n}")
        });
        rec(out, "rawdb.batch_write_each", &w.db, || {
            a.batch_write_each([(0usize, 1u8), (10usize, 2u8)].into_iter(), 1, |v, s| s[0] = *v);
            "ok".into()
        });
        rec(out, "rawdb.batch_write_each.empty", &w.db, || {
            a.batch_write_each(std::iter::empty::<(usize, u8)>(), 1, |v, s| s[0] = *v);
            "ok".into()
        });
        rec(out, "rawdb.run_bg", &w.db, || {
            w.db.run_bg(|_| Ok(()));
            "ok".into()
        });
        rec(out, "rawdb.sync_bg_tasks", &w.db, || res(w.db.sync_bg_tasks()));
        rec(out, "rawdb.sync_bg_tasks.none", &w.db, || res(w.db.sync_bg_tasks()));
        rec(out, "rawdb.bg_sleep", &w.db, || {
            w.db.bg_sleep(Duration::from_millis(1));
            "ok".into()
        });
    }
}

// ------------------------------------------------------------------------------------------------
// replays.  A scenario names the programs of P its threads are expected to follow (the
// controller checks every reported acquisition against them), builds the shared world, and
// hands out one closure per thread.  Thread order = the order in which the controller moves
// the threads to their positions in the deadlock.

/// cycle key of the model search -> scenario name
pub fn replay_table() -> Vec<(&'static str, &'static str)> {
    let mut t = vec![
        (">file:w|file:r>meta:w|meta:r>file:r", "region-flush-vs-punch-holes-vs-set-min-len"),
    ];
    t.extend(crate::eng_lockvec::replay_table());
    t
}

/// repaired deadlocks (V key, scenario): replayed on every run, must run to completion
pub fn regression_table() -> Vec<(&'static str, &'static str)> {
    vec![("deadlock-region-flush-vs-punch-holes-vs-set-min-len", "region-flush-vs-punch-holes-vs-set-min-len")]
}

pub fn replay_scenario(name: &str) -> Option<Scenario> {
    match name {
        // T0 Region::flush: holds regions(read) + meta(read) and wants file(read)
        // T1 compact -> punch_holes: holds layout(read) + file(read) and wants the same meta(write)
        // T2 set_min_len: holds mmap(write) and queues for file(write): refuses T0's file(read)
        "region-flush-vs-punch-holes-vs-set-min-len" => {
            let w = world();
            let x = mk(&w.db, "x", 100);
            let (d1, d2) = (w.db.clone(), w.db.clone());
            Some(Scenario {
                key: "deadlock-region-flush-vs-punch-holes-vs-set-min-len",
                progs: vec!["rawdb.region_flush.new", "rawdb.compact.clean", "rawdb.set_min_len.grow"],
                threads: vec![
                    Box::new(move || {
                        let _ = x.flush();
                    }),
                    Box::new(move || {
                        let _ = d1.compact();
                    }),
                    Box::new(move || {
                        let _ = d2.set_min_len(4 * MIB);
                    }),
                ],
                keep: Box::new(w),
                // repaired in /repo b503bc7 (Region::flush drops meta before taking file): kept
                // as a regression — flush at its file acquisition, punch_holes at its meta(write),
                // set_min_len at its file(write); then punch_holes, set_min_len, flush are let go
                regress: Some((vec![("file", false), ("meta", true), ("file", true)], vec![1, 2, 0])),
            })
        }
        other => crate::eng_lockvec::replay_scenario(other),
    }
}
