// Discovers the engine modules src/eng_*.rs and generates the dispatch table, so that adding an
// engine is adding one file.
use std::{env, fs, path::Path};

fn main() {
    let dir = env::var("CARGO_MANIFEST_DIR").unwrap();
    let src = Path::new(&dir).join("src");
    let mut names: Vec<String> = fs::read_dir(&src)
        .unwrap()
        .filter_map(|e| e.ok())
        .filter_map(|e| e.file_name().into_string().ok())
        .filter(|n| n.starts_with("eng_") && n.ends_with(".rs"))
        .map(|n| n.trim_end_matches(".rs").to_string())
        .collect();
    names.sort();
    let mut out = String::new();
    for n in &names {
        out.push_str(&format!("#[path = \"{}/{}.rs\"]\npub mod {};\n", src.display(), n, n));
    }
    out.push_str("pub fn dispatch(name: &str, args: &[String]) -> Option<i32> {\n    match name {\n");
    for n in &names {
        out.push_str(&format!("        \"{}\" => Some({}::run(args)),\n", n.trim_start_matches("eng_"), n));
    }
    out.push_str("        _ => None,\n    }\n}\n");
    fs::write(Path::new(&env::var("OUT_DIR").unwrap()).join("engines.rs"), out).unwrap();
    println!("cargo:rerun-if-changed=src");
    println!("cargo:rustc-check-cfg=cfg(anydb_verif)");
}
