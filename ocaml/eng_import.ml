(* eng_import.ml — model side of engine `import` (C14): replays one case of the cross product
   through the extracted Coq model (Vec/ImportModel.v) and prints the expected observations. *)
open BinNums
open Datatypes
open Base
open Conv
open ImportModel
module L = Stdlib.List

let fmt_of = function
  | "b" -> FBytes | "z" -> FZeroCopy | "p" -> FPco | "l" -> FLZ4 | "s" -> FZstd | _ -> failwith "format"
let entry_of = function "i" -> EImport | "f" -> EForced | _ -> failwith "entry"
let size_of = function "u16" -> 2 | "u32" -> 4 | "u64" | "i64" -> 8 | _ -> failwith "type"
let tamper_of = function
  | "n" -> TNone | "hv" -> THeaderVersion | "fb" -> TFormatByte | "sh" -> TShortMain | "ax" -> TAuxOdd | "ml" -> TMisaligned
  | _ -> failwith "tamper"

let ename = function
  | WrongEndian -> "WrongEndian" | WrongLength -> "WrongLength" | DifferentFormat -> "DifferentFormat"
  | DifferentVersion -> "DifferentVersion" | DifferentCompressionMode -> "DifferentCompressionMode"
  | InvalidFormat -> "InvalidFormat" | TryLock -> "TryLock" | IO -> "IO" | RawDB -> "RawDB"
  | CorruptedRegion -> "CorruptedRegion"

let data_val i = (i * 37 + 11) mod 251 + 1
let probe_val i = 60000 + i
let holes_idx = [1; 3]
let nprobe = 4

let show_slots (l : coq_N option list) =
  if l = [] then "-" else
  String.concat "," (L.map (function None -> "_" | Some v -> string_of_n v) l)
let show_idx (l : coq_N list) = if l = [] then "-" else String.concat "," (L.map string_of_n l)

let reg_letter b a = match b, a with
  | None, None -> "a" | Some x, Some y -> if x = y then "s" else "c" | None, Some _ -> "n" | Some _, None -> "r"
let regs (b : store) (a : store) =
  reg_letter b.s_main a.s_main ^ reg_letter b.s_pages a.s_pages ^ reg_letter b.s_holes a.s_holes

let exec (t : string list) : string list =
  match t with
  | f1 :: e1 :: v1 :: f2 :: e2 :: v2 :: ty :: wrap :: ndata :: holes :: tam :: oc :: _ ->
      let q1 = { q_entry = entry_of e1; q_ver = n_of_string v1; q_fmt = fmt_of f1 } in
      let q2 = { q_entry = entry_of e2; q_ver = n_of_string v2; q_fmt = fmt_of f2 } in
      let oc = (oc = "1") in
      let size = n_of_int (size_of ty) in
      let n = int_of_string ndata in
      let data = L.init n (fun i -> n_of_int (data_val i)) in
      let hs = if holes = "1" && wrap = "p" then L.map n_of_int holes_idx else [] in
      (* stand-in for the compressor's output length: the theorems of ImportProofs.v hold for every
         value of it and no observation printed here depends on it *)
      let clen = n_of_int (size_of ty * n) in
      (match run_entry oc size None q1 empty_store with
       | (_, Panic) -> ["create panic"]
       | (_, Err k) -> ["create err " ^ ename k]
       | (_, Ok _) ->
         match created oc size clen q1 data hs with
         | None -> ["create panic"]
         | Some s0 ->
           let s = apply_tamper (tamper_of tam) (fam_of q1.q_fmt) s0 in
           let (s', r) = run_entry oc size None q2 s in
           let rg = regs s s' in
           match r with
           | Ok w ->
               let pv = L.init nprobe (fun i -> n_of_int (probe_val i)) in
               (* step 3: the pushed values are written (fill with the extended contents; the deleted
                  slots stay), then the SAME request once more *)
               let fam2 = fam_of q2.q_fmt in
               let data2 = w.v_data @ pv in
               let clen2 = n_of_int (size_of ty * L.length data2) in
               let s2 = fill fam2 size clen2 data2 w.v_holes s' in
               let (s3, r3) = run_entry oc size None q2 s2 in
               let rg3 = regs s2 s3 in
               [ "create ok";
                 Printf.sprintf "reopen ok len=%d slots=%s holes=%s regs=%s" (L.length w.v_data)
                   (show_slots (probe w [])) (show_idx w.v_holes) rg;
                 "probe " ^ show_slots (probe w pv) ^ " write=ok";
                 (match r3 with
                  | Ok w3 -> Printf.sprintf "again ok len=%d slots=%s holes=%s regs=%s" (L.length w3.v_data)
                               (show_slots (probe w3 [])) (show_idx w3.v_holes) rg3
                  | Err k -> Printf.sprintf "again err %s regs=%s" (ename k) rg3
                  | Panic -> Printf.sprintf "again panic regs=%s" rg3) ]
           | Err k -> ["create ok"; Printf.sprintf "reopen err %s regs=%s" (ename k) rg]
           | Panic -> ["create ok"; Printf.sprintf "reopen panic regs=%s" rg])
  | _ -> ["err UnknownCase"]
