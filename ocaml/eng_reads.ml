(* eng_reads.ml — model side of engine `reads` (C08, C20): rebuilds the vector state from the dump the
   harness put into the I line, runs the extracted Coq read paths and prints, per read, the expected
   `<result> @ <accesses>` body.  History tokens (between H and S) are the harness's business. *)
open BinNums
open Datatypes
open Conv
module L = Stdlib.List
module S = Stdlib.String
module M = RdModel
module C = RdCursor
module P = RdComp

let mask40 = Z.pred (Z.shift_left Z.one 40)
let vfun (k : Z.t) : Z.t = Z.logand (Z.mul (Z.succ k) (Z.of_string "0x9E3779B1")) mask40

(* value <-> counter *)
let inv : (string, Z.t) Hashtbl.t = Hashtbl.create 4096
let known : Z.t ref = ref Z.zero
let note (k : Z.t) =
  while Z.leq !known k do
    Hashtbl.replace inv (Z.to_string (vfun !known)) !known;
    known := Z.succ !known
  done

(* value lists: comma-separated  k+n | #v | _ *)
let dec_opts (s : string) : coq_N option list =
  if s = "-" then [] else
  L.concat_map (fun seg ->
    if seg = "_" then [None]
    else if seg.[0] = '#' then [Some (n_of_string (S.sub seg 1 (S.length seg - 1)))]
    else match S.split_on_char '+' seg with
      | [k; n] ->
        let k = Z.of_string k and n = int_of_string n in
        note (Z.add k (Z.of_int n));
        L.init n (fun i -> Some (n_of_z (vfun (Z.add k (Z.of_int i)))))
      | _ -> failwith "vals") (S.split_on_char ',' s)
let dec_vals s = L.filter_map (fun x -> x) (dec_opts s)

let enc_opts (xs : coq_N option list) : string =
  if xs = [] then "-" else begin
    let segs = ref [] and run = ref None in
    let flush () = (match !run with Some (k, n) -> segs := Printf.sprintf "%s+%d" (Z.to_string k) n :: !segs | None -> ()); run := None in
    L.iter (fun x ->
      let ctr = match x with None -> None | Some v -> Hashtbl.find_opt inv (string_of_n v) in
      match ctr with
      | Some k ->
        (match !run with
         | Some (k0, n) when Z.equal (Z.add k0 (Z.of_int n)) k -> run := Some (k0, n + 1)
         | _ -> flush (); run := Some (k, 1))
      | None -> flush (); segs := (match x with None -> "_" | Some v -> "#" ^ string_of_n v) :: !segs) xs;
    flush ();
    S.concat "," (L.rev !segs)
  end
let enc_vals xs = enc_opts (L.map (fun x -> Some x) xs)
let enc1 = function None -> "none" | Some v -> enc_vals [v]

let enc_acc (a : (coq_N * coq_N) list) : string =
  if a = [] then "-" else begin
    let segs = ref [] in
    L.iter (fun (o, l) ->
      let o = z_of_n o and l = z_of_n l in
      match !segs with
      | (o0, l0, n) :: r when Z.equal l0 l && Z.sign l > 0 && Z.equal (Z.add o0 (Z.mul l0 (Z.of_int n))) o -> segs := (o0, l0, n + 1) :: r
      | _ -> segs := (o, l, 1) :: !segs) a;
    S.concat "," (L.rev_map (fun (o, l, n) ->
      if n = 1 then Printf.sprintf "%s:%s" (Z.to_string o) (Z.to_string l)
      else Printf.sprintf "%s:%s*%d" (Z.to_string o) (Z.to_string l) n) !segs)
  end

(* ------------------------------------------------------------------ state *)
type st = Raw of M.rstate | Comp of P.cstate
type ctx = { mutable xo : coq_N; mutable cache : (coq_N * coq_N list) option; mutable sz : int; mutable rl : int;
             mutable owner : char; eager : bool; mutable poison : coq_N option }

let kv (toks : string list) : (string * string) list =
  L.filter_map (fun t -> match S.index_opt t '=' with
    | Some i -> Some (S.sub t 0 i, S.sub t (i + 1) (S.length t - i - 1)) | None -> None) toks

let build_state (kind : string) (d : (string * string) list) (xo : coq_N) : st =
  let g k = L.assoc k d in
  let sz = n_of_string (g "sz") in
  let pushed = dec_vals (g "pushed") in
  if L.mem_assoc "disk" d then
    let holes = if g "holes" = "-" then [] else L.map n_of_string (S.split_on_char ',' (g "holes")) in
    let upd = if g "upd" = "-" then [] else L.map (fun t -> match S.split_on_char ':' t with
        | [i; v] -> (n_of_string i, L.hd (dec_vals v)) | _ -> failwith "upd") (S.split_on_char ',' (g "upd")) in
    Raw { M.r_sz = sz; r_native = (kind <> "bytesn"); r_xo = xo; r_disk = dec_vals (g "disk"); r_stored = n_of_string (g "sl");
          r_pushed = pushed; r_holes = holes; r_upd = upd }
  else
    let pages = if g "pages" = "-" then [] else L.map (fun t -> match S.split_on_char ':' t with
        | [raw; start; bytes; vals] -> { P.pg_raw = (raw = "1"); pg_start = n_of_string start; pg_bytes = n_of_string bytes; pg_vals = dec_vals vals }
        | _ -> failwith "page") (S.split_on_char ';' (g "pages")) in
    Comp { P.c_sz = sz; c_xo = xo; c_rlen = n_of_string (g "rl"); c_stored = n_of_string (g "sl"); c_pushed = pushed; c_pages = pages }

let with_xo st xo = match st with
  | Raw c -> Raw { c with M.r_xo = xo }
  | Comp c -> Comp { c with P.c_xo = xo }

let region_len = function Raw c -> M.region_len c | Comp c -> c.P.c_rlen

(* ------------------------------------------------------------------ results *)
let oob rl (a : (coq_N * coq_N) list) = L.exists (fun (o, l) -> Z.gt (Z.add (z_of_n o) (z_of_n l)) (z_of_n rl)) a

let show_list tag (r, a) = match r with
  | M.ROk l -> Printf.sprintf "%s %s @ %s" tag (enc_vals l) (enc_acc a)
  | M.RGarbage -> Printf.sprintf "garbage @ %s" (enc_acc a)
  | M.RPanic -> Printf.sprintf "panic @ %s" (enc_acc a)
let show_opt (r, a) = match r with
  | M.ROk l -> Printf.sprintf "o %s @ %s" (enc1 (match l with [] -> None | x :: _ -> Some x)) (enc_acc a)
  | M.RGarbage -> Printf.sprintf "garbage @ %s" (enc_acc a)
  | M.RPanic -> Printf.sprintf "panic @ %s" (enc_acc a)
let show_try (r, a) = match r with
  | M.TOk l -> Printf.sprintf "v %s @ %s" (enc_vals l) (enc_acc a)
  | M.TEarly l -> Printf.sprintf "e %s @ %s" (enc_vals l) (enc_acc a)
  | M.TGarbage -> Printf.sprintf "garbage @ %s" (enc_acc a)
  | M.TPanic -> Printf.sprintf "panic @ %s" (enc_acc a)
let map_ok f (r, a) = match r with M.ROk l -> Ok (f l, a) | M.RGarbage -> Error ("garbage @ " ^ enc_acc a) | M.RPanic -> Error ("panic @ " ^ enc_acc a)

let usz s = n_of_string s
let sig_ s = if s = "n" then None else Some (let z = Z.of_string s in
  if Z.sign z = 0 then BinNums.Z0 else if Z.sign z > 0 then BinNums.Zpos (pos_of_z z) else BinNums.Zneg (pos_of_z (Z.neg z)))

let parse_script (s : string) : C.cop list =
  if s = "-" then [] else L.map (fun t ->
    let rest () = usz (S.sub t 1 (S.length t - 1)) in
    match t.[0] with
    | 'g' -> C.OGet (rest ()) | 'n' -> C.ONext | 'a' -> C.OAdvance (rest ()) | 'f' -> C.OFold (rest ())
    | 'p' -> C.OPos | _ -> C.ORemaining) (S.split_on_char ',' s)

let show_script (outs, a) =
  let hang = L.exists (fun o -> o = C.CHang) outs in
  let panic = L.exists (fun o -> o = C.CPanic) outs in
  let garb = L.exists (fun o -> o = C.CGarbage) outs in
  if hang then "hang @ -" else if panic then "panic @ " ^ enc_acc a else if garb then "garbage @ " ^ enc_acc a else
  let items = L.filter_map (function
    | C.COpt o -> Some ("o" ^ enc1 o) | C.CList l -> Some ("v" ^ enc_vals l) | C.CNum n -> Some ("n" ^ string_of_n n)
    | _ -> None) outs in
  Printf.sprintf "s %s @ %s" (if items = [] then "-" else S.concat ";" items) (enc_acc a)

(* the vector behind a target, as the generic layers see it, plus its specific paths *)
type paths = {
  rv : C.rvec;
  read_into : coq_N -> coq_N -> M.stream;
  fold : coq_N -> coq_N -> M.stream;
  tryf : coq_N -> coq_N -> M.stream;
  one : coq_N -> M.stream;
}
let paths_of st target = match st, target with
  | Raw c, 'd' -> { rv = C.raw_rvec c; read_into = M.read_into_at c; fold = M.fold_range_at c; tryf = M.try_fold_range_at c; one = M.collect_one_at c }
  | Raw c, _ -> { rv = C.ro_rvec c; read_into = M.ro_read_into c; fold = M.ro_fold_range c; tryf = M.ro_fold_range c; one = M.ro_collect_one c }
  | Comp c, 'd' -> { rv = P.comp_rvec c; read_into = P.cread_into_at c; fold = P.cfold_range_at false c; tryf = P.cfold_range_at true c; one = P.ccollect_one_at c }
  | Comp c, _ -> { rv = P.cro_rvec c; read_into = P.cro_read_into c; fold = P.cro_fold_range false c; tryf = P.cro_fold_range true c; one = P.cro_collect_one c }

(* EagerVec reports header.computed_version() as its version, its read-only clone reports vec_version(): the two
   CachedVec wrappers of an eager vector never hit each other's cache entry *)
let cache_for ctx target =
  let c = if ctx.eager && ctx.owner <> target then None else ctx.cache in
  ctx.owner <- target; c

let exec_read (ctx : ctx) (st : st) (tok : string) : string =
  let st = with_xo st ctx.xo in
  let target = tok.[0] in
  let body = S.sub tok 2 (S.length tok - 2) in
  let p = Array.of_list (S.split_on_char ':' body) in
  let m = p.(0) in
  let a i = usz p.(i) in
  let modulus = if ctx.sz = 5 then n_of_z (Z.shift_left Z.one 40) else n_of_z (Z.shift_left Z.one 64) in
  let cached = target = 'c' || target = 'q' in
  let ps = paths_of st (if target = 'c' then 'd' else if target = 'q' then 'o' else if target = 'y' then 'o' else target) in
  let vlen = ps.rv.C.v_len in
  let result =
    if cached && (m = "cu" || m = "cud") then begin
      (* Cursor over a CachedVec: len is the inner len; every read_into_at goes through try_cached (which
         materialises on a miss), so the cache is filled at the first refill, not before *)
      let rv = { C.v_len = vlen; v_read_into = (fun f t ->
        let k0 = cache_for ctx target in
        let hit = (match k0 with Some (l, _) -> l = vlen | None -> false) in
        if not hit then ctx.poison <- None;
        let ((r, k), acc) = C.materialize ps.rv k0 in
        ctx.cache <- k;
        let fs = L.map (fun (o, l) -> M.Fetch (o, l)) acc in
        if r = M.RGarbage then (ctx.poison <- Some vlen; ctx.cache <- Some (vlen, []));
        if ctx.poison = Some vlen then fs @ [M.Garb] else
        match r with
        | M.ROk d -> fs @ L.map (fun v -> M.Yield v) (C.cached_read_into d f t)
        | M.RGarbage -> fs @ [M.Garb]
        | M.RPanic -> fs @ [M.Boom]) } in
      let shown = show_script (C.cursor_script rv C.cursor_new (parse_script p.(1))) in
      (* the harness prints `oob` for every read through a wrapper whose cache entry was filled from outside
         the region, whether or not the script reaches the data (positions only) *)
      let hit_poisoned = ctx.poison = Some vlen && (match ctx.cache with Some (l, _) -> l = vlen | None -> false) in
      let prefix k = S.length shown >= k && (S.sub shown 0 k = "hang" || S.sub shown 0 k = "pani") in
      if hit_poisoned && not (prefix 4) then
        (match S.index_opt shown '@' with Some i -> "garbage " ^ S.sub shown i (S.length shown - i) | None -> shown)
      else shown
    end else if cached && m = "la" && vlen = N0 then
      (* collect_last on an empty vector returns before it reaches the wrapper's read path: the cache is not touched *)
      "o none @ -"
    else if cached then begin
      (* every other cached read materialises first *)
      let k0 = cache_for ctx target in
      let hit = (match k0 with Some (l, _) -> l = vlen | None -> false) in
      if not hit then ctx.poison <- None;
      let ((r, k), acc) = C.materialize ps.rv k0 in
      ctx.cache <- k;
      match r with
      | M.RPanic -> "panic @ " ^ enc_acc acc
      | M.RGarbage ->
        (* the real wrapper caches the snapshot all the same: later hits serve bytes from outside the region *)
        ctx.poison <- Some vlen; ctx.cache <- Some (vlen, []);
        "garbage @ " ^ enc_acc acc
      | M.ROk _ when ctx.poison = Some vlen -> "garbage @ " ^ enc_acc acc
      | M.ROk d ->
        let fin tag l = Printf.sprintf "%s %s @ %s" tag (enc_vals l) (enc_acc acc) in
        let fino o = Printf.sprintf "o %s @ %s" (enc1 o) (enc_acc acc) in
        let sgn () = C.signed_range vlen (sig_ p.(1)) (sig_ p.(2)) in
        (match m with
         | "cr" | "cd" | "ri" | "ci" -> fin "v" (C.cached_read_into d (a 1) (a 2))
         | "co" | "cdy" -> fin "v" (C.cached_read_into d N0 vlen)
         | "cs" | "csd" -> let (f, t) = sgn () in fin "v" (C.cached_read_into d f t)
         | "fr" | "fe" | "fd" -> fin "v" (C.cached_fold d (a 1) (a 2))
         | "fo" | "fa" -> fin "v" (C.cached_fold d N0 vlen)
         | "tf" | "te" ->
           let l = C.cached_fold d (a 1) (a 2) in
           let k = int_of_n (a 3) in
           if L.length l > k then fin "e" (L.filteri (fun i _ -> i < k) l) else fin "v" l
         | "mn" | "mnd" -> fino (C.fold_min (C.cached_fold d (a 1) (a 2)))
         | "mx" | "mxd" -> fino (C.fold_max (C.cached_fold d (a 1) (a 2)))
         | "sm" | "smd" -> Printf.sprintf "n %s @ %s" (match C.fold_sum modulus (C.cached_fold d (a 1) (a 2)) with None -> "none" | Some v -> string_of_n v) (enc_acc acc)
         | "c1" -> fino (C.cached_one d (a 1))
         | "fi" -> fino (C.cached_one d N0)
         | "la" -> fino (if vlen = N0 then None else C.cached_one d (n_of_z (Z.pred (z_of_n vlen))))
         | "rs" | "rsi" -> fin "v" (C.cached_sorted d (if p.(1) = "-" then [] else L.map usz (S.split_on_char ',' p.(1))))
         | "cu" | "cud" -> assert false
         | _ -> "unsupported")
    end else begin
      let sgn () = C.signed_range vlen (sig_ p.(1)) (sig_ p.(2)) in
      match m, st with
      | ("cr" | "cd" | "ri" | "ci"), _ -> show_list "v" (M.run (ps.read_into (a 1) (a 2)))
      | ("co" | "cdy"), _ -> show_list "v" (M.run (ps.read_into N0 vlen))
      | ("cs" | "csd"), _ -> let (f, t) = sgn () in show_list "v" (M.run (ps.read_into f t))
      | ("fr" | "fe" | "fd"), _ -> show_list "v" (M.run (ps.fold (a 1) (a 2)))
      | ("fo" | "fa"), _ -> show_list "v" (M.run (ps.fold N0 vlen))
      | ("tf" | "te"), _ -> show_try (M.try_run (a 3) (ps.tryf (a 1) (a 2)))
      | ("mn" | "mnd"), _ -> (match map_ok C.fold_min (M.run (ps.fold (a 1) (a 2))) with Ok (o, acc) -> Printf.sprintf "o %s @ %s" (enc1 o) (enc_acc acc) | Error e -> e)
      | ("mx" | "mxd"), _ -> (match map_ok C.fold_max (M.run (ps.fold (a 1) (a 2))) with Ok (o, acc) -> Printf.sprintf "o %s @ %s" (enc1 o) (enc_acc acc) | Error e -> e)
      | ("sm" | "smd"), _ -> (match map_ok (C.fold_sum modulus) (M.run (ps.fold (a 1) (a 2))) with
          | Ok (o, acc) -> Printf.sprintf "n %s @ %s" (match o with None -> "none" | Some v -> string_of_n v) (enc_acc acc) | Error e -> e)
      | "c1", _ -> show_opt (M.run (ps.one (a 1)))
      | "fi", _ -> show_opt (M.run (ps.one N0))
      | "la", _ -> if vlen = N0 then "o none @ -" else show_opt (M.run (ps.one (n_of_z (Z.pred (z_of_n vlen)))))
      | ("rs" | "rsi"), _ -> show_list "v" (C.read_sorted ps.rv (if p.(1) = "-" then [] else L.map usz (S.split_on_char ',' p.(1))))
      | ("cu" | "cud"), _ -> show_script (C.cursor_script ps.rv C.cursor_new (parse_script p.(1)))
      | "vg", Raw c -> show_opt (M.run (M.vr_get c (a 1)))
      | "vt", Raw c -> show_opt (M.run (M.vr_try_get c (a 1)))
      | "r1", Raw c ->
        let s = if target = 'd' then M.read_at_once c (a 1) else M.vr_try_get c (a 1) in
        (match M.run s with
         | (M.ROk [], acc) -> "r err @ " ^ enc_acc acc
         | (M.ROk (x :: _), acc) -> Printf.sprintf "r %s @ %s" (enc_vals [x]) (enc_acc acc)
         | (M.RGarbage, acc) -> "garbage @ " ^ enc_acc acc
         | (M.RPanic, acc) -> "panic @ " ^ enc_acc acc)
      | "ga", Raw c -> show_opt (M.run (M.get_any c (a 1)))
      | "gp", Raw c -> show_opt (M.run (M.get_pushed_or_read c (a 1)))
      | "rr", Raw c -> show_opt (M.run (M.read_ref_at c (a 1)))
      | "ch", Raw c ->
        let rs = L.map M.run (M.holed_range c (a 1) (a 2)) in
        let acc = L.concat_map snd rs in
        if L.exists (fun (r, _) -> r = M.RGarbage) rs then "garbage @ " ^ enc_acc acc
        else Printf.sprintf "h %s @ %s" (enc_opts (L.map (fun (r, _) -> match r with M.ROk (x :: _) -> Some x | _ -> None) rs)) (enc_acc acc)
      | "so", Raw c -> show_list "v" (M.run (M.fold_stored_io c (a 1) (a 2)))
      | "sp", Raw c -> show_list "v" (M.run (M.fold_stored_mmap c (a 1) (a 2)))
      | "so", Comp c -> show_list "v" (M.run (P.cfold_stored true c (a 1) (a 2)))
      | "sp", Comp c -> show_list "v" (M.run (P.cfold_stored false c (a 1) (a 2)))
      | _ -> "unsupported"
    end in
  (* a result computed from bytes outside the region is not predictable: both sides print `oob` *)
  match S.index_opt result '@' with
  | Some _ when S.length result > 0 && S.sub result 0 (min 7 (S.length result)) = "garbage" -> "oob @ *"
  | Some i when S.length result >= 4 && S.sub result 0 4 <> "pani" && S.sub result 0 4 <> "hang" ->
    (* the harness prints `oob` as soon as ONE access of the read extends outside the region, even when the values
       consumed before an early exit all came from inside (the access is reported by the C20 oracle) *)
    let accs = S.trim (S.sub result (i + 1) (S.length result - i - 1)) in
    let outside a =
      match S.split_on_char ':' a with
      | [o; l] ->
        (try
           let o = int_of_string o in
           let l = (match S.split_on_char '*' l with
               | [x] -> int_of_string x
               | [x; y] -> int_of_string x * int_of_string y
               | _ -> 0) in
           o < 0 || o + l > ctx.rl
         with _ -> false)
      | _ -> false in
    if accs <> "-" && accs <> "*" && L.exists outside (S.split_on_char ',' accs) then "oob @ *" else result
  | _ -> result

let exec (toks : string list) : string list =
  match toks with
  | kind :: _ssc :: rest ->
    let ctx = { xo = n_of_z (Z.shift_left Z.one 30); cache = None; sz = 8; rl = max_int; owner = ' '; eager = (kind.[0] = 'e'); poison = None } in
    let out = ref [] in
    let mode = ref ' ' and dump = ref [] and st = ref None in
    let finish_dump () =
      if !dump <> [] && !st = None then begin
        let d = kv (L.rev !dump) in
        ctx.sz <- int_of_string (L.assoc "sz" d);
        ctx.rl <- (try int_of_string (L.assoc "rl" d) with _ -> max_int);
        let s = build_state kind d ctx.xo in
        st := Some s;
        let wf = match s with Raw c -> M.wf_b c | Comp c -> P.cwf_b c in
        out := Printf.sprintf "wf %d" (if wf then 1 else 0) :: !out
      end in
    L.iter (fun t ->
      match t with
      | "H" -> mode := 'H'; dump := []; st := None
      | "S" -> mode := 'S'
      | "R" -> finish_dump (); mode := 'R'
      | _ ->
        (match !mode with
         | 'S' -> dump := t :: !dump
         | 'R' ->
           if S.length t > 2 && S.sub t 0 2 = "x:" then ctx.xo <- n_of_string (S.sub t 2 (S.length t - 2))
           else (match !st with Some s -> out := exec_read ctx s t :: !out | None -> ())
         | _ -> ())) rest;
    L.rev !out
  | _ -> ["bad-input"]
