(* eng_rawdb.ml — model side of engine `rawdb` (C01, C02, C13): replays the history of an
   `I` line on the extracted allocator model (Rawdb/Alloc.v) and prints, per step, the
   result, the complete allocator state and sampled region bytes in the harness's format.
   ORACLE (C02): after every step the extracted boolean invariant `InvBool.inv_b` (proved
   equivalent to `Inv`: Props/C02.v C02_inv_b_spec) is evaluated on the state; this state is the
   one the harness compares field by field with the real allocator (O = E), so on a step the
   implementation agreed with, `false` is a violation of C02 on the real code.  It can never
   fire while the model is unchanged (C02_inv_b_reachable); it reports the first failing clause
   (index into InvBool.inv_clauses = order of the fields of Inv). *)
open BinNums
open Datatypes
open Base
open Conv
open Alloc
module L = Stdlib.List
module S = Stdlib.String

let ni = n_of_int
let si = string_of_n

let gen_fun (w : int) : coq_N -> coq_N =
  fun k -> let k = int_of_n k in byte_tab.((w * 131 + k * 7 + (k / 256) * 13 + 1) land 255)

let parse_op (s : string) : op =
  let t = S.split_on_char ':' s in
  let n i = n_of_string (L.nth t i) in
  let ii i = int_of_string (L.nth t i) in
  match L.hd t with
  | "c" -> Create (n 1, ii 2 = 1)
  | "w" -> Write (n 1, gen_fun (ii 2), n 3)
  | "a" -> WriteAt (n 1, gen_fun (ii 2), n 3, n 4)
  | "tw" -> TruncWrite (n 1, gen_fun (ii 2), n 3, n 4)
  | "t" -> Truncate (n 1, n 2)
  | "mv" -> Rename (n 1, n 2)
  | "rm" -> Remove (n 1)
  | "dh" -> DropHandle (n 1)
  | "ret" -> Retain (if L.length t > 1 && L.nth t 1 <> "" then L.map n_of_string (S.split_on_char '+' (L.nth t 1)) else [])
  | "f" -> Flush
  | "fr" -> FlushRegion (n 1)
  | "cp" -> Compact
  | "ro" -> Reopen
  | "ml" -> SetMinLen (n 1)
  | "mr" -> SetMinRegions (n 1)
  | _ -> failwith ("bad op " ^ s)

let err_name = function
  | RegionNotFound -> "RegionNotFound" | RegionMetadataUnwritten -> "RegionMetadataUnwritten"
  | RegionAlreadyExists -> "RegionAlreadyExists" | RegionStillReferenced -> "RegionStillReferenced"
  | WriteOutOfBounds -> "WriteOutOfBounds" | TruncateInvalid -> "TruncateInvalid"
  | RegionIndexMismatch -> "RegionIndexMismatch" | HoleTooSmall -> "HoleTooSmall"
  | InvariantViolation -> "InvariantViolation" | RegionSizeOverflow -> "RegionSizeOverflow"
  | OverlappingCopyRanges -> "OverlappingCopyRanges"

let u64max = Z.pred (Z.shift_left Z.one 64)

let dump (s : st) : string =
  let b = Buffer.create 512 in
  let sl = L.mapi (fun i o -> (i, o)) s.slots in
  let live = L.filter_map (fun (i, o) -> match o with Some m -> Some (i, m) | None -> None) sl in
  Buffer.add_string b (Printf.sprintf "S[%s]#%d"
    (S.concat "," (L.map (fun (i, m) ->
       Printf.sprintf "%d=%s/%s/%s/%s/%s/%s" i (si m.r_id) (si m.r_start) (si m.r_len) (si m.r_reserved) (si m.r_state)
         (si m.r_dmin ^ "-" ^ si m.r_dmax)) live))
    (L.length s.slots));
  let pairs sep l = S.concat "," (L.map (fun (a, z) -> si a ^ sep ^ si z) l) in
  Buffer.add_string b (Printf.sprintf " G[%s]" (pairs "=" s.s2r));
  Buffer.add_string b (Printf.sprintf " H[%s]" (pairs "+" s.holes));
  Buffer.add_string b (Printf.sprintf " Q[%s]" (S.concat "," (L.map (fun (z, ss) -> si z ^ ":" ^ S.concat "/" (L.map si ss)) s.h2s)));
  Buffer.add_string b (Printf.sprintf " P[%s]" (pairs "+" s.pend));
  Buffer.add_string b (Printf.sprintf " V[%s]" (pairs "+" s.resv));
  Buffer.add_string b (Printf.sprintf " L%s F%s" (si (layout_len s)) (si s.file_len));
  let rf = L.mapi (fun i o -> (i, o)) s.rfile in
  Buffer.add_string b (Printf.sprintf " R[%s]#%d"
    (S.concat "," (L.filter_map (fun (i, o) -> match o with
       | Some (((a, l), r), id) -> Some (Printf.sprintf "%d=%s/%s/%s/%s" i (si id) (si a) (si l) (si r))
       | None -> None) rf))
    (L.length s.rfile));
  Buffer.contents b

(* SplitMix64 exactly as harness/src/rng.rs *)
let sm_state = ref 0L
let sm_new (seed : int64) = sm_state := Int64.logxor seed 0x9E3779B97F4A7C15L
let sm_next () : int64 =
  sm_state := Int64.add !sm_state 0x9E3779B97F4A7C15L;
  let z = !sm_state in
  let z = Int64.mul (Int64.logxor z (Int64.shift_right_logical z 30)) 0xBF58476D1CE4E5B9L in
  let z = Int64.mul (Int64.logxor z (Int64.shift_right_logical z 27)) 0x94D049BB133111EBL in
  Int64.logxor z (Int64.shift_right_logical z 31)
let sm_below (n : int64) : int64 = if n = 0L then 0L else Int64.unsigned_rem (sm_next ()) n

let sample_offsets (len : int) (step : int) (id : int) : int list =
  if len = 0 then [] else begin
    let v = ref [0; len - 1; len / 2] in
    L.iter (fun p -> if p < len then v := !v @ [p]) [4095; 4096; 8191; 8192];
    sm_new (Int64.logxor (Int64.mul (Int64.of_int step) 1000003L) (Int64.mul (Int64.of_int id) 7919L));
    for _ = 1 to 12 do v := !v @ [Int64.to_int (sm_below (Int64.of_int len))] done;
    !v
  end

let samples (s : st) (step : int) : string =
  let live = L.filter_map (fun o -> o) s.slots in
  let live = L.sort (fun a b -> compare (int_of_n a.r_id) (int_of_n b.r_id)) live in
  if live = [] then "-" else
  S.concat " " (L.map (fun m ->
    let len = int_of_n m.r_len and id = int_of_n m.r_id in
    let start = z_of_n m.r_start in
    let vals = L.map (fun o -> si (s.mem (n_of_z (Z.add start (Z.of_int o))))) (sample_offsets len step id) in
    Printf.sprintf "%d@%d:%s" id len (S.concat "." vals)) live)

let inv_verdict (s : st) (step : int) : string list =
  if InvBool.inv_b s then [] else begin
    let cl = InvBool.inv_clauses s in
    let rec first i = function [] -> -1 | b :: r -> if b then first (i + 1) r else i in
    [ Printf.sprintf "S C02:inv-b-false-on-agreed-state clause=%d step=%d" (first 0 cl) step ]
  end

let exec (t : string list) : string list =
  match t with
  | cfg :: ops ->
      let min_len = n_of_string (L.nth (S.split_on_char ':' cfg) 1) in
      let s = ref (init min_len) in
      let out = ref (L.rev_append (inv_verdict !s (-1)) [ "init " ^ dump !s ]) in
      let stop = ref false in
      L.iteri (fun step o ->
        if not !stop && o <> "" then begin
          let (s', r) = step_total !s (parse_op o) in
          s := s';
          let rs = match r with
            | Ok OUnit -> "ok"
            | Ok (ONum n) -> "ok:" ^ si n
            | Err e -> "err:" ^ err_name e
            | Panic -> stop := true; "panic" in
          if !stop then out := Printf.sprintf "%d %s" step rs :: !out
          else out := L.rev_append (inv_verdict !s step)
                        (Printf.sprintf "%d %s %s | %s" step rs (dump !s) (samples !s step) :: !out)
        end) ops;
      L.rev !out
  | [] -> [ "bad-input" ]
