(* conv.ml — conversions between OCaml values and the extracted Coq numbers, and the
   token syntax shared with the Rust harness. *)
open BinNums
open Datatypes
module L = Stdlib.List
module Str_ = Stdlib.String

let rec pos_of_z (z : Z.t) : positive =
  if Z.equal z Z.one then Coq_xH
  else if Z.is_even z then Coq_xO (pos_of_z (Z.shift_right z 1))
  else Coq_xI (pos_of_z (Z.shift_right z 1))

let n_of_z (z : Z.t) : coq_N = if Z.sign z <= 0 then N0 else Npos (pos_of_z z)
let n_of_int (i : int) : coq_N = n_of_z (Z.of_int i)
let n_of_string (s : string) : coq_N = n_of_z (Z.of_string s)

let rec z_of_pos (p : positive) : Z.t =
  match p with
  | Coq_xH -> Z.one
  | Coq_xO q -> Z.shift_left (z_of_pos q) 1
  | Coq_xI q -> Z.succ (Z.shift_left (z_of_pos q) 1)

let z_of_n (x : coq_N) : Z.t = match x with N0 -> Z.zero | Npos p -> z_of_pos p
let int_of_n (x : coq_N) : int = Z.to_int (z_of_n x)
let string_of_n (x : coq_N) : string = Z.to_string (z_of_n x)

let rec nat_of_int (i : int) : nat = if i <= 0 then O else S (nat_of_int (i - 1))
let rec int_of_nat (x : nat) : int = match x with O -> 0 | S k -> 1 + int_of_nat k

(* byte tables so that converting a byte is a lookup *)
let byte_tab : coq_N array = Array.init 256 n_of_int

let bytes_of_string (s : string) : coq_N list =
  let r = ref [] in
  for i = String.length s - 1 downto 0 do r := byte_tab.(Char.code s.[i]) :: !r done; !r

let hexdigit c = match c with
  | '0'..'9' -> Char.code c - 48 | 'a'..'f' -> Char.code c - 87 | 'A'..'F' -> Char.code c - 55
  | _ -> failwith "hex"

let unhex (s : string) : string =
  if s = "-" then "" else
  String.init (String.length s / 2) (fun i -> Char.chr (16 * hexdigit s.[2*i] + hexdigit s.[2*i+1]))

let hex_of_bytes (l : coq_N list) : string =
  if l = [] then "-" else
  String.concat "" (L.map (fun b -> Printf.sprintf "%02x" (int_of_n b)) l)

(* compact byte-string syntax: segments separated by ',' : h<hex> | z<count> | r<byte>x<count> *)
let spec_to_string (spec : string) : string =
  if spec = "-" then "" else
  let b = Buffer.create 4096 in
  L.iter (fun seg ->
    let k = seg.[0] and rest = String.sub seg 1 (String.length seg - 1) in
    match k with
    | 'h' -> Buffer.add_string b (unhex rest)
    | 'z' -> Buffer.add_string b (String.make (int_of_string rest) '\000')
    | 'r' -> (match String.split_on_char 'x' rest with
              | [v; c] -> Buffer.add_string b (String.make (int_of_string c) (Char.chr (int_of_string v)))
              | _ -> failwith "spec")
    | _ -> failwith "spec") (String.split_on_char ',' spec);
  Buffer.contents b

let spec_to_bytes (spec : string) : coq_N list = bytes_of_string (spec_to_string spec)

let fnv (l : coq_N list) : string =
  let h = ref (Z.of_string "0xcbf29ce484222325") in
  let m = Z.of_string "0x100000001b3" and mask = Z.pred (Z.shift_left Z.one 64) in
  let k = ref 0 in
  L.iter (fun b -> incr k; h := Z.logand (Z.mul (Z.logxor !h (z_of_n b)) m) mask) l;
  Printf.sprintf "%d:%016s" !k (Z.format "%x" !h) |> String.map (fun c -> if c = ' ' then '0' else c)
