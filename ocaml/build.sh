#!/bin/sh
# Builds the OCaml driver around the extracted model (model.ml is produced by coq/Extract/Extract.v).
set -e
cd "$(dirname "$0")"
ocamlfind ocamlopt -O3 -unboxed-types 2>/dev/null >/dev/null || true
ocamlfind ocamlopt -w -a -package zarith,str -linkpkg model.mli model.ml conv.ml eng_codec.ml main.ml -o driver
