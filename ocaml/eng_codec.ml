(* eng_codec.ml — model side of engine `codec` (C17). *)
open BinNums
open Datatypes
open Base
open Conv
open Meta
open Vecdb
module L = Stdlib.List

let meta_err = function
  | InvalidMetadataSize -> "InvalidMetadataSize" | EmptyMetadata -> "EmptyMetadata"
  | CorruptedMetadata -> "CorruptedMetadata" | InvalidRegionId -> "InvalidRegionId"
let verr = function
  | WrongLength -> "WrongLength" | InvalidFormat -> "InvalidFormat" | Overflow -> "Overflow" | Underflow -> "Underflow"

let show_res ferr fok = function
  | Ok a -> "ok " ^ fok a
  | Err e -> "err " ^ ferr e
  | Panic -> "panic"

let exec1 (t : string list) : string =
  match t with
  | ["meta_dec"; spec] ->
      show_res meta_err (fun m -> Printf.sprintf "%s %s %s %s" (string_of_n m.m_start) (string_of_n m.m_len)
                                    (string_of_n m.m_reserved) (hex_of_bytes m.m_id))
        (meta_from_bytes (spec_to_bytes spec))
  | ["meta_enc"; s; l; r; id] ->
      let m = { m_start = n_of_string s; m_len = n_of_string l; m_reserved = n_of_string r;
                m_id = bytes_of_string (unhex id) } in
      (* RegionMetadata::new asserts valid_new; a failed assert is a panic *)
      if valid_new m then "ok " ^ fnv (meta_to_bytes m) else "panic"
  | ["hdr_dec"; spec] ->
      show_res verr (fun h -> Printf.sprintf "%s %s %s %s %s" (string_of_n h.h_hv) (string_of_n h.h_vv)
                                (string_of_n h.h_cv) (string_of_n h.h_stamp) (string_of_n h.h_format))
        (header_from_bytes (spec_to_bytes spec))
  | ["hdr_enc"; hv; vv; cv; st; f] ->
      "ok " ^ hex_of_bytes (header_to_bytes { h_hv = n_of_string hv; h_vv = n_of_string vv; h_cv = n_of_string cv;
                                              h_stamp = n_of_string st; h_format = n_of_string f })
  | ["page_dec"; spec] ->
      show_res verr (fun p ->
          let e = Z.logand (Z.add (z_of_n p.p_start) (z_of_n p.p_bytes)) (Z.pred (Z.shift_left Z.one 64)) in
          Printf.sprintf "%s %s %s %d %s %s" (string_of_n p.p_start) (string_of_n p.p_bytes) (string_of_n p.p_values)
            (if page_is_raw p then 1 else 0) (string_of_n (page_values_count p)) (Z.to_string e))
        (page_from_bytes (spec_to_bytes spec))
  | ["page_enc"; s; b; v; raw] ->
      let v = if raw = "1" then Z.add (Z.of_string v) (z_of_n Consts.coq_RAW_FLAG) else Z.of_string v in
      "ok " ^ hex_of_bytes (page_to_bytes { p_start = n_of_string s; p_bytes = n_of_string b; p_values = n_of_z v })
  | ["num_dec"; w; spec] ->
      show_res verr string_of_n (num_from_bytes (nat_of_int (int_of_string w)) (spec_to_bytes spec))
  | ["num_enc"; w; v] -> "ok " ^ hex_of_bytes (num_to_bytes (nat_of_int (int_of_string w)) (n_of_string v))
  | ["arr_dec"; n; spec] ->
      show_res verr hex_of_bytes (arr_from_bytes (nat_of_int (int_of_string n)) (spec_to_bytes spec))
  | ["fill"; spec] ->
      show_res meta_err (fun slots ->
          if slots = [] then "-" else
          String.concat " " (L.mapi (fun i o -> match o with
            | None -> Printf.sprintf "%d:none" i
            | Some m -> Printf.sprintf "%d:%s:%s:%s:%s" i (string_of_n m.m_start) (string_of_n m.m_len)
                          (string_of_n m.m_reserved) (hex_of_bytes m.m_id)) slots))
        (fill_file (spec_to_bytes spec))
  | _ -> "err UnknownCase"

let exec (t : string list) : string list = [exec1 t]
