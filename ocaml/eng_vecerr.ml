(* eng_vecerr.ml — engine `vecerr` (C13, vecdb part) has implementation-only oracles; the model
   side merely acknowledges each case.  The corresponding theorems about the models are
   C14_plain_mismatch / C14_import_never_touches (import), C16_fail_single / C16_comp_fail_single
   (rollback) and C03_step_refines (checked push). *)
let exec (_ : string list) : string list = [ "done" ]
