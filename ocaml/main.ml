(* main.ml — reads the harness's `I <id> <tokens>` lines on stdin and prints the model's
   expectation `E <id> <tokens>` for each. *)
let () =
  let engine = if Array.length Sys.argv > 1 then Sys.argv.(1) else "" in
  let exec = match engine with
    | "codec" -> Eng_codec.exec
    | _ -> prerr_endline ("unknown engine " ^ engine); exit 2 in
  (try
    while true do
      let line = input_line stdin in
      match String.split_on_char ' ' line with
      | "I" :: id :: toks ->
          let r = (try exec toks with Stack_overflow -> "model-stack-overflow" | Failure m -> "model-failure " ^ m) in
          print_string "E "; print_string id; print_char ' '; print_endline r
      | _ -> ()
    done
  with End_of_file -> ())
