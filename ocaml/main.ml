(* main.ml — reads the harness's `I <id> <tokens>` lines on stdin and prints the model's
   expectations, one `E <id> <tokens>` line per observation the harness printed. *)
let () =
  let engine = if Array.length Sys.argv > 1 then Sys.argv.(1) else "" in
  let exec = match Stdlib.List.assoc_opt engine Engines.table with
    | Some f -> f
    | None -> prerr_endline ("unknown engine " ^ engine); exit 2 in
  (try
    while true do
      let line = input_line stdin in
      match Stdlib.String.split_on_char ' ' line with
      | "I" :: id :: toks ->
          let rs = (try exec toks with Stack_overflow -> ["model-stack-overflow"] | Failure m -> ["model-failure " ^ m]
                                     | Not_found -> ["model-not-found"] | Invalid_argument m -> ["model-invalid-arg " ^ m]) in
          Stdlib.List.iter (fun r ->
            if Stdlib.String.length r > 2 && Stdlib.String.sub r 0 2 = "S " then
              (print_string "S "; print_string id; print_char ' '; print_endline (Stdlib.String.sub r 2 (Stdlib.String.length r - 2)))
            else (print_string "E "; print_string id; print_char ' '; print_endline r)) rs
      | _ -> ()
    done
  with End_of_file -> ())
