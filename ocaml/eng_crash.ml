(* eng_crash.ml — model side of engine `crash` (C05, C12): evaluates the extracted crash
   monitor (Rawdb/Crash.v, proved sound for every crash point and page choice) on the abstract
   durability trace the instrumented implementation produced. *)
open BinNums
open Datatypes
open Conv
open Crash
module L = Stdlib.List
module S = Stdlib.String

let parse_ev (s : string) : cev option =
  let t = S.split_on_char ':' s in
  let n i = n_of_string (L.nth t i) in
  match L.hd t with
  | "sl" -> Some (CSetLen (n 1))
  | "op" -> Some (COp (if L.length t > 1 && L.nth t 1 <> "" then L.map n_of_string (S.split_on_char '+' (L.nth t 1)) else []))
  | "end" -> Some CEnd
  | "mw" -> if L.nth t 2 = "z" then Some (CMeta (n 1, None))
            else Some (CMeta (n 1, Some (((n 2, n 3), n 4), n 5)))
  | "dw" -> Some (CData (n 1, n 2, (fun _ -> N0)))
  | "pu" -> Some (CPunch (n 1, n 2))
  | "ds" -> Some CDataSync
  | "ms" -> Some CMetaSync
  | "pr" -> Some CPromote
  | "fl" -> Some CFlushed
  | "fr" -> Some CRegionFlushed
  | _ -> None

let exec (t : string list) : string list =
  let rec after_bar = function [] -> [] | "|" :: r -> r | _ :: r -> after_bar r in
  let toks = after_bar t in
  let evs = L.filter_map parse_ev toks in
  match mon_first_bad mon_init evs N0 with
  | None -> [ "monitor ok" ]
  | Some k ->
      let k = int_of_n k in
      let ev = L.nth (L.filter (fun s -> parse_ev s <> None) toks) k in
      let key = match S.split_on_char ':' ev with
        | "mw" :: _ -> "C05:crash-monitor-rejects-metadata-write"
        | "dw" :: _ -> "C05:crash-monitor-rejects-data-write"
        | "pu" :: _ -> "C12:crash-monitor-rejects-punch"
        | "ms" :: _ -> "C05:crash-monitor-metadata-synced-before-data"
        | "fl" :: _ -> "C05:crash-monitor-flush-returned-with-unsynced-writes"
        | _ -> "C05:crash-monitor-rejects-event" in
      [ "monitor ok"; Printf.sprintf "S %s event=%d token=%s" key k ev ]
