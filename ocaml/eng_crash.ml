(* eng_crash.ml — model side of engine `crash` (C05, C12):
   (a) evaluates the extracted crash monitor (Rawdb/Crash.v, proved sound for every crash point
       and page choice) on the abstract durability trace the instrumented implementation produced;
   (b) model-level tie: replays the history of the `I` line on the extracted allocator model
       (Rawdb/Alloc.v) with the event semantics of Rawdb/AllocEvents.v (`step_events_o`) and prints
       the model's trace in canonical form; the harness prints the implementation's trace in the
       same canonical form, so O<>E flags any divergence token for token (data content ignored).
       Canonical form: ids of an `op` token sorted; maximal runs of `mw:<slot>:z` tokens sorted by
       slot (retain_regions removes in HashMap order); maximal runs of `pu` tokens sorted by offset
       (punch_holes punches layout holes in parallel).  The punch oracle of the k-th operation
       (approx_has_punchable_data's outcome, which depends on byte contents) is read off the
       implementation's trace: a candidate range is punched iff the implementation punched it;
       a punch of the implementation outside the model's candidates therefore shows up as O<>E. *)
open BinNums
open Datatypes
open Conv
open Crash
module L = Stdlib.List
module S = Stdlib.String

let parse_ev (s : string) : cev option =
  let t = S.split_on_char ':' s in
  let n i = n_of_string (L.nth t i) in
  match L.hd t with
  | "sl" -> Some (CSetLen (n 1))
  | "op" -> Some (COp (if L.length t > 1 && L.nth t 1 <> "" then L.map n_of_string (S.split_on_char '+' (L.nth t 1)) else []))
  | "end" -> Some CEnd
  | "mw" -> if L.nth t 2 = "z" then Some (CMeta (n 1, None))
            else Some (CMeta (n 1, Some (((n 2, n 3), n 4), n 5)))
  | "dw" -> Some (CData (n 1, n 2, (fun _ -> N0)))
  | "pu" -> Some (CPunch (n 1, n 2))
  | "ds" -> Some CDataSync
  | "ms" -> Some CMetaSync
  | "pr" -> Some CPromote
  | "fl" -> Some CFlushed
  | "fr" -> Some CRegionFlushed
  | _ -> None

(* ---- the model's trace ------------------------------------------------------------------------ *)
let zero_fun : coq_N -> coq_N = fun _ -> N0

let parse_op (s : string) : Alloc.op =
  let t = S.split_on_char ':' s in
  let n i = n_of_string (L.nth t i) in
  let ii i = int_of_string (L.nth t i) in
  match L.hd t with
  | "c" -> Alloc.Create (n 1, ii 2 = 1)
  | "w" -> Alloc.Write (n 1, zero_fun, n 3)
  | "a" -> Alloc.WriteAt (n 1, zero_fun, n 3, n 4)
  | "tw" -> Alloc.TruncWrite (n 1, zero_fun, n 3, n 4)
  | "t" -> Alloc.Truncate (n 1, n 2)
  | "mv" -> Alloc.Rename (n 1, n 2)
  | "rm" -> Alloc.Remove (n 1)
  | "dh" -> Alloc.DropHandle (n 1)
  | "ret" -> Alloc.Retain (if L.length t > 1 && L.nth t 1 <> "" then L.map n_of_string (S.split_on_char '+' (L.nth t 1)) else [])
  | "f" -> Alloc.Flush
  | "fr" -> Alloc.FlushRegion (n 1)
  | "cp" -> Alloc.Compact
  | "ro" -> Alloc.Reopen
  | "ml" -> Alloc.SetMinLen (n 1)
  | "mr" -> Alloc.SetMinRegions (n 1)
  | _ -> failwith ("bad op " ^ s)

let si = string_of_n

let show_ev (e : cev) : string =
  match e with
  | CSetLen n -> "sl:" ^ si n
  | COp ids -> "op:" ^ S.concat "+" (L.map si ids)
  | CEnd -> "end"
  | CMeta (i, None) -> "mw:" ^ si i ^ ":z"
  | CMeta (i, Some (((a, l), r), id)) -> Printf.sprintf "mw:%s:%s:%s:%s:%s" (si i) (si a) (si l) (si r) (si id)
  | CData (off, len, _) -> Printf.sprintf "dw:%s:%s" (si off) (si len)
  | CPunch (off, len) -> Printf.sprintf "pu:%s:%s" (si off) (si len)
  | CDataSync -> "ds"
  | CMetaSync -> "ms"
  | CPromote -> "pr"
  | CFlushed -> "fl"
  | CRegionFlushed -> "fr"

let zkey (s : string) : Z.t = Z.of_string s
let field (tok : string) (i : int) : string = L.nth (S.split_on_char ':' tok) i
let is_prefix p s = S.length s >= S.length p && S.sub s 0 (S.length p) = p
let is_mwz tok = is_prefix "mw:" tok && (match S.split_on_char ':' tok with [_; _; "z"] -> true | _ -> false)
let is_pu tok = is_prefix "pu:" tok

(* canonical form (the same function as `canon` in harness/src/eng_crash.rs) *)
let canon (toks : string list) : string list =
  let norm_op tok =
    if is_prefix "op:" tok then begin
      let body = S.sub tok 3 (S.length tok - 3) in
      if body = "" then tok else
      let ids = L.sort Z.compare (L.map zkey (S.split_on_char '+' body)) in
      "op:" ^ S.concat "+" (L.map Z.to_string ids)
    end else tok in
  let toks = L.map norm_op toks in
  let rec runs pred key acc = function
    | [] -> L.rev acc
    | x :: _ as l when pred x ->
        let rec take r = function y :: t when pred y -> take (y :: r) t | rest -> (L.rev r, rest) in
        let (run, rest) = take [] l in
        let run = L.stable_sort (fun a b -> Z.compare (key a) (key b)) run in
        runs pred key (L.rev_append run acc) rest
    | x :: t -> runs pred key (x :: acc) t in
  let toks = runs is_mwz (fun t -> zkey (field t 1)) [] toks in
  runs is_pu (fun t -> zkey (field t 1)) [] toks

(* the punch ranges of each operation of the implementation's trace: segment k starts at the k-th `op` token *)
let punch_sets (toks : string list) : (string * string) list array =
  let segs = ref [] and cur = ref None in
  L.iter (fun tok ->
    if is_prefix "op:" tok then begin
      (match !cur with Some c -> segs := L.rev c :: !segs | None -> ());
      cur := Some []
    end else if is_pu tok then
      (match !cur with Some c -> cur := Some ((field tok 1, field tok 2) :: c) | None -> ())) toks;
  (match !cur with Some c -> segs := L.rev c :: !segs | None -> ());
  Array.of_list (L.rev !segs)

let model_trace (cfg : string) (ops : string list) (impl : string list) : string list =
  let min_len = n_of_string (L.nth (S.split_on_char ':' cfg) 1) in
  let punched = punch_sets impl in
  let s = ref (Alloc.init min_len) in
  let out = ref [ "sl:" ^ si min_len ] in
  let stop = ref false in
  L.iteri (fun k o ->
    if not !stop && o <> "" then begin
      let set = if k < Array.length punched then punched.(k) else [] in
      let orc off len = L.mem (si off, si len) set in
      let op = parse_op o in
      let evs = AllocEvents.step_events_o orc !s op in
      L.iter (fun e -> out := show_ev e :: !out) evs;
      let (s', r) = Alloc.step_total !s op in
      s := s';
      (match r with Base.Panic -> stop := true | _ -> ())
    end) ops;
  L.rev !out

let exec (t : string list) : string list =
  let rec split_bar acc = function [] -> (L.rev acc, []) | "|" :: r -> (L.rev acc, r) | x :: r -> split_bar (x :: acc) r in
  let (hist, toks) = split_bar [] t in
  let evs = L.filter_map parse_ev toks in
  let tie =
    match hist with
    | cfg :: ops ->
        (try "trace " ^ S.concat " " (canon (model_trace cfg ops toks))
         with Failure m -> "trace model-failure " ^ m)
    | [] -> "trace bad-input" in
  match mon_first_bad mon_init evs N0 with
  | None -> [ "monitor ok"; tie ]
  | Some k ->
      let k = int_of_n k in
      let ev = L.nth (L.filter (fun s -> parse_ev s <> None) toks) k in
      let key = match S.split_on_char ':' ev with
        | "mw" :: _ -> "C05:crash-monitor-rejects-metadata-write"
        | "dw" :: _ -> "C05:crash-monitor-rejects-data-write"
        | "pu" :: _ -> "C12:crash-monitor-rejects-punch"
        | "ms" :: _ -> "C05:crash-monitor-metadata-synced-before-data"
        | "fl" :: _ -> "C05:crash-monitor-flush-returned-with-unsynced-writes"
        | _ -> "C05:crash-monitor-rejects-event" in
      [ "monitor ok"; tie; Printf.sprintf "S %s event=%d token=%s" key k ev ]
