(* eng_compvecx.ml — cross-check of the extraction (DESIGN.md 2.2): for an input line of engine `compvec`
   prints the digest of the whole run computed by the EXTRACTED model and the Coq source that computes the
   same digest with vm_compute.  Driven by tools/cv_crosscheck.py; has no harness side. *)
open BinNums
open Conv
module L = Stdlib.List
module S = Stdlib.String

let nlist (l : coq_N list) : string = "[" ^ S.concat "; " (L.map string_of_n l) ^ "]"

let exec (t : string list) : string list =
  match t with
  | fmt :: ty :: ver :: kk :: ops ->
      let w = Eng_compvec.width_of ty in
      let wn = nat_of_int w in
      let ver = match S.split_on_char '=' ver with [_; v] -> int_of_string v | _ -> failwith "version" in
      let kk = match S.split_on_char '=' kk with ["k"; v] -> n_of_string v | _ -> failwith "retention" in
      let adds = int_of_n Consts.coq_COMP_FORCED_OWN_ADDS + int_of_n Consts.coq_COMP_IMPORT_ADDS in
      let vver = n_of_int (ver + adds * int_of_n Consts.coq_COMP_LAYER_VERSION) in
      let fc = Eng_compvec.fmt_code fmt in
      let parsed = L.map (fun tok ->
        match S.split_on_char ':' tok with
        | ["p"; spec] -> let vs = Eng_compvec.parse_vspec w spec in
            (CvModel.Push (CvInst.x_mk_list wn vs), Printf.sprintf "Push (x_mk_list %d %s)" w (nlist vs))
        | ["t"; n] -> (CvModel.Trunc (n_of_string n), "Trunc " ^ n)
        | ["w"; h] -> let hs = Eng_compvec.parse_hints h in (CvModel.Write hs, "Write " ^ nlist hs)
        | ["f"; h] -> let hs = Eng_compvec.parse_hints h in (CvModel.Flush hs, "Flush " ^ nlist hs)
        | ["s"; st; h] -> let hs = Eng_compvec.parse_hints h in
            (CvModel.StampedWrite (n_of_string st, hs), Printf.sprintf "StampedWrite %s %s" st (nlist hs))
        | ["r"] -> (CvModel.Reset, "Reset")
        | ["i"] | ["o"] -> (CvModel.Reimport, "Reimport")
        | ["b"] -> (CvModel.Rollback, "Rollback")
        | ["bb"; st] -> (CvModel.RollbackBefore (n_of_string st), "RollbackBefore " ^ st)
        | _ -> failwith ("op " ^ tok)) ops in
      let d = CvInst.x_trace_digest wn fc vver kk (L.map fst parsed) in
      [ "digest " ^ string_of_n d;
        Printf.sprintf "coq (x_trace_digest %d %s %s %s [%s])" w (string_of_n fc) (string_of_n vver) (string_of_n kk)
          (S.concat "; " (L.map snd parsed)) ]
  | _ -> ["err UnknownCase"]
