(* eng_compvec.ml — model side of engine `compvec` (C07, compressed half of C03).
   Input tokens:  <fmt> <ty> v=<options.version> k=<saved_stamped_changes> <op>...
     fmt  pco | lz4 | zstd | epco | elz4 | ezstd           (e* = EagerVec wrapper: delegates)
     ty   u8 | u16 | u32 | u64 | i64 | f32 | f64 | u128 | a3      (a3 = [u8; 3])
     op   p:<vspec>          push       vspec = <class>.<seed>.<count> | x<hex of LE values>
          t:<n>              truncate_if_needed_at(n)
          w:<hints>          write()    hints = real `bytes` of every page on disk after the op ("-" = none)
          f:<hints>          flush() + Database::flush()
          s:<stamp>:<hints>  stamped_write_with_changes(stamp)   (a commit when k > 0)
          b                  rollback()            bb:<stamp>   rollback_before(stamp)
          r                  reset()
          i | o              drop + forced_import_with  (o: also close and reopen the Database)
          xd:<st> | xt:<st>:<n> | xo:<st>:<off>:<value>
                             faults on the change file of stamp st (CvFault.cv_fault): delete, keep the
                             first n bytes, overwrite the u64 at byte offset off
   One observation line per step (step 0 = the initial import).  A rollback that follows a fault and
   leaves a length the data does not back (above 2^24 values, or stored_len above the on-disk length)
   is observed as `<k> <res> len=beyond` and ends the case (the real vector is not read there). *)
open BinNums
open Datatypes
open Base
open Conv
module L = Stdlib.List
module S = Stdlib.String

let () = Gc.set { (Gc.get ()) with Gc.minor_heap_size = 4 * 1024 * 1024; Gc.space_overhead = 400 }

(* ---- SplitMix64 and the value classes, identical to harness/src/eng_compvec.rs ------------- *)
let sm_next (st : int64 ref) : int64 =
  st := Int64.add !st 0x9E3779B97F4A7C15L;
  let z = !st in
  let z = Int64.mul (Int64.logxor z (Int64.shift_right_logical z 30)) 0xBF58476D1CE4E5B9L in
  let z = Int64.mul (Int64.logxor z (Int64.shift_right_logical z 27)) 0x94D049BB133111EBL in
  Int64.logxor z (Int64.shift_right_logical z 31)

let mask_w (w : int) (x : int64) : int64 =
  if w >= 8 then x else Int64.logand x (Int64.pred (Int64.shift_left 1L (8 * w)))

(* one value = (lo, hi) 64-bit halves; hi only used for w = 16 *)
let gen_value (cls : char) (w : int) (seed : int64) (i : int) (st : int64 ref) : int64 * int64 =
  let bits = 8 * (if w > 8 then 8 else w) in
  let maxv = mask_w w (-1L) in
  let sign = Int64.shift_left 1L (bits - 1) in
  let lo =
    match cls with
    | 'q' -> mask_w w (Int64.add seed (Int64.of_int i))
    | 'c' -> mask_w w seed
    | 's' -> Int64.logand (sm_next st) 0xffL
    | 'e' ->
        let x = sm_next st in
        (match Int64.to_int (Int64.unsigned_rem x 8L) with
         | 0 -> 0L | 1 -> 1L | 2 -> maxv | 3 -> Int64.pred maxv | 4 -> sign
         | 5 -> mask_w w (Int64.pred sign) | 6 -> mask_w w (Int64.succ sign) | _ -> mask_w w (Int64.shift_right_logical x 3))
    | 'f' when w = 4 || w = 8 ->
        let x = sm_next st in
        let mant = if w = 4 then 23 else 52 in
        let expmask = Int64.shift_left (Int64.pred (Int64.shift_left 1L (bits - 1 - mant))) mant in
        let mantmask = Int64.pred (Int64.shift_left 1L mant) in
        let payload = Int64.logor (Int64.logand (Int64.shift_right_logical x 8) mantmask) 1L in
        let quiet = Int64.shift_left 1L (mant - 1) in
        (match Int64.to_int (Int64.unsigned_rem x 12L) with
         | 0 -> 0L | 1 -> sign | 2 -> expmask | 3 -> Int64.logor sign expmask
         | 4 -> Int64.logor expmask quiet
         | 5 -> Int64.logor expmask (Int64.logand payload (Int64.lognot quiet))
         | 6 -> Int64.logor sign (Int64.logor expmask payload)
         | 7 -> 1L | 8 -> mantmask | 9 -> Int64.shift_left 1L mant
         | 10 -> Int64.logor (Int64.logand expmask (Int64.lognot (Int64.shift_left 1L mant))) mantmask
         | _ -> mask_w w (Int64.shift_right_logical x 4))
    | _ -> mask_w w (sm_next st) in
  let hi = if w > 8 then (match cls with 'q' | 'c' | 's' -> 0L | _ -> sm_next st) else 0L in
  (lo, hi)

let z_of_u64 (x : int64) : Z.t =
  if Int64.compare x 0L >= 0 then Z.of_int64 x
  else Z.add (Z.of_int64 x) (Z.shift_left Z.one 64)

let n_of_halves (lo, hi) : coq_N =
  if hi = 0L then n_of_z (z_of_u64 lo) else n_of_z (Z.add (z_of_u64 lo) (Z.shift_left (z_of_u64 hi) 64))

let parse_vspec (w : int) (spec : string) : coq_N list =
  if S.length spec > 0 && spec.[0] = 'x' then begin
    let raw = unhex (S.sub spec 1 (S.length spec - 1)) in
    let n = S.length raw / w in
    L.init n (fun i ->
      let z = ref Z.zero in
      for j = w - 1 downto 0 do z := Z.add (Z.shift_left !z 8) (Z.of_int (Char.code raw.[i * w + j])) done;
      n_of_z !z)
  end else
    match S.split_on_char '.' spec with
    | [c; seed; count] ->
        let seed = Int64.of_string ("0u" ^ seed) and count = int_of_string count in
        let st = ref (Int64.logxor seed 0x9E3779B97F4A7C15L) in
        L.init count (fun i -> n_of_halves (gen_value c.[0] w seed i st))
    | _ -> failwith "vspec"

(* ---- digest of a value list: count:FNV-1a-64 over the little-endian bytes ------------------- *)
let fnv_prime = 0x100000001b3L
let digest (w : int) (vals : coq_N list) : string =
  let h = ref 0xcbf29ce484222325L and cnt = ref 0 in
  let buf = Bytes.make w '\000' in
  let rec fill (p : positive) (bit : int) =
    match p with
    | Coq_xH -> Bytes.unsafe_set buf (bit lsr 3) (Char.unsafe_chr (Char.code (Bytes.unsafe_get buf (bit lsr 3)) lor (1 lsl (bit land 7))))
    | Coq_xO q -> fill q (bit + 1)
    | Coq_xI q ->
        Bytes.unsafe_set buf (bit lsr 3) (Char.unsafe_chr (Char.code (Bytes.unsafe_get buf (bit lsr 3)) lor (1 lsl (bit land 7))));
        fill q (bit + 1) in
  L.iter (fun v ->
    incr cnt;
    Bytes.fill buf 0 w '\000';
    (match v with N0 -> () | Npos p -> fill p 0);
    for j = 0 to w - 1 do
      h := Int64.mul (Int64.logxor !h (Int64.of_int (Char.code (Bytes.unsafe_get buf j)))) fnv_prime
    done) vals;
  Printf.sprintf "%d:%016Lx" !cnt !h

let cverr_name (e : CvPages.cverr) : string =
  let open CvPages in
  match e with
  | ECorruptedRegion -> "CorruptedRegion" | EUnexpectedIndex -> "UnexpectedIndex"
  | EExpectVecToHaveIndex -> "ExpectVecToHaveIndex" | EDecompressionMismatch -> "DecompressionMismatch"
  | EWrongLength -> "WrongLength" | EDifferentVersion -> "DifferentVersion" | EDifferentFormat -> "DifferentFormat"
  | EInvalidFormat -> "InvalidFormat" | EUnderflow -> "Underflow" | EOverflow -> "Overflow" | EIo -> "IO"
  | EIndexTooHigh -> "IndexTooHigh" | EStampMismatch -> "StampMismatch"
  | ERawdb CvRegion.WriteOutOfBounds -> "WriteOutOfBounds" | ERawdb CvRegion.TruncateInvalid -> "TruncateInvalid"

let width_of = function
  | "u8" -> 1 | "u16" -> 2 | "u32" | "f32" -> 4 | "u64" | "i64" | "f64" -> 8 | "u128" -> 16 | "a3" -> 3
  | _ -> failwith "type"

let fmt_code = function
  | "pco" | "epco" -> Consts.coq_FORMAT_PCO
  | "lz4" | "elz4" -> Consts.coq_FORMAT_LZ4
  | "zstd" | "ezstd" -> Consts.coq_FORMAT_ZSTD
  | _ -> failwith "format"

let parse_hints (s : string) : coq_N list =
  if s = "-" || s = "" then [] else L.map n_of_string (S.split_on_char ',' s)

let regime_name (r : CvModel.regime) : string =
  let open CvModel in
  match r with
  | RNoop -> "noop" | RFast -> "fast" | RReencode -> "reenc" | RFresh -> "fresh" | RTruncOnly -> "trunc" | RError -> "error"

let observe (k : int) (w : int) (wn : nat) (res : string) (rg : string) (s : coq_N CvModel.cvs) : string =
  let open CvModel in
  let coll = match CvInst.x_collect wn s with
    | Ok vs -> digest w (CvInst.x_vals wn vs)
    | Err e -> "err:" ^ cverr_name e
    | Panic -> "panic" in
  let hd = L.map CvRegion.cell_byte (Base.take Sizes.coq_HEADER_OFFSET s.s_data) in
  let ch = match s.s_changes with
    | None -> "x"
    | Some [] -> "-"
    | Some l -> S.concat "," (L.map (fun (st, bs) -> string_of_n st ^ ":" ^ fnv bs) l) in
  Printf.sprintf "%d %s rg=%s len=%s st=%s c=%s sl=%s pl=%d rl=%s dl=%d hd=%s pg=%s ch=%s"
    k res rg (string_of_n (cv_len s)) (string_of_n (cv_stamp s)) coll (string_of_n s.s_stored_len)
    (L.length s.s_pushed) (string_of_n (CvInst.x_real_stored_len wn s)) (L.length s.s_data)
    (hex_of_bytes hd) (hex_of_bytes s.s_pg.CvPages.pg_disk) ch

let exec (t : string list) : string list =
  match t with
  | fmt :: ty :: ver :: kk :: ops ->
      let w = width_of ty in
      let wn = nat_of_int w in
      let ver = match S.split_on_char '=' ver with [_; v] -> int_of_string v | _ -> failwith "version" in
      let kk = match S.split_on_char '=' kk with ["k"; v] -> n_of_string v | _ -> failwith "retention" in
      let adds = int_of_n Consts.coq_COMP_FORCED_OWN_ADDS + int_of_n Consts.coq_COMP_IMPORT_ADDS in
      let vver = n_of_int (ver + adds * int_of_n Consts.coq_COMP_LAYER_VERSION) in
      let fc = fmt_code fmt in
      (match CvInst.x_import wn fc vver kk [] [] with
       | Err e -> ["0 err:" ^ cverr_name e]
       | Panic -> ["0 panic"]
       | Ok s0 ->
           let out = ref [observe 0 w wn "ok0" "-" s0] in
           let s = ref s0 and k = ref 0 and stop = ref false and faulted = ref false in
           L.iter (fun tok ->
             if not !stop then begin
               incr k;
               let parts = S.split_on_char ':' tok in
               let fault : CvFault.fop option = match parts with
                 | ["xd"; st] -> Some (CvFault.FDelete (n_of_string st))
                 | ["xt"; st; n] -> Some (CvFault.FTruncate (n_of_string st, n_of_string n))
                 | ["xo"; st; off; v] -> Some (CvFault.FOverwrite (n_of_string st, n_of_string off, n_of_string v))
                 | _ -> None in
               match fault with
               | Some f ->
                   faulted := true;
                   s := CvFault.x_fault wn !s f;
                   out := observe !k w wn "ok0" "-" !s :: !out
               | None ->
               let o : coq_N CvModel.op = match parts with
                 | ["p"; spec] -> CvModel.Push (CvInst.x_mk_list wn (parse_vspec w spec))
                 | ["t"; n] -> CvModel.Trunc (n_of_string n)
                 | ["w"; h] -> CvModel.Write (parse_hints h)
                 | ["f"; h] -> CvModel.Flush (parse_hints h)
                 | ["s"; st; h] -> CvModel.StampedWrite (n_of_string st, parse_hints h)
                 | ["r"] -> CvModel.Reset
                 | ["i"] | ["o"] -> CvModel.Reimport
                 | ["b"] -> CvModel.Rollback
                 | ["bb"; st] -> CvModel.RollbackBefore (n_of_string st)
                 | _ -> failwith ("op " ^ tok) in
               let rg = match o with
                 | CvModel.Write _ | CvModel.Flush _ -> regime_name (CvInst.x_regime wn !s)
                 | CvModel.StampedWrite _ -> regime_name (CvInst.x_regime wn !s)
                 | _ -> "-" in
               let (s', r) = CvInst.x_step wn fc vver !s o in
               let is_rb = (match o with CvModel.Rollback | CvModel.RollbackBefore _ -> true | _ -> false) in
               let res = match r with
                 | Ok true -> "ok1" | Ok false -> "ok0"
                 | Err e -> if not is_rb then stop := true; "err:" ^ cverr_name e
                 | Panic -> stop := true; "panic" in
               s := s';
               let beyond = is_rb && !faulted && not !stop &&
                 (Z.gt (z_of_n (CvModel.cv_len s')) (Z.of_int (1 lsl 24))
                  || Z.gt (z_of_n s'.CvModel.s_stored_len) (z_of_n (CvInst.x_real_stored_len wn s'))) in
               if beyond then stop := true;
               out := (if beyond then Printf.sprintf "%d %s len=beyond" !k res
                       else if !stop then Printf.sprintf "%d %s" !k res else observe !k w wn res rg s') :: !out
             end) ops;
           L.rev !out)
  | _ -> ["err UnknownCase"]
