(* eng_schedraw.ml — model side of engine `schedraw` (C10, C12 race part): replays the
   set-up history, the thread programs and the schedule of an `I` line on the extracted step
   model (Conc/SrSteps.v) with the same scheduling rules as the harness's controller, and
   prints the realised sequence of yield points, every operation result, the final allocator
   state and the final contents of every region in the harness's format. *)
open BinNums
open Datatypes
open Base
open Conv
open Alloc
open SrSteps
open SrScen
module L = Stdlib.List
module S = Stdlib.String

let si = string_of_n

(* fast paths for the per-byte work (contents hashes): no detour through Z *)
let rec int_of_pos (p : positive) : int =
  match p with Coq_xH -> 1 | Coq_xO q -> 2 * int_of_pos q | Coq_xI q -> 2 * int_of_pos q + 1
let fast_int (x : coq_N) : int = match x with N0 -> 0 | Npos p -> int_of_pos p
let rec pos_succ (p : positive) : positive =
  match p with Coq_xH -> Coq_xO Coq_xH | Coq_xO q -> Coq_xI q | Coq_xI q -> Coq_xO (pos_succ q)
let n_succ (x : coq_N) : coq_N = match x with N0 -> Npos Coq_xH | Npos p -> Npos (pos_succ p)

(* byte k of write w: Alloc.gen_byte, tabulated *)
let gen_fun (w : int) : coq_N -> coq_N =
  fun k -> let k = fast_int k in byte_tab.((w * 131 + k * 7 + (k / 256) * 13 + 1) land 255)

let parse_top (s : string) : top =
  let t = S.split_on_char ':' s in
  let n i = n_of_string (L.nth t i) in
  let ii i = int_of_string (L.nth t i) in
  match L.hd t with
  | "c" -> TCreate (n 1)
  | "w" -> TWrite (n 1, gen_fun (ii 2), n 3, None, false)
  | "a" -> TWrite (n 1, gen_fun (ii 2), n 3, Some (n 4), false)
  | "tw" -> TWrite (n 1, gen_fun (ii 2), n 3, Some (n 4), true)
  | "t" -> TTruncate (n 1, n 2)
  | "mv" -> TRename (n 1, n 2)
  | "rm" -> TRemove (n 1)
  | "f" -> TFlush
  | "cp" -> TCompact
  | "do" -> TRdOpen (n 1)
  | "dr" -> TRdRead
  | "dc" -> TRdClose
  | _ -> failwith ("bad thread op " ^ s)

let top_ids (s : string) : int list =
  let t = S.split_on_char ':' s in
  match L.hd t with
  | "c" | "w" | "a" | "tw" | "t" | "rm" -> [int_of_string (L.nth t 1)]
  | "mv" -> [int_of_string (L.nth t 1); int_of_string (L.nth t 2)]
  | _ -> []

let pause_name (p : coq_N) : string =
  match int_of_n p with
  | 0 -> "write_with:fits:after-data" | 1 -> "write_with:relocate:before-copy" | 2 -> "write_with:relocate:after-copy"
  | 3 -> "flush:before-promote" | 4 -> "flush:before-promote-no-dirty" | 5 -> "punch_holes:locks-held" | _ -> "?"

let show_label (l : label) : string =
  let m w = if w then "w" else "r" in
  match l with
  | LB k -> "B" ^ si k
  | LLock (KL, w) -> "L" ^ m w | LLock (KR, w) -> "R" ^ m w | LLock (KP, w) -> "P" ^ m w | LLock (KF, w) -> "F" ^ m w
  | LMeta (w, i) -> "M" ^ m w ^ si i
  | LDirty i -> "D" ^ si i
  | LPause p -> "Z:" ^ pause_name p

(* FNV-1a 64 of g(from), g(from+1), … (len bytes) *)
let fnv_from (g : coq_N -> coq_N) (from : coq_N) (len : int) : string =
  let h = ref 0xcbf29ce484222325L in
  let a = ref from in
  for _ = 1 to len do
    h := Int64.mul (Int64.logxor !h (Int64.of_int (fast_int (g !a)))) 0x100000001b3L;
    a := n_succ !a
  done;
  Printf.sprintf "%016Lx" !h
let fnv_fun (g : coq_N -> coq_N) (len : int) : string = fnv_from g N0 len

let show_res (r : tres) : string =
  match r with
  | ROk -> "ok" | RNum n -> "ok:" ^ si n | RErr e -> "err:" ^ Eng_rawdb.err_name e | RPanic -> "panic"
  | RNoReader -> "err:NoReader"
  | RRead (ln, g) -> Printf.sprintf "ok:%s:%s" (si ln) (fnv_fun g (int_of_n ln))

let contents (s : st) : string =
  let live = L.filter_map (fun o -> o) s.slots in
  let live = L.sort (fun a b -> compare (int_of_n a.r_id) (int_of_n b.r_id)) live in
  if live = [] then "-" else
  S.concat " " (L.map (fun m ->
    let start = z_of_n m.r_start and ln = z_of_n m.r_len in
    if Z.gt (Z.add start ln) (z_of_n s.file_len) then Printf.sprintf "%s@%s:beyond-file" (si m.r_id) (si m.r_len)
    else
      Printf.sprintf "%s@%s:%s" (si m.r_id) (si m.r_len) (fnv_from s.mem m.r_start (Z.to_int ln))) live)

type stepres = Stepped | Finished | Blocked

(* the L1 operation a thread operation is one call of (readers have none) *)
let l1_op (s : string) : op option =
  let t = S.split_on_char ':' s in
  match L.hd t with
  | "c" -> Some (Create (n_of_string (L.nth t 1), false))
  | "do" | "dr" | "dc" -> None
  | _ -> Some (Eng_rawdb.parse_op s)

let exec (toks : string list) : string list =
  let min_len = ref N0 and pre = ref [] and progs = ref [] and sched = ref [] in
  let split v = if v = "-" || v = "" then [] else S.split_on_char ',' v in
  L.iter (fun tok ->
    if tok = "" then () else
    match S.index_opt tok '=' with
    | None -> (match S.split_on_char ':' tok with ["open"; v] -> min_len := n_of_string v | _ -> ())
    | Some p ->
        let k = S.sub tok 0 p and v = S.sub tok (p + 1) (S.length tok - p - 1) in
        if k = "pre" then pre := split v
        else if k = "s" then sched := split v
        else if S.length k > 0 && k.[0] = 'T' then progs := !progs @ [split v]) toks;
  (* sequential set-up with the L1 model *)
  let s = ref (init !min_len) in
  let pre_res = L.map (fun o ->
    let (s', r) = step_total !s (Eng_rawdb.parse_op o) in
    s := s';
    match r with
    | Ok OUnit -> "ok" | Ok (ONum n) -> "ok:" ^ si n | Err e -> "err:" ^ Eng_rawdb.err_name e | Panic -> "panic") !pre in
  let out = ref [ Printf.sprintf "pre %s | %s" (if pre_res = [] then "-" else S.concat "," pre_res) (Eng_rawdb.dump !s) ] in
  (* ownership: a region belongs to the first thread whose program names it *)
  let owner = Hashtbl.create 16 in
  L.iteri (fun t p -> L.iter (fun o -> L.iter (fun id -> if not (Hashtbl.mem owner id) then Hashtbl.add owner id t) (top_ids o)) p) !progs;
  let threads = L.mapi (fun t p ->
    let ids = L.sort compare (Hashtbl.fold (fun id tt acc -> if tt = t then id :: acc else acc) owner []) in
    let handles = L.filter_map (fun id -> match find_id !s (n_of_int id) with Some i -> Some (n_of_int id, i) | None -> None) ids in
    mk_thread (L.map parse_top p) handles) !progs in
  let g = ref { g_st = !s; g_th = threads } in
  let n = L.length threads in
  let trace = ref [] in
  let foot_viol = ref [] in
  let thread t = L.nth !g.g_th t in
  let label t = if t >= n then None else let th = thread t in if t_finished th then None else Some (show_label (t_label th)) in
  let step t =
    match label t with
    | None -> Finished
    | Some l ->
        if not (enabled !g (thread t)) then Blocked
        else begin
          trace := Printf.sprintf "%d:%s" t l :: !trace;
          (* the decidable hypothesis of C10_isolation_partial, evaluated on every step of every explored
             schedule: the step's write footprint avoids the live bytes of every region it does not target *)
          (let th = thread t in
           let fp = wfoot !g.g_st th and tgt = pc_target th.t_pc in
           if fp <> [] then
             L.iteri (fun i o -> match o with
               | Some m when (match tgt with Some j -> int_of_n j <> i | None -> true) ->
                   if not (foot_avoids fp m.r_start m.r_len) && !foot_viol = [] then
                     foot_viol := [Printf.sprintf "S C10:step-footprint-meets-live-bytes-of-a-region-it-does-not-target thread=%d at=%s region=%s" t l (si m.r_id)]
               | _ -> ()) !g.g_st.slots);
          (match gstep !g (nat_of_int t) with Some g' -> g := g' | None -> failwith "gstep refused an enabled step");
          Stepped
        end in
  let run_token tok =
    let t = (try int_of_string (S.sub tok 0 1) with _ -> 9) in
    let rest = S.sub tok 1 (S.length tok - 1) in
    let rec loop first =
      if rest = "" && not first then ()
      else begin
        let stop = ref false in
        if S.length rest > 0 && rest.[0] = '>' then begin
          let target = S.sub rest 1 (S.length rest - 1) in
          match label t with None -> stop := true | Some l when l = target -> stop := true | _ -> ()
        end;
        if rest = "!" && not first then begin
          match label t with None -> stop := true | Some l when l.[0] = 'B' -> stop := true | _ -> ()
        end;
        if not !stop then
          match step t with
          | Stepped -> loop false
          | Finished -> ()
          | Blocked -> trace := Printf.sprintf "%d:blk" t :: !trace
      end in
    loop true in
  L.iter run_token !sched;
  (* completion: threads in index order as far as they are enabled *)
  let dead = ref false in
  let continue = ref true in
  while !continue do
    let progress = ref false and unfinished = ref false in
    for t = 0 to n - 1 do
      let go = ref true in
      while !go do
        match step t with
        | Stepped -> progress := true
        | Finished -> go := false
        | Blocked -> unfinished := true; go := false
      done
    done;
    if not !unfinished then continue := false
    else if not !progress then (dead := true; continue := false)
  done;
  out := Printf.sprintf "tr %s" (S.concat " " (L.rev !trace)) :: !out;
  L.iteri (fun t th ->
    out := Printf.sprintf "res %d %s" t (if th.t_results = [] then "-" else S.concat "," (L.map show_res th.t_results)) :: !out) !g.g_th;
  if not !dead then
    out := Printf.sprintf "fin %s | %s" (Eng_rawdb.dump !g.g_st) (contents !g.g_st) :: !out;
  (* cross-check of the step model against the sequential model Rawdb/Alloc.v: the threads run one
     after the other (no interleaving) must leave exactly the state that Alloc.step_total leaves
     for the concatenated operation lists *)
  let gs = ref { g_st = !s; g_th = threads } in
  L.iteri (fun t _ ->
    let fuel = ref 100000 in
    let go = ref true in
    while !go && !fuel > 0 do
      decr fuel;
      match gstep !gs (nat_of_int t) with Some g' -> gs := g' | None -> go := false
    done) threads;
  let sa = ref !s in
  L.iter (fun p -> L.iter (fun o -> match l1_op o with
    | Some op -> let (s', _) = step_total !sa op in sa := s'
    | None -> ()) p) !progs;
  let d1 = Eng_rawdb.dump !gs.g_st ^ " | " ^ contents !gs.g_st and d2 = Eng_rawdb.dump !sa ^ " | " ^ contents !sa in
  out := (if d1 = d2 && all_finished !gs then "serial steps=alloc" else Printf.sprintf "serial steps<>alloc STEPS %s ALLOC %s" d1 d2) :: !out;
  L.rev !out @ !foot_viol
