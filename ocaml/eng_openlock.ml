(* eng_openlock.ml — model side of engine `openlock` (C18): replays the history of an `I` line on
   the extracted step model (Rawdb/OpenLock.v) with the executable oracle flock_impl and prints
   one expected observation per op. *)
open BinNums
open Datatypes
open Conv
open OpenLock
module L = Stdlib.List
module S = Stdlib.String

let tl = flock_impl
let foreign_id = n_of_int 0

let show_c = function None -> "none" | Some c -> string_of_n c

let show_open = function
  | O_open_ok (k, dl, rl, c) -> Printf.sprintf "open %s ok %s %s %s" (string_of_n k) (string_of_n dl) (string_of_n rl) (show_c c)
  | O_open_err (k, _, dl, rl) -> Printf.sprintf "open %s err TryLock %s %s" (string_of_n k) (string_of_n dl) (string_of_n rl)
  | _ -> "model-bad-obs"

let show_obs = function
  | O_ok -> "ok" | O_skip -> "skip" | O_joining -> "joining" | O_released -> "released" | O_flushed -> "flushed"
  | o -> show_open o

(* the real drop glue runs to completion before the next operation of the history: close every
   File of the instance being dropped *)
let rec finish_release (s : st) (k : coq_N) : st =
  if L.exists (fun (k', _) -> k' = k) s.closing then
    let (s', _) = step tl s (ReleaseStep k) in
    if s' = s then s else finish_release s' k
  else s

let mk_file len = { f_exists = true; f_len = n_of_string len; f_content = None; f_lock = [] }

let rec exec (toks : string list) : string list =
  match toks with
  | "race" :: _ -> ["race done"]   (* implementation-only probe; the model side of it is Rawdb/DropRace.v *)
  | _ -> exec_hist toks

and exec_hist (toks : string list) : string list =
  let s = ref (init fresh) in
  let out = ref [] in
  let attempts = ref 0 in
  let emit x = out := x :: !out in
  L.iter (fun t ->
    if S.length t >= 2 && S.sub t 0 2 = "x=" then begin
      let v = S.sub t 2 (S.length t - 2) in
      if v <> "fresh" then
        match S.split_on_char ':' v with
        | [d; r] -> s := init { data = mk_file d; regs = mk_file r }
        | _ -> failwith "x="
    end
    else if S.length t >= 2 && S.sub t 0 2 = "w=" then ()
    else
      match S.split_on_char ':' t with
      | ["o"; _w; m] ->
          incr attempts;
          let (s', o) = step tl !s (Open (n_of_string m)) in
          s := s'; emit (show_open o)
      | ["L"] ->
          if L.exists (fun o -> o = Foreign foreign_id) !s.files.regs.f_lock then emit "skip"
          else begin
            let (s', ok) = foreign_lock tl !s foreign_id in
            s := s'; emit (if ok then "locked" else "busy")
          end
      | ["U"] ->
          if L.exists (fun o -> o = Foreign foreign_id) !s.files.regs.f_lock
          then (s := foreign_unlock !s foreign_id; emit "ok") else emit "skip"
      | [op; k] | [op; k; _] when int_of_string k >= !attempts -> ignore op; emit "skip"
      | [op; k] ->
          let kn = n_of_string k in
          let region_known = !s.files.data.f_content <> None in
          let o = match op with
            | "c" -> Some (CloneHandle kn) | "d" -> Some (DropHandle kn)
            | "g" -> if region_known then Some (RegionDb kn) else None
            | "r" -> if region_known then Some (MkReader kn) else None
            | "R" -> Some (DropReader kn) | "b" -> Some (SpawnBg kn) | "B" | "E" -> Some (FinishBg kn)
            | _ -> failwith "op" in
          (match o with
           | None -> emit "skip"
           | Some o ->
               let (s', b) = step tl !s o in
               s := finish_release s' kn; emit (show_obs b))
      | ["f"; k; c] ->
          let (s', b) = step tl !s (Flush (n_of_string k, n_of_string c)) in
          s := s'; emit (show_obs b)
      | _ -> failwith ("token " ^ t)) toks;
  L.rev !out
