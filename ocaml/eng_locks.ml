(* eng_locks.ml — model side of engine `locks` (C11).
   prog   : the program the tap produced now must be one of the extracted Gen/LockSeqs.P
            (the tie between the running code and the file the theorems were checked against)
   combo  : a deadlock schedule found by the harness's search is re-checked with the extracted
            Coq semantics (RwLock.check_deadlock); for a combination without a hit the extracted
            bounded search RwLock.find_deadlock must not find one either
   replay : the model says the deadlock is reachable, so the expectation is `deadlocked`
   regress: a repaired deadlock (its cycle is no longer in the model): `not-realisable` *)
open Datatypes
open Conv
open RwLock
module L = Stdlib.List
module S = Stdlib.String

let classes = ["layout"; "regions"; "mmap"; "file"; "meta"; "dirty_bounds";
               "bg_tasks"; "bg_sync"; "header"; "pages"; "cache"; "exit"; "vecmut"]

let class_id c =
  let rec go i = function [] -> failwith ("class " ^ c) | x :: r -> if x = c then i else go (i + 1) r in
  go 0 classes

let parse_tok (x : string) : instr =
  if x.[0] = 'J' then Join (nat_of_int (int_of_string (S.sub x 1 (S.length x - 1))))
  else begin
    let sign = x.[0] in
    let rest = S.sub x 1 (S.length x - 1) in
    let (cl, mode) = match S.index_opt rest ':' with
      | Some i -> (S.sub rest 0 i, Some (S.sub rest (i + 1) (S.length rest - i - 1)))
      | None -> (rest, None) in
    let dot = S.rindex cl '.' in
    let c = S.sub cl 0 dot and inst = int_of_string (S.sub cl (dot + 1) (S.length cl - dot - 1)) in
    let l = (nat_of_int (class_id c), nat_of_int inst) in
    if sign = '+' then Acq (l, (if mode = Some "w" then Wr else Rd)) else Rel l
  end

let parse_prog (toks : string list) : instr list =
  L.map parse_tok (L.filter (fun t -> t <> "-" && t <> "") toks)

let rec split_bar (acc : string list) (t : string list) : string list list =
  match t with
  | [] -> [L.rev acc]
  | "|" :: r -> L.rev acc :: split_bar [] r
  | x :: r -> split_bar (x :: acc) r

let exec (t : string list) : string list =
  match t with
  | "prog" :: _name :: toks ->
      let p = parse_prog toks in
      if p = [] || L.mem p LockSeqs.coq_P then
        [ "ok" ]
      else [ "stale" ]
  | "combo" :: rest ->
      (match split_bar [] rest with
       | _names :: segs ->
           let n = L.length segs in
           let progs = L.map parse_prog (L.filteri (fun i _ -> i < n - 1) segs) in
           (match L.nth segs (n - 1) with
            | [ "sched"; "-" ] ->
                (match find_deadlock progs (nat_of_int 3000) with
                 | None -> [ "dl 0" ]
                 | Some _ -> [ "dl 1" ])
            | [ "sched"; s ] ->
                let sch = L.map (fun x -> nat_of_int (int_of_string x)) (S.split_on_char ',' s) in
                [ if check_deadlock progs sch then "dl 1" else "dl 0" ]
            | _ -> [ "bad-combo" ])
       | _ -> [ "bad-combo" ])
  | "replay" :: _ -> [ "deadlocked" ]
  | "regress" :: _ -> [ "not-realisable" ]
  | _ -> [ "bad-input" ]
